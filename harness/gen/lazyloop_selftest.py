"""Self-test for gen_pyfuncs_lazyloop.py: the REAL TdmsReader.read_raw_data_for_channel is run to its end on real FILES
(harness/lazygen.py: several segments, channels absent from / switched off in segments, truncated last chunks, interleaved
segments, strings).  Only the segment generator is wrapped: the wrapper runs the REAL TdmsSegment.read_raw_data_for_channel
to its end and records (segment position, chunk_offset, num_chunks) and the chunks it returned; _verify_segment_start is
wrapped to record the segment position.  The translated function is run inside Coq on the real segment records (as the
real metadata pass left them), a cold index table, io_chunks replaying the recorded chunks; its yielded chunks, the
order of all I/O calls and the exception class are compared with the real run.
"""
import os
import random
import sys
import warnings

import chunkloops_common as C
from chunkloops_common import z, hx, clist

ST_PRELUDE = """\
(* ---- self test: results of the REAL code (TdmsReader.read_raw_data_for_channel on files built by harness/lazygen.py) ---- *)
Definition lzl_key := (Z * Z * Z)%type.
(* what the real segment generators returned, by (segment position, chunk_offset, num_chunks) *)
Definition lzl_world := list (lzl_key * list (list Z)).
(* the file state: the I/O calls made so far (inl j: tag check of segment j; inr: a segment generator run) *)
Definition lzl_file := list (Z + lzl_key).
Definition lzl_key_eqb (a b : lzl_key) : bool :=
  let '(a1, a2, a3) := a in let '(b1, b2, b3) := b in (a1 =? b1) && (a2 =? b2) && (a3 =? b3).
Definition lzl_verify (f : lzl_file) (j : Z) : res lzl_file := Ok (f ++ [inl j]).
Definition lzl_chunks (w : lzl_world) (f : lzl_file) (j : Z) (s : segment) (co nc : Z) : res (list (list Z) * lzl_file) :=
  match find (fun kv => lzl_key_eqb (fst kv) (j, co, nc)) w with
  | Some kv => Ok (snd kv, f ++ [inr (j, co, nc)])
  | None => Err EOther
  end.
Definition lzl_io_eqb (a b : Z + lzl_key) : bool :=
  match a, b with inl x, inl y => x =? y | inr x, inr y => lzl_key_eqb x y | _, _ => false end.
Fixpoint lzl_list_eqb {A} (eq : A -> A -> bool) (a b : list A) : bool :=
  match a, b with
  | [], [] => true
  | x :: a', y :: b' => eq x y && lzl_list_eqb eq a' b'
  | _, _ => false
  end.
Definition lzl_run (segs : list segment) (w : lzl_world) (path : bytes) (nv offset : Z) (length : option Z)
  : res (list (list Z) * lzl_file) :=
  match read_raw_data_for_channel_gen lzl_file Z lzl_verify (lzl_chunks w) (Some segs) [] [(path, nv)] [] path offset length with
  | Ok (ys, _, f) => Ok (ys, f)
  | Err e => Err e
  end.
Definition lzl_check (segs : list segment) (c : bytes * Z * Z * option Z * lzl_world * res (list (list Z) * lzl_file)) : bool :=
  let '(path, nv, offset, length, w, r) := c in
  match lzl_run segs w path nv offset length, r with
  | Ok (ys, f), Ok (ys', f') => lzl_list_eqb (lzl_list_eqb Z.eqb) ys ys' && lzl_list_eqb lzl_io_eqb f f'
  | Err e, Err e' => st_err e e'
  | _, _ => false
  end.
"""


def selftest(repo, die):
    sys.path.insert(0, repo)
    sys.path.insert(0, C.harness_path())
    import numpy as np
    from nptdms import tdms_segment, reader as RD
    import lazygen as LG
    import logging
    logging.disable(logging.CRITICAL)
    warnings.simplefilter("ignore")
    rnd = random.Random(20261003)
    counts = {"windows": 0, "raise": 0, "chunks": 0, "segment_runs": 0}
    out = [ST_PRELUDE]

    def codes(dt, data):
        if data is None:
            return []
        if dt == "str":
            return [int(x) for x in data]
        return [int(x) for x in data]

    real_gen = tdms_segment.TdmsSegment.read_raw_data_for_channel
    real_verify = RD.TdmsReader._verify_segment_start
    nfiles, fi = 0, 0
    while nfiles < 14 and fi < 200:
        fi += 1
        spec = LG.gen_spec(rnd, small=(fi % 3 == 0))
        data, desc = LG.build(spec)
        try:
            rd, f = C.open_reader(data, repo)
        except Exception:                                           # noqa: BLE001
            continue
        chans = [c for c in desc["channels"] if desc["channels"][c]["dtype"] != "ts"]
        if not chans:
            continue
        segs = rd._segments
        pos_of = {id(s): j for j, s in enumerate(segs)}
        cases = []
        for cname in chans:
            dt = desc["channels"][cname]["dtype"]
            path = LG.path(cname)
            if path not in rd.object_metadata:
                continue
            nv = int(rd.object_metadata[path].num_values)
            windows = [(0, None), (0, 0), (0, nv), (nv, None), (max(0, nv - 1), 5)]
            for _ in range(5):
                o = rnd.randint(0, max(0, nv))
                windows.append((o, rnd.choice([None, 1, rnd.randint(0, nv + 2)])))
            windows.append((nv + 3, None))
            windows.append((1, -2))
            for (offset, length) in windows:
                log, world = [], {}

                def gen_wrap(self, fobj, channel_path, chunk_offset=0, num_chunks=None, _log=log, _world=world, _dt=dt):
                    chunks = list(real_gen(self, fobj, channel_path, chunk_offset, num_chunks))
                    key = (pos_of[id(self)], int(chunk_offset), int(num_chunks))
                    _log.append(key)
                    _world[key] = [codes(_dt, c.data) for c in chunks]
                    counts["segment_runs"] += 1
                    return iter(chunks)

                def verify_wrap(self, segment, _log=log):
                    _log.append(pos_of[id(segment)])
                    return real_verify(self, segment)
                tdms_segment.TdmsSegment.read_raw_data_for_channel = gen_wrap
                RD.TdmsReader._verify_segment_start = verify_wrap
                rd._segment_channel_offsets = {}          # a cold index table, as in the translated run
                try:
                    with np.errstate(all="raise"):
                        chunks = list(rd.read_raw_data_for_channel(path, offset, length))
                    res = "Ok (%s, %s)" % (
                        clist([clist([z(v) for v in codes(dt, c.data)]) for c in chunks]),
                        clist(["(inl %s)" % z(k) if not isinstance(k, tuple) else "(inr (%s, %s, %s))" % tuple(z(x) for x in k)
                               for k in log]))
                    counts["chunks"] += len(chunks)
                except Exception as ex:                             # noqa: BLE001
                    res = "Err %s" % C.err_of(ex, die)
                    counts["raise"] += 1
                finally:
                    tdms_segment.TdmsSegment.read_raw_data_for_channel = real_gen
                    RD.TdmsReader._verify_segment_start = real_verify
                w = clist(["((%s, %s, %s), %s)" % (z(k[0]), z(k[1]), z(k[2]), clist([clist([z(v) for v in ch]) for ch in chs]))
                           for k, chs in world.items()])
                cases.append("(%s, %s, %s, %s, %s, %s)" % (hx(path.encode()), z(nv), z(offset), C.copt(length, z), w, res))
                counts["windows"] += 1
        if not cases:
            continue
        nm = "lzl_st_file_%d" % nfiles
        out.append("Definition %s_segs : list segment :=\n  %s.\n" % (nm, clist([C.segment_term(s, die) for s in segs])))
        out.append("Definition %s_cases : list (bytes * Z * Z * option Z * lzl_world * res (list (list Z) * lzl_file)) :=\n  [%s].\n"
                   % (nm, ";\n   ".join(cases)))
        out.append("Example %s : forallb (lzl_check %s_segs) %s_cases = true.\nProof. vm_compute. reflexivity. Qed.\n" % (nm, nm, nm))
        nfiles += 1
    if nfiles < 10 or counts["windows"] < 150:
        die("self-test: too few files / windows (%d / %d)" % (nfiles, counts["windows"]))

    # ---- TdmsSegment.read_raw_data_for_channel up to its delegation: the arguments and the file position with which the REAL
    # method calls _read_channel_data_chunks (wrapped: records them and reads nothing), the empty chunks it yields before
    wcases = []
    real_rcdc = tdms_segment.TdmsSegment._read_channel_data_chunks
    wrnd = random.Random(77)
    nseg_terms = 0
    for fi2 in range(40):
        spec = LG.gen_spec(wrnd, small=True)
        data, desc = LG.build(spec)
        try:
            rd, f = C.open_reader(data, repo)
        except Exception:                                           # noqa: BLE001
            continue
        for seg in rd._segments[:3]:
            if nseg_terms >= 24:
                break
            nseg_terms += 1
            paths = [o.path for o in seg.ordered_objects][:1] or ["/'x'/'y'"]
            for strip_raw in (False, True):
                saved = seg.toc_mask
                if strip_raw:
                    seg.toc_mask = seg.toc_mask & ~8
                term = C.segment_term(seg, die)
                for (co, nc) in [(0, None), (0, 0), (1, None), (1, 0), (2, 1), (0, 3), (3, 2), (np.int32(1), np.int32(2))]:
                    rec = []

                    def rcdc_wrap(self, file, data_objects, channel_path, chunk_offset, stop_chunk, chunk_size, _rec=rec):
                        _rec.append((int(chunk_offset), int(stop_chunk), int(chunk_size), int(file.tell())))
                        return iter(())
                    tdms_segment.TdmsSegment._read_channel_data_chunks = rcdc_wrap
                    try:
                        f.seek(5)
                        ys = list(seg.read_raw_data_for_channel(f, paths[0], co, nc))
                        if len(rec) != 1 or any(len(y) != 0 for y in ys):
                            die("self-test: unexpected behaviour of the wrapped segment generator")
                        res = "Ok (%s, %s, %s, %s, %s)" % tuple(z(x) for x in rec[0] + (len(ys),))
                    except Exception as ex:                         # noqa: BLE001
                        res = "Err %s" % C.err_of(ex, die)
                    finally:
                        tdms_segment.TdmsSegment._read_channel_data_chunks = real_rcdc
                    wcases.append("(%s, %s, %s, %s)" % (term, z(co), C.copt(None if nc is None else int(nc), z), res))
                seg.toc_mask = saved
    if len(wcases) < 100:
        die("self-test: too few segment window cases (%d)" % len(wcases))
    counts["segment_windows"] = len(wcases)
    for k in range(0, len(wcases), 64):
        out.append("Definition lzl_st_window_%d_cases : list (segment * Z * option Z * res (Z * Z * Z * Z * Z)) :=\n  [%s].\n"
                   % (k // 64, ";\n   ".join(wcases[k:k + 64])))
        out.append("Example lzl_st_window_%d : forallb (fun '(s, co, nc, r) => st_res (fun a b => "
                   "let '(a1, a2, a3, a4, a5) := a in let '(b1, b2, b3, b4, b5) := b in "
                   "(a1 =? b1) && (a2 =? b2) && (a3 =? b3) && (a4 =? b4) && (a5 =? b5)) "
                   "(segment_channel_window_gen s 5 co nc) r) lzl_st_window_%d_cases = true.\nProof. vm_compute. reflexivity. Qed.\n"
                   % (k // 64, k // 64))
    counts["files"] = nfiles
    return "\n".join(out), counts
