#!/venv/bin/python
"""Fail-closed translator: the SCALING CLASSES of npTDMS -> coq/theories/Gen/PyFuncsScaleEval.v
(+ the self-test coq/theories/Gen/PyFuncsScaleEvalTest.v)

Translated with Python `ast` (harness/gen/py2gallina.py + harness/gen/scale_sem.py; nptdms is imported only
for the self-test), from nptdms/scaling.py:

  for every scaling class (NoOpScaling, LinearScaling, PolynomialScaling, RtdScaling, StrainScaling, TableScaling,
  ThermistorScaling, ThermocoupleScaling, AddScaling, SubtractScaling, DaqMxScalerScaling)
      __init__           (which attribute receives which argument; TableScaling's monotonicity test, flip and
                          ValueError; ThermocoupleScaling's type-code table)
      from_properties    (WHICH property names are read, with which index prefix and in which order, the
                          try/except KeyError defaults, RAW_DATA_INPUT_SOURCE, the size properties, the
                          coefficient / table loops and their order)
  the `scale` methods of the structural classes (Linear, Polynomial, Table, Add, Subtract, NoOp): operand
      order, which attribute feeds which argument of polyval / np.interp, the empty-coefficients branch
  _double_precision_dtype
  MultiScaling._compute_scaled_data (RAW_DATA_INPUT_SOURCE test, DAQmx scaler, one-input and two-input
      scalings, which input source feeds which operand), MultiScaling.scale (the last scale is the output)
  _get_channel_scaling, all of it (number of scalings, status, the construction loop: DAQmx scaler for a
      missing Scale_Type, the dispatch on the Scale_Type string, unsupported type -> None)

Not translated here: the `scale` methods of the sensor classes (gen_pyfuncs_sensoreval.py; in this file the
dispatch hands a sensor object to the Section variable sensor_scale_py), get_dtype / _compute_scale_dtype (C14).

Conventions: see harness/gen/scale_sem.py (typed reads, try/except, string formatting, open recursion).
  * An object of a scaling class is a constructor of the generated inductive type scaling_py carrying the
    attributes its __init__ assigns, in that order; the declared Python type of every attribute is the table
    ATTRS below and is CHECKED against what the translated __init__ computes.
  * `isinstance(x, C)`, `hasattr(x, 'a')`, `x.a`, `x.scale(..)`: generated from the classes' __init__ / methods
    (has_a = the classes whose __init__ assigns self.a; x.a on another class: AttributeError = Err EOther;
    x.scale with the wrong number of arguments: TypeError).
  * MultiScaling is represented by its single attribute (the list of scalings).

Anything unrecognised: message on stderr, exit 1, nothing written.
"""
import ast
import os
import sys

HERE = os.path.dirname(os.path.abspath(__file__))
sys.path.insert(0, HERE)
import py2gallina as T                                             # noqa: E402
from py2gallina import Z, B, OPT, LIST, TUP, REC                    # noqa: E402
import np_sem as N                                                 # noqa: E402
import scale_sem as S                                              # noqa: E402
from scale_sem import F64, CSTR, PVAL, PDICT, ARR, FARR, SCALERS    # noqa: E402

VERIF = os.path.dirname(os.path.dirname(HERE))
REPO = os.environ.get("NPTDMS_REPO", "/repo")
OUT = os.path.join(VERIF, "coq", "theories", "Gen", "PyFuncsScaleEval.v")
OUT_TEST = os.path.join(VERIF, "coq", "theories", "Gen", "PyFuncsScaleEvalTest.v")
ME = "gen_pyfuncs_scaleeval"

SCALING = REC("scaling_py")
RAWDATA = REC("ScaleGraph.rawdata")
TC = N.ENUM("tctype")
MULTI = LIST(OPT(SCALING))

# declared Python type of every attribute (checked against the translated __init__).  PVAL = "whatever the
# property holds" (the sensor parameters: the model ScaleGraph.scaling_at only requires their presence).
_RTD = ["current_excitation", "r0_nominal_resistance", "a", "b", "c", "lead_wire_resistance", "resistance_configuration"]
_STRAIN = ["configuration", "poisson_ratio", "gage_resistance", "lead_wire_resistance", "initial_bridge_voltage",
           "gage_factor", "gain_adjustment", "voltage_excitation"]
_THERMISTOR = ["excitation_type", "excitation_value", "resistance_configuration", "r1_reference_resistance",
               "lead_wire_resistance", "a", "b", "c", "temperature_offset"]
ATTRS = {
    "NoOpScaling": {"input_source": Z},
    "LinearScaling": {"intercept": F64, "slope": F64, "input_source": Z},
    "PolynomialScaling": {"coefficients": LIST(F64), "input_source": Z},
    "RtdScaling": dict([(a, PVAL) for a in _RTD] + [("input_source", Z)]),
    "StrainScaling": dict([(a, PVAL) for a in _STRAIN] + [("input_source", Z)]),
    "TableScaling": {"input_values": FARR, "output_values": FARR, "input_source": Z},
    "ThermistorScaling": dict([(a, PVAL) for a in _THERMISTOR] + [("input_source", Z)]),
    "ThermocoupleScaling": {"thermocouple": TC, "scaling_direction": PVAL, "input_source": Z},
    "AddScaling": {"left_input_source": Z, "right_input_source": Z},
    "SubtractScaling": {"left_input_source": Z, "right_input_source": Z},
    "DaqMxScalerScaling": {"scale_id": Z},
}
# constructor parameters that are not stored under their own name
INIT_PARAMS = {("TableScaling", "pre_scaled_values"): FARR, ("TableScaling", "scaled_values"): FARR,
               ("ThermocoupleScaling", "type_code"): Z}
SENSORS = ["RtdScaling", "StrainScaling", "ThermistorScaling", "ThermocoupleScaling"]
TC_OBJECTS = {"thermocouples.type_%s" % c: "T%s" % c.upper() for c in "bejknrst"}
CONSTANTS = {"RAW_DATA_INPUT_SOURCE": 0xFFFFFFFF}


def die(msg):
    sys.stderr.write("%s: UNSUPPORTED / unrecognised source, nothing written: %s\n" % (ME, msg))
    sys.exit(1)


def unp(n):
    return ast.unparse(n)


def comment_of(cls, f, stmts=None):
    stmts = f.body if stmts is None else stmts
    txt = "\n".join(unp(s) for s in stmts if not T.is_skip(s)).replace("(*", "( *").replace("*)", "* )")
    where = "%s.%s" % (cls, f.name) if cls else f.name
    return "nptdms/scaling.py: %s (line %d)\n%s\n" % (where, f.lineno, "\n".join("     " + l for l in txt.split("\n")))


def find_class(tree, name):
    cs = [n for n in tree.body if isinstance(n, ast.ClassDef) and n.name == name]
    if len(cs) != 1:
        die("expected exactly one class %s" % name)
    return cs[0]


def method(cls, name, static=False, optional=False):
    fs = [n for n in cls.body if isinstance(n, ast.FunctionDef) and n.name == name]
    if not fs and optional:
        return None
    if len(fs) != 1:
        die("expected exactly one def %s.%s" % (cls.name, name))
    f = fs[0]
    decos = [unp(d) for d in f.decorator_list]
    if decos != (["staticmethod"] if static else []):
        die("decorators of %s.%s" % (cls.name, name))
    if f.args.vararg or f.args.kwarg or f.args.kwonlyargs or f.args.defaults:
        die("signature of %s.%s" % (cls.name, name))
    return f


def find_def(tree, name):
    fs = [n for n in tree.body if isinstance(n, ast.FunctionDef) and n.name == name]
    if len(fs) != 1:
        die("expected exactly one def %s" % name)
    f = fs[0]
    if f.decorator_list or f.args.vararg or f.args.kwarg or f.args.kwonlyargs or f.args.defaults:
        die("signature of %s" % name)
    return f


def module_int(tree, name):
    vs = [n for n in tree.body if isinstance(n, ast.Assign) and len(n.targets) == 1 and unp(n.targets[0]) == name]
    if len(vs) != 1 or not (isinstance(vs[0].value, ast.Constant) and type(vs[0].value.value) is int):
        die("module constant %s" % name)
    return vs[0].value.value


PRELUDE = S.PRELUDE_COMMON + """\
(* errors of the model's functions as exception classes (what the model leaves out of scope, EUnmodelled, and
   its internal kinds are "some other exception") *)
Definition sg_lift_err (e : ScaleGraph.err) : err :=
  match e with
  | ScaleGraph.EKey => EKey | ScaleGraph.EIndex => EIndex | ScaleGraph.EValue => EValue | ScaleGraph.EType => EType
  | _ => EOther
  end.
Definition sg_lift {A} (r : ScaleGraph.res A) : res A :=
  match r with ScaleGraph.Ok a => Ok a | ScaleGraph.Err e => Err (sg_lift_err e) end.
(* float(v) of a property value that is declared a Python float (another type: outside the model) *)
Definition py_float_of_pval (v : ScaleGraph.pval) : res float :=
  match v with ScaleGraph.PFloat f => Ok f | _ => Err EOther end.
(* properties.get(k, d) read as an int *)
Definition py_get_int (k : string) (p : ScaleGraph.props) (d : Z) : res Z :=
  match ScaleGraph.pget k p with Some v => py_int_of_pval v | None => Ok d end.
(* l[i] = x on a Python list: negative indices wrap once, IndexError outside *)
Definition py_setitem {A} (l : list A) (i : Z) (x : A) : res (list A) :=
  let len := Z.of_nat (List.length l) in
  let i' := if i <? 0 then i + len else i in
  if (0 <=? i') && (i' <? len)
  then Ok (List.firstn (Z.to_nat i') l ++ x :: List.skipn (S (Z.to_nat i')) l)%list else Err EIndex.
(* d[k] for a dict literal with int keys / for raw_channel_data.scaler_data *)
Fixpoint py_zdict_get {A} (d : list (Z * A)) (k : Z) : option A :=
  match d with [] => None | (k', a) :: r => if k =? k' then Some a else py_zdict_get r k end.
Definition py_scaler_get (d : list (nat * ScaleGraph.value)) (k : Z) : option ScaleGraph.value :=
  if k <? 0 then None else ScaleGraph.assoc_nat (Z.to_nat k) d.
(* arr.astype(dtype, copy=False): float64 is the conversion of the model; the array's own dtype is the
   identity; any other conversion is not modelled *)
Definition np_astype (v : ScaleGraph.value) (d : dtype) : res ScaleGraph.value :=
  match d with
  | Float64 => Ok (ScaleGraph.VD (ScaleGraph.astype_f64 v))
  | _ => if dtype_eqb (ScaleGraph.dtype_of v) d then Ok v else Err EOther
  end.
(* float64 array (+ - * /) Python float: one rounded operation per element; other dtypes: not modelled *)
Definition np_arr_k (f : float -> float -> float) (v : ScaleGraph.value) (k : float) : res ScaleGraph.value :=
  match v with ScaleGraph.VD l => Ok (ScaleGraph.VD (List.map (fun x => f x k) l)) | _ => Err EOther end.
Definition np_mul_k := np_arr_k PrimFloat.mul.
Definition np_add_k := np_arr_k PrimFloat.add.
Definition np_sub_k := np_arr_k PrimFloat.sub.
Definition np_div_k := np_arr_k PrimFloat.div.
(* array + array / array - array: NumPy's promotion (NumpyPromote) and the operation of the common type *)
Definition np_add (a b : ScaleGraph.value) : res ScaleGraph.value :=
  sg_lift (ScaleGraph.np_arith false (add_arr (ScaleGraph.dtype_of a) (ScaleGraph.dtype_of b)) a b).
Definition np_sub (a b : ScaleGraph.value) : res ScaleGraph.value :=
  sg_lift (ScaleGraph.np_arith true (sub_arr (ScaleGraph.dtype_of a) (ScaleGraph.dtype_of b)) a b).
(* np.diff *)
Definition np_diff (l : list float) : list float :=
  List.map (fun pr => (snd pr - fst pr)%float) (List.combine l (List.tl l)).
(* np.interp(x, xp, fp) (left = fp[0], right = fp[-1]; x converted to float64; ValueError for an empty xp or
   different lengths): the model's clamped piecewise-linear interpolation *)
Definition np_interp (x : ScaleGraph.value) (xp fp : list float) : res (list float) :=
  match ScaleGraph.scale_table xp fp x with
  | ScaleGraph.Ok (ScaleGraph.VD l) => Ok l
  | ScaleGraph.Ok _ => Err EOther
  | ScaleGraph.Err e => Err (sg_lift_err e)
  end.
"""


def translate():
    path = os.path.join(REPO, "nptdms", "scaling.py")
    try:
        tree = ast.parse(open(path).read())
    except (OSError, SyntaxError) as e:
        die("cannot read/parse %s: %s" % (path, e))
    S.install()
    for name, val in CONSTANTS.items():
        if module_int(tree, name) != val:
            die("%s is no longer %d" % (name, val))
    cx = T.Cx({}, {}, {}, {})
    cx.kwcalls = True
    cx.str_consts = True
    cx.try_catch = True
    sem = S.ScaleSem()
    cx.np = sem
    for name, val in CONSTANTS.items():
        cx.globals[name] = ("%d" % val, Z)
    for k, v in TC_OBJECTS.items():
        cx.globals[k] = (v, TC)
    sigs = {}
    classes = {}            # name -> dict(node, attrs (ordered), init_params [(name, type)], scale arity)
    for cname_ in ATTRS:
        node = find_class(tree, cname_)
        init = method(node, "__init__")
        pnames = [a.arg for a in init.args.args]
        if pnames[:1] != ["self"]:
            die("%s.__init__: first parameter" % cname_)
        ptys = []
        for p in pnames[1:]:
            if (cname_, p) in INIT_PARAMS:
                ptys.append((p, INIT_PARAMS[(cname_, p)]))
            elif p in ATTRS[cname_]:
                ptys.append((p, ATTRS[cname_][p]))
            else:
                die("%s.__init__: parameter %s has no declared type" % (cname_, p))
        order = [k[5:] for k in T.assigned_keys(init.body) if k.startswith("self.")]
        if sorted(order) != sorted(ATTRS[cname_]):
            die("%s.__init__ assigns the attributes %s, declared are %s" % (cname_, order, sorted(ATTRS[cname_])))
        classes[cname_] = dict(node=node, init=init, attrs=order, params=ptys)
    # class-level int constants (StrainScaling.FULL_BRIDGE_1 ..)
    for cname_, c in classes.items():
        for n in c["node"].body:
            if isinstance(n, ast.Assign) and len(n.targets) == 1 and isinstance(n.targets[0], ast.Name) \
                    and isinstance(n.value, ast.Constant) and type(n.value.value) is int:
                cx.globals["%s.%s" % (cname_, n.targets[0].id)] = ("%d" % n.value.value, Z)

    ctor = "Py%s"
    defs = cx.defs
    # ---- the union of the scaling classes
    lines = ["(* an object of one of the scaling classes: the attributes its __init__ assigns, in that order *)",
             "Inductive scaling_py : Type :="]
    for cname_, c in classes.items():
        lines.append("| %s %s" % (ctor % cname_, " ".join("(%s : %s)" % (T.cname(a), T.coqty(ATTRS[cname_][a])) for a in c["attrs"])))
    defs.append("\n".join(lines) + ".")
    for cname_, c in classes.items():
        defs.append("(* isinstance(x, %s) *)\nDefinition is_%s (x : scaling_py) : bool :=\n  match x with %s %s => true | _ => false end."
                    % (cname_, cname_, ctor % cname_, " ".join("_" for _ in c["attrs"])))
        cx.isinst[("scaling_py", cname_)] = "(is_" + cname_ + " %s)"
    # attributes that are looked at on an object of unknown class (hasattr(x, 'a') / x.a in MultiScaling)
    multi_node = find_class(tree, "MultiScaling")
    dyn = set()
    for n in ast.walk(multi_node):
        if isinstance(n, ast.Call) and isinstance(n.func, ast.Name) and n.func.id == "hasattr" and len(n.args) == 2 \
                and isinstance(n.args[1], ast.Constant):
            dyn.add(n.args[1].value)
        if isinstance(n, ast.Attribute) and isinstance(n.value, ast.Name) and n.value.id == "scaling":
            dyn.add(n.attr)
    all_attrs = []
    for c in classes.values():
        for a in c["attrs"]:
            if a not in all_attrs and a in dyn:
                all_attrs.append(a)
    cx.hasattr_table = {}
    for a in all_attrs:
        tys = {ATTRS[cn][a] for cn in classes if a in classes[cn]["attrs"]}
        if len(tys) != 1:
            continue                # an attribute with different types in different classes: not accessible generically
        ty = tys.pop()
        arms = []
        for cn, c in classes.items():
            if a in c["attrs"]:
                arms.append("  | %s %s => Some v__" % (ctor % cn, " ".join("v__" if x == a else "_" for x in c["attrs"])))
        defs.append("(* x.%s (None: the class has no such attribute, AttributeError); hasattr(x, '%s') *)\n"
                    "Definition get_%s (x : scaling_py) : option %s :=\n  match x with\n%s\n  | _ => None\n  end.\n"
                    "Definition has_%s (x : scaling_py) : bool := negb (is_none (get_%s x))."
                    % (a, a, a, T.coqty(ty), "\n".join(arms), a, a))
        cx.attr[("scaling_py", a)] = ("get_%s" % a, OPT(ty), "EOther")
        cx.hasattr_table[("scaling_py", a)] = "(has_" + a + " %s)"

    # ---- _double_precision_dtype
    f = find_def(tree, "_double_precision_dtype")
    if [a.arg for a in f.args.args] != ["dtype"]:
        die("signature of _double_precision_dtype")
    rty = T.function(cx, "double_precision_dtype_gen", f.body, [("dtype", S.DTYPE)], {"dtype": ("dtype", S.DTYPE)}, [],
                     comment_of(None, f))
    if rty != S.DTYPE:
        die("_double_precision_dtype returns %r" % (rty,))
    cx.callees["_double_precision_dtype"] = ("double_precision_dtype_gen", [S.DTYPE], S.DTYPE, [])
    sigs["double_precision_dtype_gen"] = 1

    # ---- calls of constructors / from_properties / methods of scaling objects / the recursive call
    ctor_ptys = {cn: [t for _, t in c["params"]] for cn, c in classes.items()}

    def calls(e, env, h, cx_):
        fn = e.func
        if isinstance(fn, ast.Name) and fn.id in classes:
            c = classes[fn.id]
            if e.keywords or len(e.args) != len(c["params"]):
                T.fail(e, "constructor call (positional arguments only)")
            args = []
            for a, (pn, pty) in zip(e.args, c["params"]):
                t, ty = T.ex(a, env, h, cx_)
                if ty != pty:
                    T.fail(a, "%s(%s=..): a value of type %r where %r is declared" % (fn.id, pn, ty, pty))
                args.append(t)
            return sem.hoist(e, h, cx_, "%s_new_gen %s" % (fn.id, " ".join(args))), SCALING
        if isinstance(fn, ast.Name) and fn.id == "MultiScaling":
            if e.keywords or len(e.args) != 1:
                T.fail(e, "MultiScaling(..)")
            t, ty = T.ex(e.args[0], env, h, cx_)
            if ty != MULTI:
                T.fail(e, "MultiScaling of %r" % (ty,))
            return sem.hoist(e, h, cx_, "MultiScaling_init_gen %s" % t), MULTI
        if isinstance(fn, ast.Attribute) and fn.attr == "from_properties" and isinstance(fn.value, ast.Name) \
                and fn.value.id in classes and ("%s.from_properties" % fn.value.id) in sigs:
            ptys = sigs["%s.from_properties" % fn.value.id]
            if e.keywords or len(e.args) != len(ptys):
                T.fail(e, "arity of from_properties")
            args = []
            for a, pty in zip(e.args, ptys):
                t, ty = T.ex(a, env, h, cx_)
                if ty != pty:
                    T.fail(a, "argument of type %r where %r is declared" % (ty, pty))
                args.append(t)
            return sem.hoist(e, h, cx_, "%s_from_properties_gen %s" % (fn.value.id, " ".join(args))), SCALING
        if isinstance(fn, ast.Attribute) and unp(fn) == "self._compute_scaled_data" and "rec__" in env:
            if e.keywords or len(e.args) != 2:
                T.fail(e, "recursive call")
            a, aty = T.ex(e.args[0], env, h, cx_)
            b, bty = T.ex(e.args[1], env, h, cx_)
            if aty != Z or bty != RAWDATA:
                T.fail(e, "_compute_scaled_data(%r, %r)" % (aty, bty))
            return sem.hoist(e, h, cx_, "rec__ %s %s" % (a, b)), ARR
        if isinstance(fn, ast.Attribute) and fn.attr in ("scale", "scale_daqmx") and not e.keywords \
                and not (isinstance(fn.value, ast.Name) and fn.value.id == "self"):
            o, oty = T.ex(fn.value, env, h, cx_)
            if oty != SCALING:
                return None
            args = []
            for a in e.args:
                t, ty = T.ex(a, env, h, cx_)
                if ty != (SCALERS if fn.attr == "scale_daqmx" else ARR):
                    T.fail(a, "argument of %s of type %r" % (fn.attr, ty))
                args.append(t)
            return sem.hoist(e, h, cx_, "dispatch_%s%d %s %s" % (fn.attr, len(args), o, " ".join(args))), ARR
        return None
    sem.extra_calls.append(calls)

    # ---- per class: __init__, the constructor, from_properties, scale
    for cname_, c in classes.items():
        init = c["init"]
        params = [(T.cname(p), t) for p, t in c["params"]]
        env0 = {p: (T.cname(p), t) for p, t in c["params"]}
        outputs = ["self." + a for a in c["attrs"]]
        S.check_inplace(init, "%s.__init__" % cname_)
        rty = T.function(cx, "%s_init_gen" % cname_, init.body, params, env0, outputs, comment_of(cname_, init))
        want = [ATTRS[cname_][a] for a in c["attrs"]]
        if rty != (TUP(*want) if len(want) > 1 else want[0]):
            die("%s.__init__: the attributes have the types %r, declared are %r" % (cname_, rty, want))
        names = ["a%d__" % i for i in range(len(c["attrs"]))]
        pat = "'(" + ", ".join(names) + ")" if len(names) > 1 else names[0]
        defs.append("(* %s(..): the object *)\nDefinition %s_new_gen%s : res scaling_py :=\n  do %s <- %s_init_gen %s;\n  Ok (%s %s)."
                    % (cname_, cname_, "".join(" (%s : %s)" % (n, T.coqty(t)) for n, t in params), pat, cname_,
                       " ".join(n for n, _ in params), ctor % cname_, " ".join(names)))
        sigs["%s.__init__" % cname_] = 1
        fp = method(c["node"], "from_properties", static=True, optional=True)
        if fp is not None:
            pn = [a.arg for a in fp.args.args]
            if pn[:2] != ["properties", "scale_index"] or pn[2:] not in ([], ["scale_name"]):
                die("signature of %s.from_properties" % cname_)
            ptys = [PDICT, Z] + [CSTR] * (len(pn) - 2)
            sem.read_types = S.infer_reads(fp, "properties", ctor_ptys)
            S.check_inplace(fp, "%s.from_properties" % cname_)
            rty = T.function(cx, "%s_from_properties_gen" % cname_, fp.body, list(zip(pn, ptys)),
                             {n: (n, t) for n, t in zip(pn, ptys)}, [], comment_of(cname_, fp))
            sem.read_types = {}
            if rty != SCALING:
                die("%s.from_properties returns %r" % (cname_, rty))
            sigs["%s.from_properties" % cname_] = ptys

    scale_kind = {}         # class -> (number of data arguments, result type) of its translated scale method
    for cname_, c in classes.items():
        if cname_ in SENSORS:
            continue
        for mname in ("scale", "scale_daqmx"):
            sc = method(c["node"], mname, optional=True)
            if sc is None:
                continue
            pn = [a.arg for a in sc.args.args]
            if pn[:1] != ["self"] or not 1 <= len(pn) - 1 <= 2:
                die("signature of %s.%s" % (cname_, mname))
            S.check_inplace(sc, "%s.%s" % (cname_, mname))
            aty = SCALERS if mname == "scale_daqmx" else ARR
            params = [(T.cname("self." + a), ATTRS[cname_][a]) for a in c["attrs"]] + [(T.cname(p), aty) for p in pn[1:]]
            env0 = {"self." + a: (T.cname("self." + a), ATTRS[cname_][a]) for a in c["attrs"]}
            env0.update({p: (T.cname(p), aty) for p in pn[1:]})
            rty = T.function(cx, "%s_%s_gen" % (cname_, mname), sc.body, params, env0, [], comment_of(cname_, sc))
            if rty not in (ARR, FARR):
                die("%s.%s returns %r" % (cname_, mname, rty))
            scale_kind[(cname_, mname)] = (len(pn) - 1, rty)
            sigs["%s.%s" % (cname_, mname)] = 1

    # ---- dynamic dispatch of x.scale(a) / x.scale(a, b) / x.scale_daqmx(d)
    defs.append("Section Evaluation.\n(* the `scale` methods of the sensor classes (translated in PyFuncsSensorEval) *)\n"
                "Variable sensor_scale_py : scaling_py -> ScaleGraph.value -> res ScaleGraph.value.")
    for mname, nargs in (("scale", 1), ("scale", 2), ("scale_daqmx", 1)):
        aty = "(list (nat * ScaleGraph.value))" if mname == "scale_daqmx" else "ScaleGraph.value"
        args = ["a%d__" % i for i in range(nargs)]
        arms = []
        for cname_, c in classes.items():
            binders = [T.cname("self." + a) for a in c["attrs"]]
            if cname_ in SENSORS and mname == "scale":
                sc = method(c["node"], "scale")
                if len(sc.args.args) - 1 == nargs:
                    arms.append("  | %s %s => sensor_scale_py x__ %s" % (ctor % cname_, " ".join("_" for _ in binders), " ".join(args)))
                else:
                    arms.append("  | %s %s => Err EType" % (ctor % cname_, " ".join("_" for _ in binders)))
                continue
            kind = scale_kind.get((cname_, mname))
            if kind is None:
                arms.append("  | %s %s => Err EOther" % (ctor % cname_, " ".join("_" for _ in binders)))     # AttributeError
            elif kind[0] != nargs:
                arms.append("  | %s %s => Err EType" % (ctor % cname_, " ".join("_" for _ in binders)))      # wrong arity
            else:
                call = "%s_%s_gen %s %s" % (cname_, mname, " ".join(binders), " ".join(args))
                if kind[1] == FARR:
                    call = "do r__ <- %s; Ok (ScaleGraph.VD r__)" % call
                arms.append("  | %s %s => %s" % (ctor % cname_, " ".join(binders), call))
        defs.append("(* x.%s(%s): the method of x's class *)\nDefinition dispatch_%s%d (x__ : scaling_py)%s : res ScaleGraph.value :=\n"
                    "  match x__ with\n%s\n  end."
                    % (mname, ", ".join(args), mname, nargs, "".join(" (%s : %s)" % (a, aty) for a in args), "\n".join(arms)))

    # ---- MultiScaling
    multi = find_class(tree, "MultiScaling")
    init = method(multi, "__init__")
    if [a.arg for a in init.args.args] != ["self", "scalings"]:
        die("signature of MultiScaling.__init__")
    rty = T.function(cx, "MultiScaling_init_gen", init.body, [("scalings", MULTI)], {"scalings": ("scalings", MULTI)},
                     ["self.scalings"], comment_of("MultiScaling", init))
    if rty != MULTI:
        die("MultiScaling.__init__")
    cx.attr[("ScaleGraph.rawdata", "data")] = ("ScaleGraph.rdata", OPT(ARR), None)
    cx.attr[("ScaleGraph.rawdata", "scaler_data")] = ("ScaleGraph.rscalers", SCALERS, None)
    REC_T = ("fun", (Z, RAWDATA), ARR)
    comp = method(multi, "_compute_scaled_data")
    if [a.arg for a in comp.args.args] != ["self", "scale_index", "raw_channel_data"]:
        die("signature of MultiScaling._compute_scaled_data")
    n_rec = sum(1 for n in ast.walk(comp) if isinstance(n, ast.Attribute) and unp(n) == "self._compute_scaled_data")
    if n_rec == 0:
        die("_compute_scaled_data no longer calls itself")
    S.check_inplace(comp, "MultiScaling._compute_scaled_data")
    params = [("rec__", REC_T), ("self_scalings", MULTI), ("scale_index", Z), ("raw_channel_data", RAWDATA)]
    env0 = {"rec__": ("rec__", REC_T), "self.scalings": ("self_scalings", MULTI), "scale_index": ("scale_index", Z),
            "raw_channel_data": ("raw_channel_data", RAWDATA)}
    rty = T.function(cx, "compute_scaled_data_gen", comp.body, params, env0, [],
                     comment_of("MultiScaling", comp) + "   (rec__: the recursive call self._compute_scaled_data)\n")
    if rty != ARR:
        die("_compute_scaled_data returns %r" % (rty,))
    sc = method(multi, "scale")
    if [a.arg for a in sc.args.args] != ["self", "raw_channel_data"]:
        die("signature of MultiScaling.scale")
    params = [("rec__", REC_T), ("self_scalings", MULTI), ("raw_channel_data", RAWDATA)]
    env0 = {"rec__": ("rec__", REC_T), "self.scalings": ("self_scalings", MULTI), "raw_channel_data": ("raw_channel_data", RAWDATA)}
    rty = T.function(cx, "MultiScaling_scale_gen", sc.body, params, env0, [],
                     comment_of("MultiScaling", sc) + "   (rec__: self._compute_scaled_data)\n")
    if rty != ARR:
        die("MultiScaling.scale returns %r" % (rty,))
    defs.append("""(* the recursion of _compute_scaled_data, bounded: a call nested deeper than `fuel` is Err EFuel (fixed text) *)
Fixpoint compute_scaled_data_fuel (fuel : nat) (self_scalings : list (option scaling_py)) (scale_index : Z)
         (raw_channel_data : ScaleGraph.rawdata) {struct fuel} : res ScaleGraph.value :=
  compute_scaled_data_gen
    (fun z__ r__ => match fuel with O => Err EFuel | S f__ => compute_scaled_data_fuel f__ self_scalings z__ r__ end)
    self_scalings scale_index raw_channel_data.
Definition MultiScaling_scale_fuel (fuel : nat) (self_scalings : list (option scaling_py))
           (raw_channel_data : ScaleGraph.rawdata) : res ScaleGraph.value :=
  MultiScaling_scale_gen (compute_scaled_data_fuel fuel self_scalings) self_scalings raw_channel_data.
End Evaluation.""")
    sigs["MultiScaling"] = 3

    # ---- _get_channel_scaling (all of it)
    f = find_def(tree, "_get_channel_scaling")
    if [a.arg for a in f.args.args] != ["properties"]:
        die("signature of _get_channel_scaling")
    cx.callees["_get_number_of_scalings"] = ("get_number_of_scalings_gen", [PDICT], OPT(Z), [])
    sem.none_lists = {"scalings": SCALING}
    sem.read_types = S.infer_reads(f, "properties", ctor_ptys)
    S.check_inplace(f, "_get_channel_scaling")
    rty = T.function(cx, "get_channel_scaling_gen", f.body, [("properties", PDICT)], {"properties": ("properties", PDICT)}, [],
                     comment_of(None, f))
    if rty != OPT(MULTI):
        die("_get_channel_scaling returns %r" % (rty,))
    sigs["_get_channel_scaling"] = 1
    return cx, sigs, classes


def header():
    return ("(* GENERATED by harness/gen/gen_pyfuncs_scaleeval.py from nptdms/scaling.py -- do not edit.\n"
            "   Shallow monadic translation of the scaling classes (constructors, from_properties, scale), of\n"
            "   MultiScaling and of _get_channel_scaling; see the script and harness/gen/scale_sem.py for the conventions. *)\n"
            "From Coq Require Import String.\n"
            "From Coq Require Import ZArith List Bool PrimFloat.\n"
            "Import ListNotations.\n"
            "From NpTdms Require Import Base.Res Base.PySlice Gen.NumpyPromote Gen.ThermoTables Gen.PyFuncsScaling.\n"
            "From NpTdms Require Model.ScaleGraph.\n"
            "Local Open Scope Z_scope.\n\n")


def write_if_changed(path, text):
    old = None
    try:
        old = open(path).read()
    except OSError:
        pass
    if old != text:
        os.makedirs(os.path.dirname(path), exist_ok=True)
        tmp = path + ".tmp.%d" % os.getpid()
        with open(tmp, "w") as fh:
            fh.write(text)
        os.replace(tmp, path)
        print("%s: wrote %s" % (ME, os.path.relpath(path, VERIF)))
    else:
        print("%s: %s up to date" % (ME, os.path.relpath(path, VERIF)))


def main():
    try:
        cx, sigs, classes = translate()
    except T.Unsupported as e:
        die(str(e))
    text = header() + PRELUDE + "\n" + "\n\n".join(cx.defs) + "\n"
    import scaleeval_selftest
    st_text, counts = scaleeval_selftest.selftest(REPO, classes, ATTRS, die)
    write_if_changed(OUT, text)
    write_if_changed(OUT_TEST, st_text)
    print("%s: %d items translated; self-test cases: %s"
          % (ME, len(sigs), ", ".join("%s %d" % kv for kv in counts.items())))


if __name__ == "__main__":
    main()
