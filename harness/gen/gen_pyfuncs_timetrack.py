#!/venv/bin/python
"""Fail-closed translator: nptdms/tdms.py TdmsChannel.time_track (C12) -> coq/theories/Gen/PyFuncsTimeTrack.v
(+ the self-test coq/theories/Gen/PyFuncsTimeTrackTest.v)

Translated with Python `ast` (py2gallina.py + scale_sem.py + timetrack_sem.py; nptdms is imported for the self-test
only): the whole of TdmsChannel.time_track, once with absolute_time = False (time_track_rel_gen) and once with
absolute_time = True (time_track_abs_gen; accuracy in {'s', 'ms', 'us', 'ns'}), and TdmsChannel.__len__:

  which properties are read ('wf_increment', 'wf_start_offset', 'wf_start_time'), in which order, the KeyError
  handlers; len(self) as the number of points; the np.linspace arguments offset, offset + (len(self) - 1) *
  increment, len(self) with their float operations in source order; the isinstance(start_time, TdmsTimestamp) ->
  as_datetime64(accuracy) conversion (the TRANSLATED TdmsTimestamp.as_datetime64 of Gen.PyFuncsTime); the
  unit_correction table per accuracy; relative_time * unit_correction; .astype('timedelta64[<accuracy>]'); the
  addition to the start time.

np.linspace itself, the C cast double -> int64 and datetime64 + timedelta64 are prelude primitives
(timetrack_sem.py; Model/TimeTrackF.v linspace_list / trunc_f).

Anything unrecognised: message on stderr, exit 1, nothing written.
"""
import ast
import os
import sys

HERE = os.path.dirname(os.path.abspath(__file__))
sys.path.insert(0, HERE)
import py2gallina as T                                             # noqa: E402
from py2gallina import Z                                            # noqa: E402
import timetrack_sem as TS                                         # noqa: E402

VERIF = os.path.dirname(os.path.dirname(HERE))
REPO = os.environ.get("NPTDMS_REPO", "/repo")
OUT = os.path.join(VERIF, "coq", "theories", "Gen", "PyFuncsTimeTrack.v")
OUT_TEST = os.path.join(VERIF, "coq", "theories", "Gen", "PyFuncsTimeTrackTest.v")
ME = "gen_pyfuncs_timetrack"


def die(msg):
    sys.stderr.write("%s: UNSUPPORTED / unrecognised source, nothing written: %s\n" % (ME, msg))
    sys.exit(1)


def unp(n):
    return ast.unparse(n)


def comment_of(f, extra=""):
    txt = "\n".join(unp(s) for s in f.body if not T.is_skip(s)).replace("(*", "( *").replace("*)", "* )")
    return "nptdms/tdms.py: TdmsChannel.%s (line %d)%s\n%s\n" % (f.name, f.lineno, extra,
                                                                "\n".join("     " + l for l in txt.split("\n")))


def translate():
    TS.install()
    try:
        tree = ast.parse(open(os.path.join(REPO, "nptdms", "tdms.py")).read())
    except (OSError, SyntaxError) as e:
        die("cannot read/parse tdms.py: %s" % e)
    cs = [n for n in tree.body if isinstance(n, ast.ClassDef) and n.name == "TdmsChannel"]
    if len(cs) != 1:
        die("expected exactly one class TdmsChannel")
    chan = cs[0]

    def method(name):
        fs = [n for n in chan.body if isinstance(n, ast.FunctionDef) and n.name == name]
        if len(fs) != 1 or fs[0].decorator_list or fs[0].args.vararg or fs[0].args.kwarg or fs[0].args.kwonlyargs:
            die("expected exactly one plain def TdmsChannel.%s" % name)
        return fs[0]
    init = method("__init__")
    got = {unp(s.targets[0]): unp(s.value) for s in init.body if isinstance(s, ast.Assign) and len(s.targets) == 1}
    if got.get("self.properties") != "properties" or got.get("self._length") != "number_values":
        die("TdmsChannel.__init__ no longer stores properties / number_values")
    imports = [unp(n) for n in tree.body if isinstance(n, ast.ImportFrom) and any(a.name == "TdmsTimestamp" for a in n.names)]
    if imports != ["from nptdms.timestamp import TdmsTimestamp"] and not any("TdmsTimestamp" in i and "nptdms.timestamp" in i for i in imports):
        die("TdmsTimestamp is no longer imported from nptdms.timestamp")

    cx = T.Cx({}, {}, {}, {})
    cx.kwcalls = True
    cx.str_consts = True
    cx.try_catch = True
    sem = TS.TimeTrackSem()
    cx.np = sem
    sigs = []

    f = method("__len__")
    if [a.arg for a in f.args.args] != ["self"]:
        die("signature of __len__")
    rty = T.function(cx, "tt_len_gen", f.body, [("self__length", Z)], {"self._length": ("self__length", Z)}, [],
                     comment_of(f))
    if rty != Z:
        die("__len__ returns %r" % (rty,))
    sem.len_fn = ("tt_len_gen", "self._length")
    sigs.append("__len__")

    f = method("time_track")
    if [a.arg for a in f.args.args] != ["self", "absolute_time", "accuracy"] or [unp(d) for d in f.args.defaults] != ["False", "'ns'"]:
        die("signature of time_track")
    params = [("self_properties", TS.TPROPS), ("self__length", Z)]
    env0 = {"self.properties": ("self_properties", TS.TPROPS), "self._length": ("self__length", Z)}
    sem.absolute_time = False
    rty = T.function(cx, "time_track_rel_gen", f.body, params, dict(env0), [], comment_of(f, "   with absolute_time = False"))
    if rty != TS.FARR:
        die("time_track(absolute_time=False) returns %r" % (rty,))
    sem.absolute_time = True
    params2 = params + [("accuracy", TS.RES)]
    env2 = dict(env0)
    env2["accuracy"] = ("accuracy", TS.RES)
    rty = T.function(cx, "time_track_abs_gen", f.body, params2, env2, [], comment_of(f, "   with absolute_time = True"))
    if rty[0] != "dtarr" or rty[1] != "accuracy":
        die("time_track(absolute_time=True) returns %r" % (rty,))
    sigs.append("time_track")
    return cx, sigs


def header():
    return ("(* GENERATED by harness/gen/gen_pyfuncs_timetrack.py from nptdms/tdms.py -- do not edit.\n"
            "   Shallow monadic translation of TdmsChannel.time_track (C12); see the script and harness/gen/timetrack_sem.py\n"
            "   for the conventions. *)\n"
            "From Coq Require Import String.\n"
            "From Coq Require Import ZArith List Bool PrimFloat.\n"
            "Import ListNotations.\n"
            "From NpTdms Require Import Base.Bytes Base.Res Model.Timestamp Model.TimeTrackF Gen.PyFuncsTime.\n"
            "Local Open Scope Z_scope.\n\n")


def write_if_changed(path, text):
    old = None
    try:
        old = open(path).read()
    except OSError:
        pass
    if old != text:
        os.makedirs(os.path.dirname(path), exist_ok=True)
        tmp = path + ".tmp.%d" % os.getpid()
        with open(tmp, "w") as fh:
            fh.write(text)
        os.replace(tmp, path)
        print("%s: wrote %s" % (ME, os.path.relpath(path, VERIF)))
    else:
        print("%s: %s up to date" % (ME, os.path.relpath(path, VERIF)))


def main():
    try:
        cx, sigs = translate()
    except T.Unsupported as e:
        die(str(e))
    text = header() + TS.PRELUDE + "\n" + "\n\n".join(cx.defs) + "\n"
    import timetrack_selftest
    st_text, counts = timetrack_selftest.selftest(REPO, die)
    write_if_changed(OUT, text)
    write_if_changed(OUT_TEST, st_text)
    print("%s: %d items translated; self-test cases: %s"
          % (ME, len(sigs), ", ".join("%s %d" % kv for kv in counts.items())))


if __name__ == "__main__":
    main()
