#!/venv/bin/python
"""Fail-closed translator: the LOOKUP of scaling definitions in npTDMS -> coq/theories/Gen/PyFuncsScaling.v

Translated with Python `ast` (harness/gen/py2gallina.py; nptdms is imported only for the self-test):

  nptdms/scaling.py  _get_number_of_scalings (the NI_Number_Of_Scales property, else the PREFIX regex over the
                     property names, max + 1, None when nothing matches),
                     the head of _get_channel_scaling (no / zero scalings -> None; NI_Scaling_Status == 'scaled'
                     -> None; else the number of scalings to build),
                     get_scaling (channel, then group, then file properties, lazily: the first level that
                     has a scaling wins, later levels are not looked at)

Conventions.
 * A properties dict is a Model/ScaleGraph.v `props` (association list with Coq string keys, values PStr /
   PFloat / PInt); `k in d`, `d[k]` (KeyError), `d.get(k, default)`, `d.keys()`.
 * `_scale_regex.match(key)` is the prelude predicate Model/ScaleGraph.v scale_regex_match (the driver checks
   the regex text): None, or the match represented by int(m.group(1)).
 * `int(v)` of a property value: the integer for an integer value; a string or float value is outside the
   scope of the model (Err EOther here, EUnmodelled there).
 * `max(genexp)` raises ValueError on an empty sequence; `try: .. except ValueError: ..` handles a ValueError
   raised anywhere in the body (py_catch).
 * get_scaling: `scalings = (F(p) for p in [..])` is a LAZY generator; with
   `try: return next(s for s in scalings if s is not None) except StopIteration: return None` it is
   py_first_some F [..]: F is applied left to right until a result is not None, an exception of F
   propagates, exhaustion gives None.  F (_get_channel_scaling) is a parameter here.
 * The construction of the individual scaling objects (the loop of _get_channel_scaling, the
   from_properties class methods) is NOT translated (Model/ScaleGraph.v scaling_at, tied by ./check C13).

Self-test: `Example`s with the results of the REAL functions on real property dictionaries.

Anything unrecognised: message on stderr, exit 1, nothing written.
"""
import ast
import os
import sys

HERE = os.path.dirname(os.path.abspath(__file__))
sys.path.insert(0, HERE)
import py2gallina as T                                             # noqa: E402
from py2gallina import Z, B, OPT, LIST                              # noqa: E402
import np_sem as N                                                 # noqa: E402

VERIF = os.path.dirname(os.path.dirname(HERE))
REPO = os.environ.get("NPTDMS_REPO", "/repo")
OUT = os.path.join(VERIF, "coq", "theories", "Gen", "PyFuncsScaling.v")
ME = "gen_pyfuncs_scaling"

CSTR, PDICT, PVAL, REMATCH = ("cstr",), ("pdict",), ("pval",), ("rematch",)
TS = ("tyvar", "S")
REGEX = r"NI_Scale\[(\d+)\]_Scale_Type"


def die(msg):
    sys.stderr.write("%s: UNSUPPORTED / unrecognised source, nothing written: %s\n" % (ME, msg))
    sys.exit(1)


def unp(n):
    return ast.unparse(n)


def find(tree, name):
    fs = [n for n in tree.body if isinstance(n, ast.FunctionDef) and n.name == name]
    if len(fs) != 1:
        die("expected exactly one def %s" % name)
    f = fs[0]
    if f.decorator_list or f.args.vararg or f.args.kwarg or f.args.kwonlyargs or f.args.defaults:
        die("signature of %s" % name)
    return f


def comment_of(f, stmts, note=""):
    txt = "\n".join(unp(s) for s in stmts if not T.is_skip(s)).replace("(*", "( *").replace("*)", "* )")
    return "nptdms/scaling.py: %s (line %d)%s\n%s\n" % (f.name, f.lineno, note, "\n".join("     " + l for l in txt.split("\n")))


def genexp_vars_single_use(f, die, where):
    """every variable bound to a generator expression must be consumed exactly once (it is read as a list)"""
    names = [s.targets[0].id for s in ast.walk(f) if isinstance(s, ast.Assign) and len(s.targets) == 1
             and isinstance(s.targets[0], ast.Name) and isinstance(s.value, ast.GeneratorExp)]
    for n in names:
        loads = sum(1 for x in ast.walk(f) if isinstance(x, ast.Name) and x.id == n and isinstance(x.ctx, ast.Load))
        stores = sum(1 for x in ast.walk(f) if isinstance(x, ast.Name) and x.id == n and isinstance(x.ctx, ast.Store))
        if loads != 1 or stores != 1:
            die("%s: the generator `%s` must be assigned once and consumed exactly once" % (where, n))


PRELUDE = """\
(* ---- the Python primitives the translation relies on (fixed text) ---- *)
Definition need {A} (e : err) (o : option A) : res A :=
  match o with Some a => Ok a | None => Err e end.
Definition is_none {A} (o : option A) : bool :=
  match o with None => true | Some _ => false end.
Definition err_eqb (a b : err) : bool :=
  match a, b with
  | EEof, EEof | EValue, EValue | EKey, EKey | EStruct, EStruct | ENotImpl, ENotImpl | EIndex, EIndex
  | ERuntime, ERuntime | EType, EType | EOther, EOther | EFuel, EFuel => true
  | _, _ => false
  end.
(* try: r  except E: h *)
Definition py_catch {A} (e : err) (r h : res A) : res A :=
  match r with
  | Err e' => if err_eqb e' e then h else r
  | Ok _ => r
  end.
(* max(xs): ValueError for an empty sequence *)
Definition py_max_z (l : list Z) : res Z :=
  match l with
  | [] => Err EValue
  | z :: zs => Ok (fold_left Z.max zs z)
  end.
(* int(v) of a property value (strings and floats: outside the model) *)
Definition py_int_of_pval (v : ScaleGraph.pval) : res Z :=
  match v with ScaleGraph.PInt z => Ok z | _ => Err EOther end.
(* v == "text" for a property value *)
Definition pval_eq_str (v : ScaleGraph.pval) (s : string) : bool :=
  match v with ScaleGraph.PStr t => String.eqb t s | _ => false end.
(* next(s for s in (F(p) for p in levels) if s is not None), StopIteration -> None; F applied lazily *)
Fixpoint py_first_some {A S} (F : A -> res (option S)) (levels : list A) : res (option S) :=
  match levels with
  | [] => Ok None
  | p :: r => do s <- F p; match s with Some x => Ok (Some x) | None => py_first_some F r end
  end.
"""


def translate():
    path = os.path.join(REPO, "nptdms", "scaling.py")
    try:
        tree = ast.parse(open(path).read())
    except (OSError, SyntaxError) as e:
        die("cannot read/parse %s: %s" % (path, e))
    rx = [n for n in tree.body if isinstance(n, ast.Assign) and unp(n.targets[0]) == "_scale_regex"]
    if len(rx) != 1 or not (isinstance(rx[0].value, ast.Call) and unp(rx[0].value.func) == "re.compile" and len(rx[0].value.args) == 1
                            and not rx[0].value.keywords and isinstance(rx[0].value.args[0], ast.Constant)
                            and rx[0].value.args[0].value == REGEX):
        die("_scale_regex is no longer re.compile(r\"%s\")" % REGEX)
    cx = T.Cx({}, {}, {}, {})
    cx.kwcalls = False
    cx.genexp_as_list = True
    cx.str_consts = True
    cx.try_catch = True
    sem = N.NpSem()
    cx.np = sem
    sigs = {}

    def fun(gen, stmts, params, env0, outputs, comment, **kw):
        rty = T.function(cx, gen, stmts, params, env0, outputs, comment, **kw)
        sigs[gen] = (params, rty)
        return rty

    def pdict_of(e, env):
        k = T.key_of(e)
        return env[k] if k in env and env[k][1] == PDICT else None

    def calls(e, env, h, cx_):
        f = e.func
        if e.keywords:
            return None
        if isinstance(f, ast.Name) and f.id == "int" and len(e.args) == 1:
            a = e.args[0]
            # int(m.group(1)) of a regex match: the match is represented by that integer
            if isinstance(a, ast.Call) and isinstance(a.func, ast.Attribute) and a.func.attr == "group" and len(a.args) == 1 \
                    and isinstance(a.args[0], ast.Constant) and a.args[0].value == 1:
                m, mty = T.ex(a.func.value, env, h, cx_)
                if mty != REMATCH:
                    T.fail(e, "group(1) of %r" % (mty,))
                return m, Z
            t, ty = T.ex(a, env, h, cx_)
            if ty == PVAL:
                return sem.hoist(e, h, cx_, "py_int_of_pval %s" % t), Z
            if ty == Z:
                return t, Z
            T.fail(e, "int of %r" % (ty,))
        if unp(f) == "_scale_regex.match" and len(e.args) == 1:
            t, ty = T.ex(e.args[0], env, h, cx_)
            if ty != CSTR:
                T.fail(e, "regex match of %r" % (ty,))
            return "(ScaleGraph.scale_regex_match %s)" % t, OPT(REMATCH)
        if isinstance(f, ast.Attribute) and f.attr == "keys" and not e.args and pdict_of(f.value, env):
            return "(List.map fst %s)" % pdict_of(f.value, env)[0], LIST(CSTR)
        if isinstance(f, ast.Attribute) and f.attr == "get" and len(e.args) == 2 and pdict_of(f.value, env):
            k, kty = T.ex(e.args[0], env, h, cx_)
            d, dty = T.ex(e.args[1], env, h, cx_)
            if kty != CSTR or dty != CSTR:
                T.fail(e, "properties.get(%r, %r)" % (kty, dty))
            return "(match ScaleGraph.pget %s %s with Some v__ => v__ | None => ScaleGraph.PStr %s end)" \
                % (k, pdict_of(f.value, env)[0], d), PVAL
        if isinstance(f, ast.Name) and f.id == "max" and len(e.args) == 1 and isinstance(e.args[0], ast.GeneratorExp):
            g = e.args[0]
            it, pat, inner = T.genexp(g, env, h, cx_)
            b = T.as_int(g.elt, inner, None, cx_)
            return sem.hoist(e, h, cx_, "py_max_z (List.map %s %s)" % (T.lam(pat, b), it)), Z
        return None

    def compare(e, env, h, cx_):
        if len(e.ops) != 1:
            return None
        if isinstance(e.ops[0], (ast.In, ast.NotIn)) and pdict_of(e.comparators[0], env):
            k, kty = T.ex(e.left, env, h, cx_)
            if kty != CSTR:
                T.fail(e, "membership of %r in properties" % (kty,))
            c = "(negb (is_none (ScaleGraph.pget %s %s)))" % (k, pdict_of(e.comparators[0], env)[0])
            return ("(negb %s)" % c if isinstance(e.ops[0], ast.NotIn) else c), B
        if isinstance(e.ops[0], (ast.Eq, ast.NotEq)):
            a, aty = T.ex(e.left, env, h, cx_)
            b, bty = T.ex(e.comparators[0], env, h, cx_)
            if aty == PVAL and bty == CSTR:
                c = "(pval_eq_str %s %s)" % (a, b)
                return ("(negb %s)" % c if isinstance(e.ops[0], ast.NotEq) else c), B
        return None

    def subscripts(e, env, h, cx_):
        if pdict_of(e.value, env):
            k, kty = T.ex(e.slice, env, h, cx_)
            if kty != CSTR:
                T.fail(e, "properties[%r]" % (kty,))
            return sem.hoist(e, h, cx_, "need EKey (ScaleGraph.pget %s %s)" % (k, pdict_of(e.value, env)[0])), PVAL
        return None
    old_sub = sem.subscript

    def subscript(e, env, h, cx_):
        r = subscripts(e, env, h, cx_)
        return r if r is not None else old_sub(e, env, h, cx_)
    sem.subscript = subscript
    sem.extra_calls.append(calls)
    sem.extra_compare.append(compare)
    old_coqty = T.coqty

    def coqty2(t):
        if t == PDICT:
            return "ScaleGraph.props"
        if t == PVAL:
            return "ScaleGraph.pval"
        if t == REMATCH:
            return "Z"
        return old_coqty(t)
    T.coqty = coqty2
    try:
        # ---- _get_number_of_scalings(properties)
        f = find(tree, "_get_number_of_scalings")
        if [a.arg for a in f.args.args] != ["properties"]:
            die("signature of _get_number_of_scalings")
        genexp_vars_single_use(f, die, "_get_number_of_scalings")
        params = [("properties", PDICT)]
        rty = fun("get_number_of_scalings_gen", f.body, params, {"properties": ("properties", PDICT)}, [], comment_of(f, f.body))
        cx.callees["_get_number_of_scalings"] = ("get_number_of_scalings_gen", [PDICT], rty, [])

        # ---- _get_channel_scaling(properties): the statements before `scalings = [None] * num_scalings`
        f = find(tree, "_get_channel_scaling")
        if [a.arg for a in f.args.args] != ["properties"]:
            die("signature of _get_channel_scaling")
        body = [s for s in f.body if not T.is_skip(s)]
        k = [i for i, s in enumerate(body) if unp(s) == "scalings = [None] * num_scalings"]
        if len(k) != 1 or not isinstance(body[k[0] + 1], ast.For) or unp(body[k[0] + 1].iter) != "range(num_scalings)":
            die("_get_channel_scaling: `scalings = [None] * num_scalings` followed by the loop over range(num_scalings) not found")
        for s in body[k[0]:]:
            for n in ast.walk(s):
                if isinstance(n, ast.Name) and n.id == "scaling_status":
                    die("_get_channel_scaling: scaling_status is used after the head")
        head = body[:k[0]] + [ast.Return(value=ast.Name(id="num_scalings", ctx=ast.Load()))]
        ast.fix_missing_locations(ast.Module(body=head, type_ignores=[]))
        fun("channel_scaling_head_gen", head, params, {"properties": ("properties", PDICT)}, [],
            comment_of(f, head, ": the statements before the scalings are built; None = `return None`, else num_scalings"))

        # ---- get_scaling(channel_properties, group_properties, file_properties)
        f = find(tree, "get_scaling")
        if [a.arg for a in f.args.args] != ["channel_properties", "group_properties", "file_properties"]:
            die("signature of get_scaling")
        body = [s for s in f.body if not T.is_skip(s)]
        ok = (len(body) == 2 and isinstance(body[0], ast.Assign) and unp(body[0].targets[0]) == "scalings"
              and isinstance(body[0].value, ast.GeneratorExp) and len(body[0].value.generators) == 1
              and unp(body[0].value.elt) == "_get_channel_scaling(p)" and unp(body[0].value.generators[0].target) == "p"
              and not body[0].value.generators[0].ifs and isinstance(body[0].value.generators[0].iter, ast.List)
              and unp(body[1]) == "try:\n    return next((s for s in scalings if s is not None))\nexcept StopIteration:\n    return None")
        if not ok:
            die("get_scaling: shape (lazy generator of _get_channel_scaling over a list of levels; "
                "try: return next(s for s in scalings if s is not None) except StopIteration: return None)")
        levels = body[0].value.generators[0].iter
        cx.defs.append("Section ScalingGen.\n(* S: a scaling object; _get_channel_scaling is a parameter *)\nVariable S : Type.\n"
                       "Variable get_channel_scaling_py : ScaleGraph.props -> res (option S).")
        params3 = [(a.arg, PDICT) for a in f.args.args]
        ret = ast.Return(value=ast.Name(id="<first>", ctx=ast.Load()))
        stmts = [ast.Assign(targets=[ast.Name(id="levels_of_lookup", ctx=ast.Store())], value=levels, lineno=f.lineno), ret]
        ast.fix_missing_locations(ast.Module(body=stmts, type_ignores=[]))

        def statements(s, rest, env, K, sc, cx_):
            if s is ret:
                return "py_first_some get_channel_scaling_py %s" % env["levels_of_lookup"][0]
            return None
        sem.extra_statements.append(statements)
        old_list = sem.list_literal

        def list_literal(e, env, h, cx_):
            parts = [T.ex(x, env, h, cx_) for x in e.elts]
            if parts and all(ty == PDICT for _, ty in parts):
                return "[" + "; ".join(t for t, _ in parts) + "]", LIST(PDICT)
            return old_list(e, env, h, cx_)
        sem.list_literal = list_literal
        cx.fname = "get_scaling_gen"
        body_t = T.block(stmts, {n: (n, t) for n, t in params3}, lambda env: T.fail(f, "end of get_scaling"),
                         T.Scope(lambda envl, v, inj=None: T.fail(f, "return")), cx)
        cx.defs.append("(* %s *)\nDefinition get_scaling_gen%s : res (option S) :=\n%s."
                       % (comment_of(f, body), "".join(" (%s : ScaleGraph.props)" % n for n, _ in params3), T.ind(body_t)))
        sigs["get_scaling_gen"] = (params3, OPT(TS))
        cx.defs.append("End ScalingGen.")
    finally:
        T.coqty = old_coqty
    return cx, sigs


def header():
    return ("(* GENERATED by harness/gen/gen_pyfuncs_scaling.py from nptdms/scaling.py -- do not edit.\n"
            "   Shallow monadic translation of the lookup of scaling definitions; see the script for the conventions. *)\n"
            "From Coq Require Import String.\n"
            "From Coq Require Import ZArith List Bool.\n"
            "Import ListNotations.\n"
            "From NpTdms Require Import Base.Res.\n"
            "From NpTdms Require Model.ScaleGraph.\n"
            "Local Open Scope Z_scope.\n\n")


def write_if_changed(path, text):
    old = None
    try:
        old = open(path).read()
    except OSError:
        pass
    if old != text:
        os.makedirs(os.path.dirname(path), exist_ok=True)
        tmp = path + ".tmp.%d" % os.getpid()
        with open(tmp, "w") as fh:
            fh.write(text)
        os.replace(tmp, path)
        print("%s: wrote %s" % (ME, os.path.relpath(path, VERIF)))
    else:
        print("%s: %s up to date" % (ME, os.path.relpath(path, VERIF)))


# ---------------------------------------------------------------------------
# self-test

def cstr(s):
    return '"%s"%%string' % s.replace('"', '""')


def cprops(d):
    def val(v):
        if isinstance(v, bool):
            raise ValueError("bool property in the grid")
        if isinstance(v, int):
            return "ScaleGraph.PInt %s" % ("%d" % v if v >= 0 else "(%d)" % v)
        if isinstance(v, str):
            return "ScaleGraph.PStr %s" % cstr(v)
        raise ValueError("property value %r" % (v,))
    return "[" + "; ".join("(%s, %s)" % (cstr(k), val(v)) for k, v in d.items()) + "]"


ST_PRELUDE = """\
(* ---- self test: results of the real functions ---- *)
Definition st_optz (a b : option Z) : bool :=
  match a, b with Some x, Some y => x =? y | None, None => true | _, _ => false end.
Definition st_res_optz (a b : res (option Z)) : bool :=
  match a, b with Ok x, Ok y => st_optz x y | Err x, Err y => err_eqb x y | _, _ => false end.
"""


def selftest():
    sys.path.insert(0, REPO)
    import nptdms
    here = os.path.realpath(os.path.dirname(nptdms.__file__))
    if here != os.path.realpath(os.path.join(REPO, "nptdms")):
        die("nptdms imported from %s, expected %s/nptdms" % (here, REPO))
    import logging
    logging.disable(logging.CRITICAL)
    from nptdms import scaling as SC
    from collections import OrderedDict
    out, counts = [ST_PRELUDE], {}

    def optz(v):
        return "None" if v is None else "(Some %s)" % ("%d" % v if v >= 0 else "(%d)" % v)

    def observe(fn, enc):
        try:
            return "Ok %s" % enc(fn())
        except KeyError:
            return "Err EKey"
        except ValueError:
            return "Err EValue"
        except TypeError:
            return "Err EType"

    def T_(i):
        return "NI_Scale[%s]_Scale_Type" % i
    dicts = [
        {}, {"NI_Number_Of_Scales": 2}, {"NI_Number_Of_Scales": 0}, {"NI_Number_Of_Scales": -1},
        {"NI_Number_Of_Scales": 3, T_(7): "Linear"}, {T_(0): "Linear"}, {T_(0): "Linear", T_(1): "Polynomial"},
        {T_(1): "Linear", T_(0): "Polynomial"}, {T_(5): "Linear"}, {T_(12): "Linear", T_(3): "Table"},
        {T_(0) + "_extra": "x"}, {"xNI_Scale[0]_Scale_Type": "x"}, {"NI_Scale[]_Scale_Type": "x"}, {"NI_Scale[1]_Scale_Typ": "x"},
        {"NI_Scale[1a]_Scale_Type": "x"}, {"NI_Scale[007]_Scale_Type": "x"}, {"NI_Scale[-1]_Scale_Type": "x"},
        {"NI_Scale[2]_Linear_Slope": 1, "unit": "V"}, {"NI_Scale[ 2]_Scale_Type": "x"}, {"ni_scale[2]_scale_type": "x"},
        {T_(0): "Linear", "NI_Scaling_Status": "scaled"}, {T_(0): "Linear", "NI_Scaling_Status": "unscaled"},
        {T_(0): "Linear", "NI_Scaling_Status": "Scaled"}, {"NI_Number_Of_Scales": 1, "NI_Scaling_Status": "scaled"},
        {"NI_Number_Of_Scales": 0, "NI_Scaling_Status": "unscaled"}, {"NI_Scaling_Status": "scaled"},
        {T_(0): "Linear", "NI_Scaling_Status": 1}, {T_(99999999999999999999): "Linear"}, {T_(3): "Linear", T_(30): "x", T_(29): "y"},
        {"NI_Scale[1]_Scale_TypeNI_Scale[9]_Scale_Type": "x"},
    ]
    cases = [("(%s, %s)" % (cprops(d), observe(lambda: SC._get_number_of_scalings(OrderedDict(d)), optz))) for d in dicts]
    counts["get_number_of_scalings"] = len(cases)
    out.append("Definition st_number_cases : list (ScaleGraph.props * res (option Z)) :=\n  [%s].\n"
               "Example st_get_number_of_scalings : forallb (fun c => st_res_optz (get_number_of_scalings_gen (fst c)) (snd c)) "
               "st_number_cases = true.\nProof. vm_compute. reflexivity. Qed.\n" % ";\n   ".join(cases))

    # the head of _get_channel_scaling: run the real function with the class constructors replaced by markers,
    # observing None / not None and, through a recording range(), num_scalings
    src = open(os.path.join(REPO, "nptdms", "scaling.py")).read()
    tree = ast.parse(src)
    f = [n for n in tree.body if isinstance(n, ast.FunctionDef) and n.name == "_get_channel_scaling"][0]
    body = [s for s in f.body if not T.is_skip(s)]
    k = [i for i, s in enumerate(body) if unp(s) == "scalings = [None] * num_scalings"][0]
    fn = ast.FunctionDef(name="head", args=f.args, body=body[:k] + [ast.Return(value=ast.Name(id="num_scalings", ctx=ast.Load()))],
                         decorator_list=[])
    mod = ast.Module(body=[fn], type_ignores=[])
    ast.fix_missing_locations(mod)
    ns = dict(SC.__dict__)
    exec(compile(mod, "<head of _get_channel_scaling>", "exec"), ns)
    cases = [("(%s, %s)" % (cprops(d), observe(lambda: ns["head"](OrderedDict(d)), optz))) for d in dicts]
    counts["channel_scaling_head"] = len(cases)
    out.append("Definition st_head_cases : list (ScaleGraph.props * res (option Z)) :=\n  [%s].\n"
               "Example st_channel_scaling_head : forallb (fun c => st_res_optz (channel_scaling_head_gen (fst c)) (snd c)) "
               "st_head_cases = true.\nProof. vm_compute. reflexivity. Qed.\n" % ";\n   ".join(cases))

    # get_scaling: the real function with _get_channel_scaling replaced by a table (the value of the
    # property "k": absent -> None, "boom" -> KeyError, else the level's marker); which levels were consulted
    real = SC._get_channel_scaling
    cases = []
    try:
        seen = []

        def fake(p):
            seen.append(p.get("lvl"))
            v = p.get("k")
            if v == "boom":
                raise KeyError("boom")
            return v
        SC._get_channel_scaling = fake
        vals = [None, 7, "boom"]
        for a in vals:
            for b_ in vals:
                for c in vals:
                    ds = [dict(lvl=i, **({} if v is None else {"k": v})) for i, v in enumerate((a, b_, c))]
                    seen.clear()
                    r = observe(lambda: SC.get_scaling(*ds), lambda v: "None" if v is None else "(Some (%d, %d))" % (v, seen[-1]))
                    cases.append("(%s, %s, %s, %s)" % tuple([cprops(d) for d in ds] + [r]))
    finally:
        SC._get_channel_scaling = real
    counts["get_scaling"] = len(cases)
    out.append("(* the stand-in for _get_channel_scaling: property k absent -> None, \"boom\" -> KeyError, else (k, level) *)\n"
               "Definition st_level (p : ScaleGraph.props) : res (option (Z * Z)) :=\n"
               "  match ScaleGraph.pget \"k\" p, ScaleGraph.pget \"lvl\" p with\n"
               "  | None, _ => Ok None\n  | Some (ScaleGraph.PStr _), _ => Err EKey\n"
               "  | Some (ScaleGraph.PInt v), Some (ScaleGraph.PInt l) => Ok (Some (v, l))\n  | _, _ => Err EOther\n  end.\n"
               "Definition st_scaling_cases : list (ScaleGraph.props * ScaleGraph.props * ScaleGraph.props * res (option (Z * Z))) :=\n  [%s].\n"
               "Example st_get_scaling : forallb (fun c => let '(a, b, c', r) := c in\n"
               "    match get_scaling_gen (Z * Z) st_level a b c', r with\n"
               "    | Ok (Some (x1, y1)), Ok (Some (x2, y2)) => (x1 =? x2) && (y1 =? y2)\n    | Ok None, Ok None => true\n"
               "    | Err e1, Err e2 => err_eqb e1 e2\n    | _, _ => false end) st_scaling_cases = true.\nProof. vm_compute. reflexivity. Qed.\n"
               % ";\n   ".join(cases))
    return "\n".join(out), counts


def main():
    try:
        cx, sigs = translate()
    except T.Unsupported as e:
        die(str(e))
    st_text, counts = selftest()
    text = header() + PRELUDE + "\n" + "\n\n".join(cx.defs) + "\n\n" + st_text
    write_if_changed(OUT, text)
    print("%s: %d functions translated; self-test cases: %s"
          % (ME, len(sigs), ", ".join("%s %d" % kv for kv in counts.items())))


if __name__ == "__main__":
    main()
