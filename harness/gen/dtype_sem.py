"""dtype-level semantics for py2gallina: the extension used by gen_pyfuncs_dtype.py (C14: TdmsChannel.dtype,
_raw_data_dtype, the read methods seen at the level of "which dtype does the returned array carry", and
MultiScaling.get_dtype / _compute_scale_dtype).

Nothing in py2gallina.py / np_sem.py / scale_sem.py is edited: `install()` (called by the driver, in its own
process) wraps py2gallina.coqty / join_ty / truthy after scale_sem.install(); DtypeSem subclasses
scale_sem.ScaleSem.

Types (next to those of py2gallina / scale_sem):
  XDT      a NumPy dtype object, or Python None used as one   : ScaleDtype.xdt   (XNone = None)
  TDSTYPE  a class of nptdms.types (a TDMS data type)         : Z  (its enum_value; the table of classes is
                                                                 REFLECTED from nptdms.types by the driver)
  RAWTY    get_dtype's raw_data_type: "a numpy dtype or a
           TDMS type"                                         : (ScaleDtype.xdt + Z)
  ABSRAW   a raw_channel_data object seen abstractly          : absraw {ar_has_data; ar_scalers}
  ARRD     raw_data.data          (None or an array)          : bool         (true = an array)
  SCD      raw_data.scaler_data   (None or a dict)            : option bool  (Some b: a dict, b = non-empty)
  PYRES    what a read method returns, seen abstractly        : pyres  (PyEmpty d = np.empty((0,), dtype=d);
                                                                 PyScaled = what MultiScaling.scale returned;
                                                                 PyRawData = raw_data.data; PyScalerDict =
                                                                 raw_data.scaler_data; PyNoneVal = None)

Conventions.
 * `X is T` for T = types.<Class>: comparison of the enum values (classes of nptdms.types are singletons and their
   enum values are distinct: checked by the driver on the reflected table).
 * `t.nptype`: the reflected table tds_nptype (XNone when the class has no nptype).
 * np.dtype(<literal>) for exactly the literals 'O', '<M8[us]', 'V8', 'float64', 'complex128' and the
   TimestampArray structure [('second_fractions', '<u8'), ('seconds', '<i8')]; any other literal fails closed.
 * np.result_type(a, b): the prelude primitive np_result_type (the REFLECTED table NumpyPromote.result_type on
   numeric dtypes, None read as float64, identical non-numeric dtypes; anything else Err EOther = not modelled).
 * `if isinstance(x, np.dtype): <..return>` on an x : RAWTY is a match on the sum, x narrowed in both parts.
 * np.empty((0,), dtype=D) -> PyEmpty D (exactly this shape); S.scale(raw) on a MultiScaling -> PyScaled.
"""
import ast

import py2gallina as T
from py2gallina import Z, B, NONE, OPT, LIST, REC, fail, need, Hoist   # noqa: F401
import scale_sem as S

XDT = ("xdt",)
TDSTYPE = ("tdstype",)
RAWTY = ("rawty",)
ABSRAW = REC("absraw")
ARRD = ("arrd",)
SCD = ("scd",)
PYRES = ("pyres",)
SCALING = REC("scaling_py")
MULTI = LIST(OPT(SCALING))
SCALERT = OPT(S.ZDICT(TDSTYPE))

COQTY = {XDT: "ScaleDtype.xdt", TDSTYPE: "Z", RAWTY: "(ScaleDtype.xdt + Z)", ARRD: "bool", SCD: "(option bool)",
         PYRES: "pyres"}

DTYPE_LITERALS = {
    "np.dtype('O')": "ScaleDtype.XObject",
    "np.dtype('<M8[us]')": "ScaleDtype.XDatetime64",
    "np.dtype('V8')": "ScaleDtype.XVoid8",
    "np.dtype('float64')": "(ScaleDtype.XNum Float64)",
    "np.dtype('complex128')": "(ScaleDtype.XNum Complex128)",
    "np.dtype([('second_fractions', '<u8'), ('seconds', '<i8')])": "ScaleDtype.XTimestampStruct",
}

_ORIG = {}


def install():
    S.install()
    if _ORIG:
        return
    _ORIG["coqty"], _ORIG["join_ty"], _ORIG["truthy"] = T.coqty, T.join_ty, T.truthy

    def coqty2(t):
        if t in COQTY:
            return COQTY[t]
        return _ORIG["coqty"](t)

    def join2(a, b):
        if a != b and a in (PYRES, ARRD, SCD) and b in (PYRES, ARRD, SCD):
            return PYRES
        return _ORIG["join_ty"](a, b)

    def truthy2(term, ty, node, depth=0):
        if ty == SCD:                   # a dict (or None): truthy when non-empty
            return "(scd_truthy %s)" % term
        return _ORIG["truthy"](term, ty, node, depth)

    T.coqty, T.join_ty, T.truthy = coqty2, join2, truthy2
    T.EXTRA_COERCIONS[(ARRD, PYRES)] = "(pyres_of_data %s)"
    T.EXTRA_COERCIONS[(SCD, PYRES)] = "(pyres_of_scd %s)"


def unp(n):
    return ast.unparse(n)


class DtypeSem(S.ScaleSem):
    def __init__(self, tds_classes):
        super().__init__()
        self.tds_classes = tds_classes      # class name of nptdms.types -> enum value
        self.self_calls = {}                # "P.method" (P = self / self._channel) -> (coq fn, [env key suffixes], type)
        self.self_props = {}                # "P.attr" computed attributes (cached properties): same shape

    # ---- self.<computed attribute> / self.<method>() through the explicit tables --------------------------------
    def computed(self, node, table, dotted, env, h, cx):
        for prefix in ("self._channel.", "self."):
            if dotted.startswith(prefix) and dotted[len(prefix):] in table and "." not in dotted[len(prefix):]:
                fn, keys, ty = table[dotted[len(prefix):]]
                args = []
                for k in keys:
                    if prefix + k not in env:
                        fail(node, "receiver state %s%s not available" % (prefix, k))
                    args.append(env[prefix + k][0])
                return self.hoist(node, h, cx, "%s %s" % (fn, " ".join(args))), ty
        return None

    def is_types_class(self, node):
        return isinstance(node, ast.Attribute) and isinstance(node.value, ast.Name) and node.value.id == "types" \
            and node.attr in self.tds_classes

    def expr(self, e, env, h, cx):
        # X is None / X is not None on values whose representation is not an option
        nt = T.none_test(e)
        if nt is not None:
            x, neg = nt
            snap, mark = cx.snapshot(), (len(h.pre) if h is not None else 0)
            t, ty = T.ex(x, env, h, cx)
            c = None
            if ty == XDT:
                c = "(xdt_is_none %s)" % t
            elif ty == ARRD:
                c = "(negb %s)" % t
            elif ty == SCD:
                c = "(is_none %s)" % t
            if c is not None:
                return ("(negb %s)" % c if neg else c), B
            cx.restore(snap)
            if h is not None:
                del h.pre[mark:]
            return None
        # X is types.C / X is not types.C
        if isinstance(e, ast.Compare) and len(e.ops) == 1 and isinstance(e.ops[0], (ast.Is, ast.IsNot)) \
                and self.is_types_class(e.comparators[0]):
            t, ty = T.ex(e.left, env, h, cx)
            v = self.tds_classes[e.comparators[0].attr]
            if ty == TDSTYPE:
                c = "(%s =? %d)" % (t, v)
            elif ty == OPT(TDSTYPE):
                c = "(match %s with Some t__ => t__ =? %d | None => false end)" % (t, v)
            else:
                fail(e, "identity test of %r with a TDMS type" % (ty,))
            return ("(negb %s)" % c if isinstance(e.ops[0], ast.IsNot) else c), B
        if isinstance(e, ast.Attribute):
            dotted = unp(e)
            if dotted in env:
                return env[dotted]
            r = self.computed(e, self.self_props, dotted, env, h, cx)
            if r is not None:
                return r
            if e.attr == "nptype":
                t, ty = T.ex(e.value, env, h, cx)
                if ty == OPT(TDSTYPE):
                    t, ty = need(t, ty, "TDMS type", "EOther", h, e)          # None.nptype: AttributeError
                if ty != TDSTYPE:
                    fail(e, ".nptype of %r" % (ty,))
                return "(tds_nptype %s)" % t, XDT
            if e.attr in ("data", "scaler_data"):
                snap, mark = cx.snapshot(), (len(h.pre) if h is not None else 0)
                try:
                    t, ty = T.ex(e.value, env, h, cx)
                except T.Unsupported:
                    ty = None
                if ty == ABSRAW:
                    return ("(ar_has_data %s)" % t, ARRD) if e.attr == "data" else ("(ar_scalers %s)" % t, SCD)
                cx.restore(snap)
                if h is not None:
                    del h.pre[mark:]
        return super().expr(e, env, h, cx)

    def subscript(self, e, env, h, cx):
        k = T.key_of(e.value)
        if k in env and env[k][1] == SCALERT:
            d = self.hoist(e, h, cx, "need EType %s" % env[k][0])           # None[..]: TypeError
            i = T.as_int(e.slice, env, h, cx)
            return self.hoist(e, h, cx, "need EKey (py_zdict_get %s %s)" % (d, i)), TDSTYPE
        return super().subscript(e, env, h, cx)

    def call(self, e, env, h, cx):
        f = e.func
        kw = {k.arg: k.value for k in e.keywords}
        name = f.id if isinstance(f, ast.Name) else None
        s = unp(e)
        if isinstance(f, ast.Attribute) and unp(f) == "np.dtype":
            if s in DTYPE_LITERALS:
                return DTYPE_LITERALS[s], XDT
            fail(e, "np.dtype literal outside the table")
        if isinstance(f, ast.Attribute) and unp(f) == "np.issubdtype" and len(e.args) == 2 and not kw:
            if unp(e.args[1]) != "np.complexfloating":
                fail(e, "np.issubdtype(.., %s)" % unp(e.args[1]))
            t, ty = T.ex(e.args[0], env, h, cx)
            if ty == XDT:
                return "(xdt_is_complexfloating %s)" % t, B
            fail(e, "np.issubdtype of %r" % (ty,))
        if isinstance(f, ast.Attribute) and unp(f) == "np.result_type" and len(e.args) == 2 and not kw:
            a, aty = T.ex(e.args[0], env, h, cx)
            b, bty = T.ex(e.args[1], env, h, cx)
            if aty != XDT or bty != XDT:
                fail(e, "np.result_type(%r, %r)" % (aty, bty))
            return self.hoist(e, h, cx, "np_result_type %s %s" % (a, b)), XDT
        if isinstance(f, ast.Attribute) and unp(f) == "np.empty":
            ok = (len(e.args) == 1 and isinstance(e.args[0], ast.Tuple) and len(e.args[0].elts) == 1
                  and isinstance(e.args[0].elts[0], ast.Constant) and e.args[0].elts[0].value == 0
                  and type(e.args[0].elts[0].value) is int and list(kw) == ["dtype"])
            if not ok:
                fail(e, "np.empty call is not the empty-result idiom np.empty((0,), dtype=..)")
            d, dty = T.ex(kw["dtype"], env, h, cx)
            if dty != XDT:
                fail(e, "np.empty(.., dtype=%r)" % (dty,))
            return "(PyEmpty %s)" % d, PYRES
        if name == "isinstance" and len(e.args) == 2 and not kw and isinstance(e.args[1], ast.Name):
            t, ty = T.ex(e.args[0], env, h, cx)
            if ty == OPT(SCALING):              # isinstance(None, C) is False
                ent = cx.isinst.get(("scaling_py", e.args[1].id))
                if ent is None:
                    fail(e, "isinstance test not in the table")
                return "(match %s with Some o__ => %s | None => false end)" % (t, ent % "o__"), B
            return None
        if name == "len" and len(e.args) == 1 and not kw and unp(e.args[0]) == "self" and "len" in self.self_calls:
            fn, keys, ty = self.self_calls["len"]
            return self.hoist(e, h, cx, "%s %s" % (fn, " ".join(env["self." + k][0] for k in keys))), ty
        if isinstance(f, ast.Attribute) and not kw:
            r = self.computed(e, self.self_calls, unp(f), env, h, cx) if not e.args else None
            if r is not None:
                return r
            if f.attr == "get_dtype" and len(e.args) == 2:
                o, oty = T.ex(f.value, env, h, cx)
                if oty == MULTI:
                    a, aty = T.ex(e.args[0], env, h, cx)
                    b, bty = T.ex(e.args[1], env, h, cx)
                    if aty == XDT:
                        a = "(inl %s)" % a
                    elif aty == TDSTYPE:
                        a = "(inr %s)" % a
                    elif aty != RAWTY:
                        fail(e, "get_dtype(%r, ..)" % (aty,))
                    if bty != SCALERT:
                        fail(e, "get_dtype(.., %r)" % (bty,))
                    return self.hoist(e, h, cx, "MultiScaling_get_dtype_top %s %s %s" % (o, a, b)), XDT
            if f.attr == "scale" and len(e.args) == 1:
                o, oty = T.ex(f.value, env, h, cx)
                if oty == MULTI:
                    a, aty = T.ex(e.args[0], env, h, cx)
                    if aty != ABSRAW:
                        fail(e, "MultiScaling.scale(%r)" % (aty,))
                    return "PyScaled", PYRES
        return super().call(e, env, h, cx)

    def statement(self, s, rest, env, K, sc, cx):
        # if isinstance(x, np.dtype): <..return/raise>      x : RAWTY, narrowed on both sides
        if isinstance(s, ast.If) and not s.orelse and T.terminates(s.body) and isinstance(s.test, ast.Call) \
                and unp(s.test.func) == "isinstance" and len(s.test.args) == 2 and unp(s.test.args[1]) == "np.dtype" \
                and isinstance(s.test.args[0], ast.Name) and s.test.args[0].id in env \
                and env[s.test.args[0].id][1] == RAWTY:
            k = s.test.args[0].id
            n = T.cname(k)
            env_d, env_t = dict(env), dict(env)
            env_d[k] = (n + "_dt", XDT)
            env_t[k] = (n + "_ty", TDSTYPE)
            return "match %s with\n| inl %s_dt =>\n%s\n| inr %s_ty =>\n%s\nend" % (
                env[k][0], n, T.ind(T.block(s.body, env_d, K, sc, cx)), n, T.ind(T.block(rest, env_t, K, sc, cx)))
        return super().statement(s, rest, env, K, sc, cx)


PRELUDE = """\
(* ---- Python / NumPy primitives of the dtype-level translation (fixed text; exercised against the real NumPy
        and the real classes by the self-test) ---- *)
(* x is None, for a value that is a dtype or None *)
Definition xdt_is_none (x : ScaleDtype.xdt) : bool := match x with ScaleDtype.XNone => true | _ => false end.
(* np.issubdtype(d, np.complexfloating); None counts as float64 *)
Definition xdt_is_complexfloating (x : ScaleDtype.xdt) : bool :=
  match x with ScaleDtype.XNum d => is_complexfloating d | _ => false end.
(* np.result_type(a, b): the reflected promotion table on the 13 numeric dtypes; None is the default float64;
   two identical non-numeric dtypes; any other combination is not modelled (Err EOther) *)
Definition np_result_type (a b : ScaleDtype.xdt) : res ScaleDtype.xdt :=
  let num x := match x with ScaleDtype.XNone => ScaleDtype.XNum Float64 | _ => x end in
  match num a, num b with
  | ScaleDtype.XNum x, ScaleDtype.XNum y => Ok (ScaleDtype.XNum (result_type x y))
  | ScaleDtype.XObject, ScaleDtype.XObject => Ok ScaleDtype.XObject
  | ScaleDtype.XDatetime64, ScaleDtype.XDatetime64 => Ok ScaleDtype.XDatetime64
  | ScaleDtype.XTimestampStruct, ScaleDtype.XTimestampStruct => Ok ScaleDtype.XTimestampStruct
  | ScaleDtype.XVoid8, ScaleDtype.XVoid8 => Ok ScaleDtype.XVoid8
  | _, _ => Err EOther
  end.
(* a raw_channel_data object (RawChannelDataChunk / RawDataSlice / the receivers' result) as the read methods
   look at it: .data is an array or None; .scaler_data is None or a dict (empty or not) *)
Record absraw := { ar_has_data : bool; ar_scalers : option bool }.
(* what a read method hands back, as far as its dtype is concerned *)
Inductive pyres :=
| PyEmpty (d : ScaleDtype.xdt)      (* np.empty((0,), dtype=d) *)
| PyScaled                          (* the array MultiScaling.scale(raw_data) returned *)
| PyRawData                         (* raw_data.data, an array *)
| PyScalerDict                      (* raw_data.scaler_data, a dict *)
| PyNoneVal.                        (* None *)
Definition pyres_of_data (b : bool) : pyres := if b then PyRawData else PyNoneVal.
Definition pyres_of_scd (o : option bool) : pyres := match o with Some _ => PyScalerDict | None => PyNoneVal end.
Definition scd_truthy (o : option bool) : bool := match o with Some b => b | None => false end.
"""
