"""Semantics for the translation of TdmsChannel.time_track (gen_pyfuncs_timetrack.py): a subclass of
scale_sem.ScaleSem (Python floats as PrimFloat, float64 arrays as lists, try / except KeyError) with

  TPROPS   channel.properties                                   : list (string * tpval)
  TPVAL    a property value of unknown Python type              : tpval  (TVFloat / TVInt / TVStr / TVTimestamp s f =
                                                                  a TdmsTimestamp / TVDatetime c = datetime64[us])
  SDT      start_time after the isinstance test                 : dtval  (DtVal unit count: a datetime64[unit])
  TDTYPE   the string "timedelta64[{0}]".format(accuracy)       : carried statically (its unit)
  TDARR    (float array).astype(timedelta64[unit])              : list (option Z)  (None = NaT / undefined cast)
  DTARR    datetime64 scalar + timedelta64 array                : list (option Z)

Conventions.
 * TYPED USE of a property value: where a property value is used as a number it must be a Python float
   (tp_float; an int- or otherwise-typed wf_increment / wf_start_offset is outside the model: Err EOther).
 * int * float: the int is converted by py_int_to_float (round to nearest even; exact below 2^53).
 * np.linspace(a, b, n) is the prelude primitive np_linspace = Model/TimeTrackF.linspace_list (tied bit for bit
   to np.linspace by harness/c12.py linspace_tie and by this driver's self-test).
 * `if isinstance(v, TdmsTimestamp): v = v.as_datetime64(u)` is a match on the value: a TdmsTimestamp goes through
   the TRANSLATED TdmsTimestamp.as_datetime64 (Gen/PyFuncsTime.v scalar_as_datetime64_gen), a datetime64[us]
   stays, anything else is outside the model.
 * `try: x = {<str>: <float>, ..}[u] except KeyError: raise KeyError(..)` with u of the enum `resolution`: a match on
   u with one arm per key of the literal (Err EKey for a unit the literal does not list).
 * scalar datetime64[u] + timedelta64[u'] array: modelled for u = u' only (np_dt_add_arr; NaT stays NaT; a sum
   outside int64 is None = not defined by the model).
 * `absolute_time` is decided statically: the driver translates the function once for False and once for True.
"""
import ast

import py2gallina as T
from py2gallina import Z, B, OPT, LIST, fail, Hoist   # noqa: F401
import np_sem as N
import scale_sem as S
from scale_sem import F64, CSTR, FARR

TPROPS = ("tprops",)
TPVAL = ("tpval",)
SDT = ("sdt",)
RES = N.ENUM("resolution")

COQTY = {TPROPS: "(list (string * tpval))", TPVAL: "tpval", SDT: "dtval"}
_ORIG = {}


def install():
    S.install()
    if _ORIG:
        return
    _ORIG["coqty"] = T.coqty

    def coqty2(t):
        if t in COQTY:
            return COQTY[t]
        if t[0] in ("tdarr", "dtarr"):
            return "(list (option Z))"
        if t[0] == "tdtype":
            return "unit"
        return _ORIG["coqty"](t)
    T.coqty = coqty2


def unp(n):
    return ast.unparse(n)


class TimeTrackSem(S.ScaleSem):
    def __init__(self):
        super().__init__()
        self.enums = {"resolution": dict(N.UNITS)}
        self.absolute_time = None           # the statically decided value of the parameter
        self.len_fn = None                  # (coq function, env key) of len(self)

    def static_cond(self, test, env, cx):
        if isinstance(test, ast.Name) and test.id == "absolute_time" and self.absolute_time is not None \
                and "absolute_time" not in env:
            return self.absolute_time
        return super().static_cond(test, env, cx)

    def as_float(self, node, t, ty, h, cx):
        if ty == TPVAL:
            return self.hoist(node, h, cx, "tp_float %s" % t), F64
        if ty == Z:
            return "(py_int_to_float %s)" % t, F64
        return t, ty

    def binop(self, e, lt, lty, rt, rty, h, cx):
        op = type(e.op)
        if op in (ast.Add, ast.Sub, ast.Mult) and {lty, rty} & {TPVAL, F64} and {lty, rty} <= {TPVAL, F64, Z}:
            lt, lty = self.as_float(e.left, lt, lty, h, cx)
            rt, rty = self.as_float(e.right, rt, rty, h, cx)
        if lty == SDT and rty[0] == "tdarr" and op is ast.Add:
            return self.hoist(e, h, cx, "np_dt_add_arr %s %s %s" % (rty[1], lt, rt)), ("dtarr", rty[1])
        return super().binop(e, lt, lty, rt, rty, h, cx)

    def subscript(self, e, env, h, cx):
        k = T.key_of(e.value)
        if k in env and env[k][1] == TPROPS:
            kt, kty = T.ex(e.slice, env, h, cx)
            if kty != CSTR:
                fail(e, "properties[%r]" % (kty,))
            return self.hoist(e, h, cx, "need EKey (tp_get %s %s)" % (kt, env[k][0])), TPVAL
        return super().subscript(e, env, h, cx)

    def call(self, e, env, h, cx):
        f = e.func
        if isinstance(f, ast.Name) and f.id == "len" and len(e.args) == 1 and not e.keywords and unp(e.args[0]) == "self" \
                and self.len_fn is not None:
            return self.hoist(e, h, cx, "%s %s" % (self.len_fn[0], env[self.len_fn[1]][0])), Z
        if unp(f) == "np.linspace" and len(e.args) == 3 and not e.keywords:
            parts = []
            for a in e.args[:2]:
                t, ty = T.ex(a, env, h, cx)
                t, ty = self.as_float(a, t, ty, h, cx) if ty == TPVAL else (t, ty)
                if ty != F64:
                    fail(a, "np.linspace endpoint of type %r" % (ty,))
                parts.append(t)
            n = T.as_int(e.args[2], env, h, cx)
            return self.hoist(e, h, cx, "np_linspace %s %s %s" % (parts[0], parts[1], n)), FARR
        if isinstance(f, ast.Attribute) and f.attr == "astype" and len(e.args) == 1 and not e.keywords \
                and isinstance(e.args[0], ast.Name) and e.args[0].id in env and env[e.args[0].id][1][0] == "tdtype":
            u = env[e.args[0].id][1][1]
            t, ty = T.ex(f.value, env, h, cx)
            if ty != FARR:
                fail(e, "astype(timedelta64) of %r" % (ty,))
            return "(List.map trunc_f %s)" % t, ("tdarr", u)
        return super().call(e, env, h, cx)

    def statement(self, s, rest, env, K, sc, cx):
        # time_type = "timedelta64[{0}]".format(accuracy)
        if isinstance(s, ast.Assign) and len(s.targets) == 1 and isinstance(s.targets[0], ast.Name) \
                and isinstance(s.value, ast.Call) and isinstance(s.value.func, ast.Attribute) and s.value.func.attr == "format" \
                and isinstance(s.value.func.value, ast.Constant) and s.value.func.value.value == "timedelta64[{0}]" \
                and len(s.value.args) == 1 and not s.value.keywords:
            u = self.unit(s.value.args[0], env)
            env2 = dict(env)
            env2[s.targets[0].id] = ("tt", ("tdtype", u))
            return T.block(rest, env2, K, sc, cx)
        # if isinstance(v, TdmsTimestamp): v = v.as_datetime64(u)
        if isinstance(s, ast.If) and not s.orelse and isinstance(s.test, ast.Call) and unp(s.test.func) == "isinstance" \
                and len(s.test.args) == 2 and unp(s.test.args[1]) == "TdmsTimestamp" and isinstance(s.test.args[0], ast.Name) \
                and s.test.args[0].id in env and env[s.test.args[0].id][1] == TPVAL:
            v = s.test.args[0].id
            ok = (len(s.body) == 1 and isinstance(s.body[0], ast.Assign) and len(s.body[0].targets) == 1
                  and unp(s.body[0].targets[0]) == v and isinstance(s.body[0].value, ast.Call)
                  and unp(s.body[0].value.func) == v + ".as_datetime64" and len(s.body[0].value.args) == 1
                  and not s.body[0].value.keywords)
            if not ok:
                fail(s, "isinstance(.., TdmsTimestamp) branch is not `v = v.as_datetime64(unit)`")
            u = self.unit(s.body[0].value.args[0], env)
            n = T.cname(v)
            env2 = dict(env)
            env2[v] = (n, SDT)
            return ("do %s <- (match %s with\n  | TVTimestamp s__ f__ => do t__ <- scalar_as_datetime64_gen %s s__ f__; Ok (DtVal %s t__)\n"
                    "  | other__ => tp_as_dt other__\n  end);\n" % (n, env[v][0], u, u)) + T.block(rest, env2, K, sc, cx)
        # try: x = {'s': 1.0, ..}[u] except KeyError: raise KeyError(..)
        if isinstance(s, ast.Try) and len(s.body) == 1 and isinstance(s.body[0], ast.Assign) and len(s.body[0].targets) == 1 \
                and isinstance(s.body[0].targets[0], ast.Name) and isinstance(s.body[0].value, ast.Subscript) \
                and isinstance(s.body[0].value.value, ast.Dict):
            hd = s.handlers
            if s.orelse or s.finalbody or len(hd) != 1 or unp(hd[0].type) != "KeyError" or hd[0].name is not None \
                    or len(hd[0].body) != 1 or not isinstance(hd[0].body[0], ast.Raise) \
                    or not (isinstance(hd[0].body[0].exc, ast.Call) and unp(hd[0].body[0].exc.func) == "KeyError"):
                fail(s, "try around a dict-literal lookup: handler is not `except KeyError: raise KeyError(..)`")
            d = s.body[0].value.value
            u = self.unit(s.body[0].value.slice, env)
            if u in N.ORDER:
                fail(s, "dict literal indexed by a constant")
            table = {}
            for k, v in zip(d.keys, d.values):
                if not (isinstance(k, ast.Constant) and isinstance(k.value, str) and isinstance(v, ast.Constant)
                        and type(v.value) is float):
                    fail(s, "dict literal entry (only '<unit>': <float literal>)")
                if k.value in table:
                    fail(s, "duplicate key in dict literal")
                table[k.value] = v.value
            arms = []
            for key, con in N.UNITS.items():
                arms.append("| %s => %s" % (con, "Ok %s" % S.fhex(table[key]) if key in table else "Err EKey"))
            x = s.body[0].targets[0].id
            env2 = dict(env)
            env2[x] = (T.cname(x), F64)
            return "do %s <- (match %s with %s end);\n" % (T.cname(x), u, " ".join(arms)) + T.block(rest, env2, K, sc, cx)
        return super().statement(s, rest, env, K, sc, cx)


PRELUDE = """\
(* ---- Python / NumPy primitives of the time_track translation (fixed text; exercised against the real code by
        the self-test) ---- *)
Definition err_eqb (a b : err) : bool :=
  match a, b with
  | EEof, EEof | EValue, EValue | EKey, EKey | EStruct, EStruct | ENotImpl, ENotImpl | EIndex, EIndex
  | ERuntime, ERuntime | EType, EType | EOther, EOther | EFuel, EFuel => true
  | _, _ => false
  end.
(* a property value *)
Inductive tpval :=
| TVFloat (f : float)                 (* a Python float (DoubleFloat / SingleFloat property) *)
| TVInt (z : Z)
| TVStr (s : string)
| TVTimestamp (seconds fractions : Z) (* a TdmsTimestamp (raw_timestamps=True) *)
| TVDatetime (us : Z).                (* a numpy.datetime64[us] (raw_timestamps=False) *)
Fixpoint tp_get (k : string) (p : list (string * tpval)) : option tpval :=
  match p with [] => None | (k', v) :: r => if String.eqb k k' then Some v else tp_get k r end.
(* a property value used as a number: a Python float; any other type is outside the model *)
Definition tp_float (v : tpval) : res float := match v with TVFloat f => Ok f | _ => Err EOther end.
(* float(int) for |z| < 2^63: round to nearest, ties to even (exact below 2^53) *)
Definition py_int_to_float (z : Z) : float := if 0 <=? z then Z2f z else (- Z2f (- z))%float.
(* np.linspace(start, stop, num) for float64 scalars: Model/TimeTrackF.v (ValueError for num < 0) *)
Definition np_linspace (a b : float) (n : Z) : res (list float) :=
  if n <? 0 then Err EValue else Ok (linspace_list a b n).
(* a datetime64 scalar: unit and int64 count *)
Inductive dtval := DtVal (u : resolution) (count : Z).
(* start_time when it is not a TdmsTimestamp: a datetime64[us] stays; anything else is outside the model *)
Definition tp_as_dt (v : tpval) : res dtval := match v with TVDatetime c => Ok (DtVal Rus c) | _ => Err EOther end.
Definition res_eqb (a b : resolution) : bool :=
  match a, b with Rs, Rs | Rms, Rms | Rus, Rus | Rns, Rns => true | _, _ => false end.
(* datetime64[u] scalar + timedelta64[r] array, u = r (mixed units: not modelled): NaT stays NaT (None); a sum
   outside (-2^63, 2^63) is not defined by the model (None) *)
Definition np_dt_add_arr (r : resolution) (start : dtval) (l : list (option Z)) : res (list (option Z)) :=
  match start with
  | DtVal u c =>
      if res_eqb u r
      then Ok (List.map (fun o => match o with
                                  | Some k => let z := c + k in if (- 2 ^ 63 <? z) && (z <? 2 ^ 63) then Some z else None
                                  | None => None
                                  end) l)
      else Err EOther
  end.
"""
