"""Self-test cases for gen_pyfuncs_resource.py.

The REAL classes are run (TdmsFile.read / open / read_metadata, TdmsFile.close, TdmsChannel._read_channel_data,
TdmsWriter with-blocks and close, TdmsWriter.defragment) with
  * `open` of nptdms.reader / nptdms.writer replaced by a function that hands out instrumented in-memory file
    objects for the two paths of the scenario, fails (OSError) where the scenario says so and logs every call
    with its mode; os.path.isfile answered by the scenario;
  * instrumented streams supplied by the "caller";
  * faults injected at the opaque steps of the translation (metadata parsing per file, building the object tree,
    reading raw data, the statements of defragment's with-block).
Observed: whether each call returned or which exception it raised, the sequence of open / close events, and
for each of the two files whether an object exists, who created it and whether it is closed, plus the number of
library-opened objects dropped while open.  The same scenario is run through the translated functions inside Coq
(`Example`s closed by vm_compute when Gen/PyFuncsResource.v is built).
"""
import io
import itertools
import os
import sys
import warnings

DATA_PATH = "/nonexistent/verif_selftest/x.tdms"
INDEX_PATH = DATA_PATH + "_index"


class Injected(Exception):
    """a fault injected at an opaque step"""


class Boom(Exception):
    """raised by the caller's own code inside a with-block"""


def b(x):
    return "true" if x else "false"


def clist(items):
    return "[" + "; ".join(items) + "]"


class World:
    """the two files of a scenario, the oracle, the log"""

    def __init__(self, content, orc):
        self.content = content          # key -> bytes
        self.orc = orc
        self.log = []
        self.objs = {"KData": [], "KIndex": []}

    def key_of_path(self, p):
        p = str(p)
        return {DATA_PATH: ("PData", "KData"), INDEX_PATH: ("PIndex", "KIndex")}.get(p, ("POther", None))

    def open(self, path, mode="r", *a, **k):
        pn, key = self.key_of_path(path)
        ok = {"PData": self.orc["open_data_ok"], "PIndex": self.orc["open_index_ok"], "POther": False}[pn]
        if not ok:
            self.log.append('EvOpenFail %s "%s"%%string' % (pn, mode))
            raise OSError(24, "injected: cannot open", str(path))
        self.log.append('EvOpen %s "%s"%%string' % (pn, mode))
        data = self.content.get(key, b"") if "r" in mode else b""
        return FakeFile(self, key, "Lib", data)

    def isfile(self, path):
        pn, _ = self.key_of_path(path)
        return {"PData": True, "PIndex": self.orc["isfile_index"], "POther": False}[pn]

    def fobj(self, key):
        if not self.objs[key]:
            return "NoObj"
        f = self.objs[key][-1]
        return "(FObj %s %s)" % (f.owner, "Closed" if f.closed else "Open")

    def fin(self, key):
        return sum(1 for f in self.objs[key][:-1] if f.owner == "Lib" and not f.closed)

    def table(self):
        return "(%s, %s, %d, %d)" % (self.fobj("KData"), self.fobj("KIndex"), self.fin("KData"), self.fin("KIndex"))


class FakeFile(io.BytesIO):
    def __init__(self, world, key, owner, data):
        super().__init__(data)
        self.world, self.key, self.owner = world, key, owner
        world.objs[key].append(self)

    def close(self):
        self.world.log.append("EvClose %s" % self.key)
        super().close()


def classify(e):
    m = str(e)
    if isinstance(e, Boom):
        return "(Ex EUser)"
    if isinstance(e, Injected):
        return "(Ex EParse)"
    if isinstance(e, OSError):
        return "(Ex EOpen)"
    if isinstance(e, RuntimeError) and "reader is closed" in m:
        return "(Ex EClosed)"
    if isinstance(e, RuntimeError) and "index file only" in m:
        return "(Ex EIndexOnly)"
    if isinstance(e, AttributeError) and "'NoneType' object has no attribute" in m:
        return "(Ex ENone)"
    if isinstance(e, ValueError) and "closed file" in m:
        return "(Ex EIO)"
    if isinstance(e, ValueError) and "File should either start with" in m:
        return "(Ex ETag)"
    if isinstance(e, ValueError) and "Neither tdms_index file nor tdms file" in m:
        return "(Ex ENoFile)"
    return "ExOther"


def outcome(fn):
    try:
        return "None", fn()
    except Exception as e:          # noqa: BLE001 - the class of the exception is the observation
        return "(Some %s)" % classify(e), None


ORC_FIELDS = ["open_data_ok", "open_index_ok", "isfile_index", "tag", "meta_data_ok", "meta_index_ok", "build_ok",
              "data_ok", "dest_open_data_ok", "dest_open_index_ok"]


def coq_orc(o):
    return "(mkorc %s)" % " ".join(o[f] if f == "tag" else b(o[f]) for f in ORC_FIELDS)


PRELUDE = """\
(* ---- self test: results of the real code (harness/gen/resource_selftest.py) ---- *)
Definition st_fobj (a b : fobj) : bool :=
  match a, b with
  | NoObj, NoObj | FObj Lib Open, FObj Lib Open | FObj Lib Closed, FObj Lib Closed
  | FObj Caller Open, FObj Caller Open | FObj Caller Closed, FObj Caller Closed => true
  | _, _ => false
  end.
Definition st_path (a b : path) : bool :=
  match a, b with PData, PData | PIndex, PIndex | POther, POther => true | _, _ => false end.
Definition st_event (a b : event) : bool :=
  match a, b with
  | EvOpen p m, EvOpen q n | EvOpenFail p m, EvOpenFail q n => st_path p q && String.eqb m n
  | EvClose k, EvClose j => fkey_eqb k j
  | _, _ => false
  end.
Fixpoint st_list {A} (eq : A -> A -> bool) (a b : list A) : bool :=
  match a, b with
  | [], [] => true
  | x :: a', y :: b' => eq x y && st_list eq a' b'
  | _, _ => false
  end.
Definition st_exn (a b : exn) : bool :=
  match a, b with
  | Ex x, Ex y => Nat.eqb (err_code x) (err_code y)
  | ExOther, ExOther => true
  | _, _ => false
  end.
Definition st_out (a b : option exn) : bool :=
  match a, b with None, None => true | Some x, Some y => st_exn x y | _, _ => false end.
(* observed: the table (object on the data file, on the index file, objects dropped while open) and the log *)
Definition st_tabobs := (fobj * fobj * nat * nat)%type.
Definition st_tab (t : htab) (o : st_tabobs) (lg : list event) : bool :=
  let '(d, i, nd, ni) := o in
  st_fobj (h_data t) d && st_fobj (h_index t) i && Nat.eqb (fin_data t) nd && Nat.eqb (fin_index t) ni &&
  st_list st_event (h_log t) lg.

(* --- reader scenarios: API call, then (if it returned) channel._read_channel_data(), close(),
   channel._read_channel_data(), close(); observed outcomes in that order *)
Definition st_new_tab (d i : fobj) : htab := mkhtab d i 0 0 [].
Definition st_new_gtf (d i : fobj) : gtf := mkgtf (mkgrd (st_new_tab d i) None None None None) None false.
Definition st_api (a : nat) : oracle -> pyarg -> gtf -> xres gtf unit :=
  match a with 0 => tdmsfile_static_read_gen | 1 => tdmsfile_static_open_gen | _ => tdmsfile_static_read_metadata_gen end.
Definition st_on_reader (m : grd -> xres grd unit) : gtf -> xres gtf unit := zoom gt_rd gt_set_rd m.
Fixpoint st_run {S} (ops : list (S -> xres S unit)) (s : S) : list (option exn) * S :=
  match ops with
  | [] => ([], s)
  | m :: r => let x := m s in let '(os, s') := st_run r (xstate x) in (xout x :: os, s')
  end.
Definition st_reader (c : nat * pyarg * (fobj * fobj) * oracle * (list (option exn) * st_tabobs * list event)) : bool :=
  let '(a, arg, (d, i), orc, (outs, tabobs, lg)) := c in
  let first := st_api a orc arg (st_new_gtf d i) in
  let '(os, s) :=
    match xout first with
    | None => st_run [st_on_reader (channel_read_channel_data_gen orc); tdmsfile_close_gen orc;
                      st_on_reader (channel_read_channel_data_gen orc); tdmsfile_close_gen orc] (xstate first)
    | Some _ => ([], xstate first)
    end in
  st_list st_out (xout first :: os) outs && st_tab (gr_tab (gt_rd s)) tabobs lg.

(* --- writer scenarios: TdmsWriter(file, mode, index_file=..), then a history of
   with-blocks (body: 0 nothing, 1 the caller raises, 2 w.close()) and close() calls *)
Definition st_body (orc : oracle) (k : nat) (s : gwr) : xres gwr unit :=
  match k with 0 => XOk tt s | 1 => XErr (Ex EUser) s | _ => writer_close_gen orc s end.
(* with w: body   (Python: w.__enter__(); try: body finally: w.__exit__(..), __exit__ returning None) *)
Definition st_with (orc : oracle) (k : nat) (s : gwr) : xres gwr unit :=
  dox (_, s1) <- writer_enter_gen orc s;
  xfinally (st_body orc k s1) (writer_exit_gen orc).
Definition st_wop (o : option (oracle * nat)) : gwr -> xres gwr unit :=
  match o with Some (orc, k) => st_with orc k | None => writer_close_gen (mkorc true true true TagM true true true true true true) end.
Definition st_writer (c : pyarg * string * pyarg * (fobj * fobj) * list (option (oracle * nat))
                          * (list (option exn) * st_tabobs * list event)) : bool :=
  let '(file, mode, ix, (d, i), ops, (outs, tabobs, lg)) := c in
  let orc0 := mkorc true true true TagM true true true true true true in
  let first := writer_init_gen orc0 file mode ix (mkgwr (st_new_tab d i) None None None None ""%string) in
  let '(os, s) := match xout first with
                  | None => st_run (map st_wop ops) (xstate first)
                  | Some _ => ([], xstate first)
                  end in
  st_list st_out (xout first :: os) outs && st_tab (gw_tab s) tabobs lg.

(* --- TdmsWriter.defragment(source, destination, index_file=..): the statements of the with-block succeed
   or raise as the scenario says (a write_segment made to fail; reading a channel of a source that is an
   index file only, whose reader is closed by then) *)
Definition st_defrag (c : pyarg * (fobj * fobj) * pyarg * pyarg * (fobj * fobj) * oracle * option exn
                          * (option exn * st_tabobs * list event * st_tabobs * list event)) : bool :=
  let '(src, (d, i), dst, ix, (dd, di), orc, body_exn, (out, t1, l1, t2, l2)) := c in
  let s0 := mkgdf (st_new_gtf d i) (mkgwr (st_new_tab dd di) None None None None ""%string) in
  let body := fun s : gdf => match body_exn with None => XOk tt s | Some e => XErr e s end in
  let r := writer_defragment_gen orc src dst ix body s0 in
  st_out (xout r) out && st_tab (gr_tab (gt_rd (gd_tf (xstate r)))) t1 l1 && st_tab (gw_tab (gd_wr (xstate r))) t2 l2.
"""


def selftest(repo, die):
    sys.path.insert(0, repo)
    import logging
    logging.disable(logging.WARNING)
    import numpy as np
    import nptdms
    import nptdms.reader as R
    import nptdms.tdms as TD
    import nptdms.writer as W
    import nptdms.tdms_segment as SEG
    if not os.path.realpath(nptdms.__file__).startswith(os.path.realpath(repo)):
        die("self-test imported nptdms from %s, not from %s" % (nptdms.__file__, repo))
    from nptdms import TdmsFile, TdmsWriter, ChannelObject

    # a small valid file with its index, written by the real writer before anything is patched
    fd, fi = io.BytesIO(), io.BytesIO()
    with TdmsWriter(fd, index_file=fi) as w:
        w.write_segment([ChannelObject("g", "c", np.array([1, 2, 3], dtype=np.int32))])
        w.write_segment([ChannelObject("g", "c", np.array([4, 5], dtype=np.int32))])
    content = {"KData": fd.getvalue(), "KIndex": fi.getvalue()}

    cur = {}        # the world of the scenario that is running

    saved = dict(r_open=R.__dict__.get("open"), w_open=W.__dict__.get("open"), isfile=os.path.isfile,
                 rsm=R.TdmsReader._read_segment_metadata, conv=TD.TdmsFile._convert_properties,
                 rrd=SEG.TdmsSegment.read_raw_data, rrdc=SEG.TdmsSegment.read_raw_data_for_channel,
                 ws=W.TdmsWriter.write_segment)

    def fake_open(path, mode="r", *a, **k):
        return cur["w"].open(path, mode, *a, **k)

    def fake_isfile(p):
        if str(p).startswith(os.path.dirname(DATA_PATH)):
            return cur["w"].isfile(p)
        return saved["isfile"](p)

    def rsm(self, file, *a, **k):
        w = cur["w"]
        if isinstance(file, FakeFile) and not w.orc["meta_%s_ok" % ("data" if file.key == "KData" else "index")]:
            file.tell()         # the parsing loop reads the file first: a closed file is noticed before the content
            raise Injected("metadata")
        return saved["rsm"](self, file, *a, **k)

    def conv(self, props):
        if not cur["w"].orc["build_ok"]:
            raise Injected("build")
        return saved["conv"](self, props)

    def rrd(self, f, *a, **k):
        if not cur["w"].orc["data_ok"]:
            raise Injected("data")
        return saved["rrd"](self, f, *a, **k)

    def rrdc(self, f, *a, **k):
        if not cur["w"].orc["data_ok"]:
            raise Injected("data")
        return saved["rrdc"](self, f, *a, **k)

    def ws(self, objects):
        if cur.get("body_ok") is False:
            raise Injected("body")
        return saved["ws"](self, objects)

    R.open = fake_open
    W.open = fake_open
    os.path.isfile = fake_isfile
    R.TdmsReader._read_segment_metadata = rsm
    TD.TdmsFile._convert_properties = conv
    SEG.TdmsSegment.read_raw_data = rrd
    SEG.TdmsSegment.read_raw_data_for_channel = rrdc
    W.TdmsWriter.write_segment = ws
    counts = {}
    try:
        with warnings.catch_warnings():
            warnings.simplefilter("ignore")
            readers = reader_cases(TdmsFile, content, cur)
            writers = writer_cases(TdmsWriter, cur)
            defrags = defrag_cases(TdmsWriter, content, cur)
    finally:
        for mod, key in ((R, "r_open"), (W, "w_open")):
            if saved[key] is None:
                mod.__dict__.pop("open", None)
            else:
                mod.open = saved[key]
        os.path.isfile = saved["isfile"]
        R.TdmsReader._read_segment_metadata = saved["rsm"]
        TD.TdmsFile._convert_properties = saved["conv"]
        SEG.TdmsSegment.read_raw_data = saved["rrd"]
        SEG.TdmsSegment.read_raw_data_for_channel = saved["rrdc"]
        W.TdmsWriter.write_segment = saved["ws"]
    counts["reader scenarios"] = len(readers)
    counts["writer histories"] = len(writers)
    counts["defragment scenarios"] = len(defrags)
    text = PRELUDE + "\n"
    for name, fn, cases in (("reader", "st_reader", readers), ("writer", "st_writer", writers),
                            ("defrag", "st_defrag", defrags)):
        # chunks keep each term small
        for n, i in enumerate(range(0, len(cases), 200)):
            text += "Example selftest_%s_%d : forallb %s\n  %s = true.\nProof. vm_compute. reflexivity. Qed.\n\n" % (
                name, n, fn, clist(["\n   " + c for c in cases[i:i + 200]]))
    return text, counts


SOURCES = {      # name -> (argument, initial table (data, index), tag)
    "Path": ("path:data", ("NoObj", "NoObj"), "TagM"),
    "IndexPath": ("path:index", ("NoObj", "NoObj"), "TagM"),
    "Stream": ("stream:KData", ("(FObj Caller Open)", "NoObj"), "TagM"),
    "IndexStream": ("stream:KIndex", ("NoObj", "(FObj Caller Open)"), "TagH"),
    "BadStream": ("stream:KData:bad", ("(FObj Caller Open)", "NoObj"), "TagBad"),
}


def make_source(world, name):
    """-> (python argument, Coq pyarg)"""
    kind = SOURCES[name][0]
    if kind == "path:data":
        return DATA_PATH, "(APath PData)"
    if kind == "path:index":
        return INDEX_PATH, "(APath PIndex)"
    key = kind.split(":")[1]
    data = world.content[key]
    if kind.endswith(":bad"):
        data = b"XXXX" + data[4:]
    return FakeFile(world, key, "Caller", data), "(AStream %s)" % key


def reader_cases(TdmsFile, content, cur):
    out = []
    apis = [TdmsFile.read, TdmsFile.open, TdmsFile.read_metadata]
    bits = ["open_data_ok", "open_index_ok", "isfile_index", "meta_data_ok", "meta_index_ok", "build_ok", "data_ok"]
    for a, api in enumerate(apis):
        for src in SOURCES:
            for vals in itertools.product([True, False], repeat=len(bits)):
                orc = dict(zip(bits, vals), tag=SOURCES[src][2], dest_open_data_ok=True, dest_open_index_ok=True)
                w = World(content, orc)
                cur["w"] = w
                arg, carg = make_source(w, src)
                outs = []
                o, tf = outcome(lambda: api(arg))
                outs.append(o)
                if tf is not None:
                    ch = tf["g"]["c"]
                    outs.append(outcome(lambda: ch._read_channel_data())[0])
                    outs.append(outcome(tf.close)[0])
                    outs.append(outcome(lambda: ch._read_channel_data())[0])
                    outs.append(outcome(tf.close)[0])
                out.append("(%d, %s, (%s, %s), %s, (%s, %s, %s))" % (
                    a, carg, SOURCES[src][1][0], SOURCES[src][1][1], coq_orc(orc), clist(outs), w.table(), clist(w.log)))
    return out


def writer_cases(TdmsWriter, cur):
    out = []
    all_ok = dict(open_data_ok=True, open_index_ok=True, isfile_index=True, tag="TagM", meta_data_ok=True,
                  meta_index_ok=True, build_ok=True, data_ok=True, dest_open_data_ok=True, dest_open_index_ok=True)
    faults = [(True, True), (False, True), (True, False)]
    ops1 = [("with", f, k) for f in faults for k in (0, 1, 2)] + [("close",)]
    histories = [[o] for o in ops1] + [[o1, o2] for o1 in ops1 for o2 in ops1] \
        + [[("with", (True, False), 0), ("with", (True, True), 1), ("close",)],
           [("with", (True, True), 2), ("close",), ("with", (True, True), 0)]]
    targets = [("path", False), ("path", True), ("stream", False), ("stream", True), ("path", "other"), ("stream", True, "badix")]
    for tgt in targets:
        for mode in ("w", "a"):
            for hist in (histories if mode == "w" else histories[:len(ops1)]):
                w = World({}, dict(all_ok))
                cur["w"] = w
                if tgt[0] == "path":
                    file, cfile, init = DATA_PATH, "(APath PData)", ("NoObj", "NoObj")
                    ix, cix = (tgt[1], "(ABool %s)" % b(tgt[1])) if tgt[1] != "other" else (3, "AOther")
                else:
                    file, cfile = FakeFile(w, "KData", "Caller", b""), "(AStream KData)"
                    if len(tgt) == 3:
                        ix, cix, init = True, "(ABool true)", ("(FObj Caller Open)", "NoObj")
                    elif tgt[1]:
                        ix, cix, init = FakeFile(w, "KIndex", "Caller", b""), "(AStream KIndex)", \
                            ("(FObj Caller Open)", "(FObj Caller Open)")
                    else:
                        ix, cix, init = False, "(ABool false)", ("(FObj Caller Open)", "NoObj")
                outs, cops = [], []
                o, wr = outcome(lambda: TdmsWriter(file, mode, index_file=ix))
                outs.append(o)
                if wr is not None:
                    for op in hist:
                        if op[0] == "close":
                            outs.append(outcome(wr.close)[0])
                            cops.append("None")
                            continue
                        _, (fd_ok, fi_ok), k = op
                        w.orc = dict(all_ok, open_data_ok=fd_ok, open_index_ok=fi_ok)

                        def run():
                            with wr:
                                if k == 1:
                                    raise Boom()
                                if k == 2:
                                    wr.close()
                        outs.append(outcome(run)[0])
                        cops.append("(Some (%s, %d))" % (coq_orc(w.orc), k))
                out.append('(%s, "%s"%%string, %s, (%s, %s), %s, (%s, %s, %s))' % (
                    cfile, mode, cix, init[0], init[1], clist(cops), clist(outs), w.table(), clist(w.log)))
    return out


class TwoWorlds:
    """defragment: source files and destination files are different files"""

    def __init__(self, src, dst):
        self.src, self.dst = src, dst
        self.orc = src.orc

    def open(self, path, mode="r", *a, **k):
        return (self.dst if "r" not in mode else self.src).open(path, mode, *a, **k)

    def isfile(self, p):
        return self.src.isfile(p)


def defrag_cases(TdmsWriter, content, cur):
    out = []
    bits = ["open_data_ok", "open_index_ok", "isfile_index", "meta_data_ok", "meta_index_ok", "build_ok", "data_ok"]
    combos = [dict.fromkeys(bits, True)] + [dict(dict.fromkeys(bits, True), **{x: False}) for x in bits] \
        + [dict(dict.fromkeys(bits, True), isfile_index=False, meta_data_ok=False),
           dict(dict.fromkeys(bits, True), isfile_index=False, data_ok=False)]
    for src in SOURCES:
        for combo in combos:
            for tgt in (("path", False), ("path", True), ("stream", False), ("stream", True)):
                for (dd_ok, di_ok) in ((True, True), (False, True), (True, False)):
                    for body_ok in (True, False):
                        orc = dict(combo, tag=SOURCES[src][2], dest_open_data_ok=dd_ok, dest_open_index_ok=di_ok)
                        ws = World(content, orc)
                        wd = World({}, dict(orc, open_data_ok=dd_ok, open_index_ok=di_ok))
                        cur["w"] = TwoWorlds(ws, wd)
                        cur["body_ok"] = body_ok
                        arg, carg = make_source(ws, src)
                        if tgt[0] == "path":
                            dst, cdst, dinit = DATA_PATH, "(APath PData)", ("NoObj", "NoObj")
                            ix, cix = tgt[1], "(ABool %s)" % b(tgt[1])
                        else:
                            dst, cdst = FakeFile(wd, "KData", "Caller", b""), "(AStream KData)"
                            if tgt[1]:
                                ix, cix, dinit = FakeFile(wd, "KIndex", "Caller", b""), "(AStream KIndex)", \
                                    ("(FObj Caller Open)", "(FObj Caller Open)")
                            else:
                                ix, cix, dinit = False, "(ABool false)", ("(FObj Caller Open)", "NoObj")
                        o, _ = outcome(lambda: TdmsWriter.defragment(arg, dst, index_file=ix))
                        body_exn = "(Some (Ex EParse))" if not body_ok else \
                            ("(Some (Ex EClosed))" if src in ("IndexPath", "IndexStream") else "None")
                        out.append("(%s, (%s, %s), %s, %s, (%s, %s), %s, %s, (%s, %s, %s, %s, %s))" % (
                            carg, SOURCES[src][1][0], SOURCES[src][1][1], cdst, cix, dinit[0], dinit[1], coq_orc(orc),
                            body_exn, o, ws.table(), clist(ws.log), wd.table(), clist(wd.log)))
    cur["body_ok"] = None
    return out
