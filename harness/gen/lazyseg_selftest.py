"""Self-test for gen_pyfuncs_lazyseg.py: the REAL list(TdmsSegment.read_raw_data_for_channel(f, path, chunk_offset,
num_chunks)) is run on every segment of real FILES (harness/tdmsgen.py random files -- contiguous with strings /
timestamps, interleaved, mixed byte orders, segments without metadata, cut inside the last chunk --, DAQmx files from
harness/daqmxgen.py, a hand-built file with a segment without kTocRawData), for every data channel of the segment and a
path that is not in it, for several chunk ranges; the file object stands at a random position before the call.  The
observed chunks (arrays with dtypes, lists of str, scaler dictionaries) and f.tell() afterwards, or the exception class,
are written as Gallina terms into `Example`s that vm_compute checks whenever the file is built.
"""
import random
import sys
import warnings

import chunkloops_common as C
from chunkloops_common import z, hx, clist

ST_PRELUDE = """\
(* ---- self test: results of the REAL code (list(TdmsSegment.read_raw_data_for_channel(..)) on io.BytesIO streams) ---- *)
"""


def example(name, ctype, cases, check, die, minimum=8, chunk=20):
    if len(cases) < minimum:
        die("self-test grid of %s is too small (%d cases)" % (name, len(cases)))
    out = []
    for k in range(0, len(cases), chunk):
        part = cases[k:k + chunk]
        nm = name if len(cases) <= chunk else "%s_%d" % (name, k // chunk)
        out.append("Definition lzs_st_%s_cases : list (%s) :=\n  [%s].\n" % (nm, ctype, ";\n   ".join(part)))
        out.append("Example lzs_st_%s : forallb %s lzs_st_%s_cases = true.\nProof. vm_compute. reflexivity. Qed.\n" % (nm, check, nm))
    return "\n".join(out)


def selftest(repo, die):
    sys.path.insert(0, repo)
    sys.path.insert(0, C.harness_path())
    import logging
    logging.disable(logging.CRITICAL)
    warnings.simplefilter("ignore")
    import tdmsgen as G
    import daqmxgen as D
    G.silence_logs()
    counts = {}
    files = []
    rnd = random.Random(20261004)
    for i in range(24):
        segs = G.gen_file(rnd, G.GenParams(max_segs=3, max_groups=2, max_chans=3, max_vals=3, max_chunks=3, min_vals=1))
        full = G.ser_file(segs)
        files.append(("gen", full))
        if i % 3 == 0 and len(segs[-1].data) > 1:
            files.append(("cut", full[:len(full) - rnd.randint(1, len(segs[-1].data) - 1)]))
    frnd = random.Random(993)
    n = 0
    while n < 5:
        widths, rows, chans = D.gen_daqmx_layout(frnd, one_buffer_per_channel=True)
        e = frnd.choice("<>")
        cs = D.chunk_size(widths, rows)
        segs = [G.Seg(e=e, toc=G.TOC_META | G.TOC_RAW | G.TOC_DAQMX | G.TOC_NEWLIST, entries=D.daqmx_entries(widths, chans, None),
                      data=bytes(frnd.randrange(256) for _ in range(cs * frnd.randint(1, 3))))]
        full = G.ser_file(segs)
        if len(full) > 700:
            continue
        n += 1
        files.append(("daqmx", full))
        if n % 2 == 0:
            files.append(("daqmx_cut", full[:len(full) - frnd.randint(1, max(1, len(segs[-1].data) - 1))]))
    ch = G.quote_path("g", "c")
    ent = [G.Entry(ch, ("full", 20, 3, 1, 2, None))]
    s1 = G.Seg(entries=ent, data=bytes(range(16)))
    s2 = G.Seg(toc=G.TOC_META, entries=[], data=b"")
    files.append(("no_raw_flag", G.ser_file([s1, s2])))

    cases = []
    for kind, data in files:
        try:
            rd, f = C.open_reader(data, repo)
        except Exception:                                           # noqa: BLE001
            continue
        counts[kind] = counts.get(kind, 0) + 1
        for sg in rd._segments:
            st = C.segment_term(sg, die)
            paths = [o.path for o in sg.ordered_objects if o.has_data][:3] + ["/'no'/'such'"]
            nch = sg.num_chunks
            ranges = [(0, None), (0, 1), (1, None), (max(nch - 1, 0), 1), (1, 1)]
            seen = set()
            for p in paths:
                for co, nc in ranges:
                    if (p, co, nc) in seen or co > nch or (nc is not None and co + nc > nch):
                        continue
                    seen.add((p, co, nc))
                    for o in sg.ordered_objects:
                        pass
                    sg.data_objects_cached = None
                    sg.chunk_size_cached = None
                    sg.has_daqmx_objects_cached = None
                    p0 = rnd.randrange(len(data) + 1)
                    f.seek(p0)
                    try:
                        chunks = list(sg.read_raw_data_for_channel(f, p, co, nc))
                        res = "Ok (%s, %s)" % (clist([C.rcdc_term(c) for c in chunks]), z(f.tell()))
                        counts["chunks"] = counts.get("chunks", 0) + len(chunks)
                    except Exception as ex:                         # noqa: BLE001
                        res = "Err %s" % C.err_of(ex, die)
                        counts["raise"] = counts.get("raise", 0) + 1
                    cases.append("(%s, %s, %s, %s, %s, %s, %s)" % (st, hx(data), z(p0), hx(p.encode("utf-8")), z(co), C.copt(nc, z), res))
    out = [ST_PRELUDE]
    out.append(example(
        "channel", "segment * bytes * Z * bytes * Z * option Z * res (list rcdc * Z)", cases,
        "(fun '(sg, data, p0, path, co, nc, r) => drd_st_res (drd_st_pair (drd_st_list drd_rcdc_eqb) Z.eqb)\n"
        "      (drd_mapr (fun p => (fst p, pf_pos (snd p))) (segment_read_raw_data_for_channel_gen sg (mkPf data p0) path co nc)) r)",
        die, minimum=150))
    counts["cases"] = len(cases)
    return "\n".join(out), counts
