"""Self-test of gen_pyfuncs_dtype.py: the REAL code of nptdms/scaling.py and nptdms/tdms.py is run and its results
are embedded as `Example`s about the translated functions (coq/theories/Gen/PyFuncsDtypeTest.v).

  st_result_type     np.result_type on every pair of the 13 numeric dtypes, with None, and on identical non-numeric
                     dtypes; np.issubdtype(.., np.complexfloating); _double_precision_dtype
  st_get_dtype       MultiScaling(objects).get_dtype(raw, scaler types) on real objects of every scaling class:
                     random wirings (Raw, earlier / later / negative / out-of-range sources, cycles = RecursionError,
                     unsupported scale = None entry), raw type given as a dtype (13 numeric, object, datetime64[us],
                     the TimestampArray structure, V8) and as a TDMS type class, scaler types present / None / id absent
  st_channel         real TdmsFile objects (TdmsWriter-made files: every writable type, scalings of every class on the
                     channel / group / root, raw_timestamps on and off, read() and open(), zero-length channels,
                     channels without data) and TdmsChannel objects of every class of nptdms.types, DAQmx raw data
                     and no type at all: _raw_data_dtype(), dtype, len()
  st_reads           TdmsChannel._scale_data / data / read_data and ChannelDataChunk._data on real channel objects with
                     every shape of raw data (array or None, scaler dict missing / empty / filled), scaling or not,
                     scaled or not, eager or lazy, empty results: WHICH object is handed back (np.empty of which dtype,
                     the scaling's result, the raw array, the scaler dict, None) or the exception class
"""
import io
import os
import random
import sys
import types as pytypes

import numpy as np

NP_NAMES = {"bool": "Bool", "int8": "Int8", "int16": "Int16", "int32": "Int32", "int64": "Int64", "uint8": "UInt8",
            "uint16": "UInt16", "uint32": "UInt32", "uint64": "UInt64", "float32": "Float32", "float64": "Float64",
            "complex64": "Complex64", "complex128": "Complex128"}
RAW = 0xFFFFFFFF
TS_STRUCT = np.dtype([('second_fractions', '<u8'), ('seconds', '<i8')])


def cz(v):
    return "%d" % v if v >= 0 else "(%d)" % v


def cfloat(x):
    x = float(x)
    if x != x:
        return "nan"
    if x in (float("inf"), float("-inf")):
        return "infinity" if x > 0 else "neg_infinity"
    return "(%s)%%float" % x.hex()


def clist(items):
    return "[" + "; ".join(items) + "]"


def cbool(b):
    return "true" if b else "false"


def copt(v, f):
    return "None" if v is None else "(Some %s)" % f(v)


def cxdt(d):
    if d is None:
        return "ScaleDtype.XNone"
    d = np.dtype(d)
    if d.kind == "O":
        return "ScaleDtype.XObject"
    if d == np.dtype("<M8[us]"):
        return "ScaleDtype.XDatetime64"
    if d == np.dtype("<m8[us]"):
        return "ScaleDtype.XTimedelta64"
    if d == TS_STRUCT:
        return "ScaleDtype.XTimestampStruct"
    if d == np.dtype("V8"):
        return "ScaleDtype.XVoid8"
    if d.name in NP_NAMES and d.fields is None:
        return "(ScaleDtype.XNum %s)" % NP_NAMES[d.name]
    raise ValueError("no xdt for dtype %r" % (d,))


def err_of(e):
    if isinstance(e, RecursionError):
        return "EFuel"
    for cls, name in ((KeyError, "EKey"), (IndexError, "EIndex"), (ValueError, "EValue"), (TypeError, "EType"),
                      (RuntimeError, "ERuntime")):
        if isinstance(e, cls):
            return name
    return "EOther"


def observe(fn, enc):
    try:
        return "Ok %s" % enc(fn())
    except Exception as e:          # noqa: BLE001
        return "Err %s" % err_of(e)


def selftest(repo, tds, die):
    sys.path.insert(0, repo)
    import nptdms
    if os.path.realpath(os.path.dirname(nptdms.__file__)) != os.path.realpath(os.path.join(repo, "nptdms")):
        die("nptdms imported from %s" % nptdms.__file__)
    import logging
    import warnings
    logging.disable(logging.CRITICAL)
    warnings.simplefilter("ignore")
    from nptdms import scaling as SC, types as TY, TdmsFile, TdmsWriter, RootObject, GroupObject, ChannelObject
    from nptdms import tdms as TD
    from nptdms.common import ObjectPath
    import gen_pyfuncs_scaleeval as GS
    import py2gallina as T
    import ast
    tree = ast.parse(open(os.path.join(repo, "nptdms", "scaling.py")).read())
    order = {}
    for cn in GS.ATTRS:
        init = GS.method(GS.find_class(tree, cn), "__init__")
        order[cn] = [k[5:] for k in T.assigned_keys(init.body) if k.startswith("self.")]
    from nptdms import thermocouples as TH
    tc_names = {id(getattr(TH, "type_" + c)): "T" + c.upper() for c in "bejknrst"}

    def cpval(v):
        if isinstance(v, str):
            return '(ScaleGraph.PStr "%s"%%string)' % v
        if isinstance(v, float):
            return "(ScaleGraph.PFloat %s)" % cfloat(v)
        if isinstance(v, int) and not isinstance(v, bool):
            return "(ScaleGraph.PInt %s)" % cz(v)
        raise ValueError("property value %r" % (v,))

    def cobj(o):
        if o is None:
            return "None"
        cn = type(o).__name__
        parts = []
        for a in order[cn]:
            v, t = getattr(o, a), GS.ATTRS[cn][a]
            if t == ("Z",):
                parts.append(cz(int(v)))
            elif t == ("f64",):
                parts.append(cfloat(v))
            elif t in (("list", ("f64",)), ("farr",)):
                parts.append(clist(cfloat(x) for x in v))
            elif t == ("pval",):
                parts.append(cpval(v))
            elif t == ("enum", "tctype"):
                parts.append(tc_names[id(v)])
            else:
                raise ValueError("attribute type %r" % (t,))
        return "(Some (Py%s %s))" % (cn, " ".join(parts))

    def cmulti(m):
        return clist(cobj(o) for o in m.scalings)

    def ctype(c):
        return cz(int(c.enum_value))

    def cscalers(d):
        return copt(d, lambda d_: clist("(%s, %s)" % (cz(k), ctype(v)) for k, v in d_.items()))

    out = ["(* GENERATED by harness/gen/gen_pyfuncs_dtype.py (dtype_selftest.py) -- do not edit.\n"
           "   Self-test of Gen/PyFuncsDtype.v: results of the REAL code of nptdms/scaling.py / nptdms/tdms.py. *)\n"
           "From Coq Require Import String.\nFrom Coq Require Import ZArith List Bool PrimFloat.\nImport ListNotations.\n"
           "From NpTdms Require Import Base.Res Gen.NumpyPromote Gen.ThermoTables Gen.PyFuncsScaling Gen.PyFuncsScaleEval Gen.PyFuncsDtype.\n"
           "From NpTdms Require Model.ScaleGraph Model.ScaleDtype.\nLocal Open Scope Z_scope.\n\n"
           "Definition st_res_eqb {A} (eq : A -> A -> bool) (a b : res A) : bool :=\n"
           "  match a, b with Ok x, Ok y => eq x y | Err x, Err y => err_eqb x y | _, _ => false end.\n"
           "Definition st_pyres_eqb (a b : pyres) : bool :=\n  match a, b with\n"
           "  | PyEmpty x, PyEmpty y => ScaleDtype.xdt_eqb x y\n"
           "  | PyScaled, PyScaled | PyRawData, PyRawData | PyScalerDict, PyScalerDict | PyNoneVal, PyNoneVal => true\n"
           "  | _, _ => false\n  end.\n"]
    counts = {}
    rng = random.Random(20141)

    # ---- np.result_type / np.issubdtype / _double_precision_dtype
    nums = [np.dtype(n) for n in NP_NAMES]
    others = [np.dtype("O"), np.dtype("<M8[us]"), TS_STRUCT, np.dtype("V8")]
    cases = []
    for a in nums + [None]:
        for b in nums + [None]:
            cases.append("(%s, %s, %s)" % (cxdt(a), cxdt(b), observe(lambda: np.result_type(a, b), cxdt)))
    for a in others:
        cases.append("(%s, %s, %s)" % (cxdt(a), cxdt(a), observe(lambda: np.result_type(a, a), cxdt)))
    cases = list(dict.fromkeys(cases))
    counts["result_type"] = len(cases)
    out.append("Definition st_result_type_cases : list (ScaleDtype.xdt * ScaleDtype.xdt * res ScaleDtype.xdt) :=\n  [%s].\n"
               "Example st_result_type : forallb (fun c => let '(a, b, r) := c in st_res_eqb ScaleDtype.xdt_eqb (np_result_type a b) r) "
               "st_result_type_cases = true.\nProof. vm_compute. reflexivity. Qed.\n" % ";\n   ".join(cases))
    cases = []
    for a in nums + others + [None]:
        cases.append("(%s, %s, %s)" % (cxdt(a), cbool(np.issubdtype(a, np.complexfloating)),
                                       observe(lambda: SC._double_precision_dtype(a), cxdt)))
    counts["double_precision"] = len(cases)
    out.append("Definition st_double_precision_cases : list (ScaleDtype.xdt * bool * res ScaleDtype.xdt) :=\n  [%s].\n"
               "Example st_double_precision : forallb (fun c => let '(a, b, r) := c in Bool.eqb (xdt_is_complexfloating a) b && "
               "st_res_eqb ScaleDtype.xdt_eqb (double_precision_xdt_gen a) r) st_double_precision_cases = true.\n"
               "Proof. vm_compute. reflexivity. Qed.\n" % ";\n   ".join(cases))
    # the reflected table against the classes once more (through a different route: the class objects)
    cases = []
    for name in tds:
        c = getattr(TY, name)
        cases.append("(%s, %s)" % (ctype(c), cxdt(getattr(c, "nptype", None))))
    counts["nptype"] = len(cases)
    out.append("Definition st_nptype_cases : list (Z * ScaleDtype.xdt) :=\n  [%s].\n"
               "Example st_nptype : forallb (fun c => ScaleDtype.xdt_eqb (tds_nptype (fst c)) (snd c)) st_nptype_cases = true.\n"
               "Proof. vm_compute. reflexivity. Qed.\n" % ";\n   ".join(cases))

    # ---- MultiScaling.get_dtype on real objects
    def rand_src(n, i):
        r = rng.random()
        if r < 0.35:
            return RAW
        if r < 0.8 and i > 0:
            return rng.randrange(0, i)
        if r < 0.86:
            return rng.randrange(0, n)           # possibly itself or a later scale: a cycle
        if r < 0.93:
            return -rng.randrange(1, n + 2)      # negative index (Python wraps; may be out of range)
        return n + rng.randrange(0, 2)           # out of range

    def rand_obj(n, i, daqmx):
        k = rng.randrange(13 if daqmx else 12)
        s = rand_src(n, i)
        if k == 0:
            return SC.NoOpScaling(s)
        if k in (1, 11):
            return SC.LinearScaling(1.5, 2.0, s)
        if k == 2:
            return SC.PolynomialScaling([1.0, 2.0], s)
        if k == 3:
            return SC.RtdScaling(0.001, 100.0, 0.0039083, -5.775e-07, -4.183e-12, 0.0, 3, s)
        if k == 4:
            return SC.StrainScaling(10183, 0.3, 350.0, 0.0, 0.0, 2.1, 1.0, 2.5, s)
        if k == 5:
            return SC.TableScaling(np.array([0.0, 1.0]), np.array([1.0, 3.0]), s)
        if k == 6:
            return SC.ThermistorScaling(10322, 2.5, 3, 5000.0, 0.0, 0.0012873851, 0.00023575235, 9.497806e-8, 1.0, s)
        if k == 7:
            return SC.ThermocoupleScaling(10073, 0, s)
        if k == 8:
            return SC.AddScaling(s, rand_src(n, i))
        if k == 9:
            return SC.SubtractScaling(s, rand_src(n, i))
        if k == 10:
            return None                           # a scale of an unsupported type
        return SC.DaqMxScalerScaling(rng.randrange(0, 3))

    skipped = [0]

    def unmodelled(m, raw, scalers):
        """np.result_type is asked for a non-numeric dtype together with a different dtype: outside the model
        (NumPy answers object for object + anything and raises for the rest); such cases are not in the grid"""
        for o in m.scalings:
            if isinstance(o, (SC.AddScaling, SC.SubtractScaling)):
                try:
                    a = m._compute_scale_dtype(o.left_input_source, raw, scalers)
                    b = m._compute_scale_dtype(o.right_input_source, raw, scalers)
                except Exception:       # noqa: BLE001
                    continue
                a = np.dtype("float64") if a is None else np.dtype(a)
                b = np.dtype("float64") if b is None else np.dtype(b)
                if (a.name not in NP_NAMES or b.name not in NP_NAMES) and a != b:
                    skipped[0] += 1
                    return True
        return False

    daq_types = [TY.Int16, TY.Uint16, TY.Int32, TY.Uint32, TY.Uint8, TY.Int8, TY.DoubleFloat, TY.SingleFloat, TY.Int64, TY.Uint64]
    cases = []

    def add_case(m, raw, scalers):
        if unmodelled(m, raw, scalers):
            return
        rawc = "(inl %s)" % cxdt(raw) if isinstance(raw, np.dtype) else "(inr %s)" % ctype(raw)
        cases.append("(%s, %s, %s, %s)" % (cmulti(m), rawc, cscalers(scalers),
                                           observe(lambda: m.get_dtype(raw, scalers), cxdt)))
    for _ in range(420):
        n = rng.randrange(1, 6)
        daqmx = rng.random() < 0.4
        m = SC.MultiScaling([rand_obj(n, i, daqmx) for i in range(n)])
        if rng.random() < 0.6:
            raw = rng.choice(nums)
        else:
            raw = getattr(TY, rng.choice(sorted(tds)))
        scalers = None
        if daqmx and rng.random() < 0.9:
            scalers = {k: rng.choice(daq_types) for k in rng.sample(range(3), rng.randrange(1, 4))}
        add_case(m, raw, scalers)
    add_case(SC.MultiScaling([]), np.dtype("int32"), None)
    L = lambda s: SC.LinearScaling(1.0, 2.0, s)          # noqa: E731
    fixed = [[SC.NoOpScaling(RAW)], [L(RAW)], [SC.AddScaling(RAW, RAW)], [SC.SubtractScaling(RAW, RAW)],
             [SC.PolynomialScaling([1.0], RAW)], [SC.NoOpScaling(RAW), SC.AddScaling(0, 0)],
             [SC.NoOpScaling(RAW), SC.NoOpScaling(0), SC.SubtractScaling(1, RAW)], [L(RAW), SC.NoOpScaling(0)],
             [None], [SC.NoOpScaling(0)], [SC.NoOpScaling(1), SC.NoOpScaling(0)]]
    for g in fixed:
        for raw in nums + others + [TY.String, TY.TimeStamp, TY.DaqMxRawData, TY.Int32, TY.ComplexSingleFloat]:
            add_case(SC.MultiScaling(g), raw, None)
    cases = list(dict.fromkeys(cases))
    counts["get_dtype"] = len(cases)
    out.append("Definition st_get_dtype_cases : list (list (option scaling_py) * (ScaleDtype.xdt + Z) * option (list (Z * Z)) * res ScaleDtype.xdt) :=\n  [%s].\n"
               "Example st_get_dtype : forallb (fun c => let '(m, raw, sc, r) := c in st_res_eqb ScaleDtype.xdt_eqb (MultiScaling_get_dtype_top m raw sc) r) "
               "st_get_dtype_cases = true.\nProof. vm_compute. reflexivity. Qed.\n" % ";\n   ".join(cases))

    # ---- channels: real files and real TdmsChannel objects
    def P(i, suffix):
        return "NI_Scale[%d]_%s" % (i, suffix)
    lin = {"NI_Number_Of_Scales": 1, "NI_Scaling_Status": "unscaled", P(0, "Scale_Type"): "Linear", P(0, "Linear_Slope"): 2.0,
           P(0, "Linear_Y_Intercept"): 1.0}
    lin_noN = {k: v for k, v in lin.items() if k != "NI_Number_Of_Scales"}
    poly = {"NI_Number_Of_Scales": 1, "NI_Scaling_Status": "unscaled", P(0, "Scale_Type"): "Polynomial",
            P(0, "Polynomial_Coefficients_Size"): 2, P(0, "Polynomial_Coefficients[0]"): 1.0, P(0, "Polynomial_Coefficients[1]"): 2.0}
    table = {"NI_Number_Of_Scales": 1, "NI_Scaling_Status": "unscaled", P(0, "Scale_Type"): "Table",
             P(0, "Table_Pre_Scaled_Values_Size"): 2, P(0, "Table_Scaled_Values_Size"): 2,
             P(0, "Table_Pre_Scaled_Values[0]"): 0.0, P(0, "Table_Pre_Scaled_Values[1]"): 1.0,
             P(0, "Table_Scaled_Values[0]"): 1.0, P(0, "Table_Scaled_Values[1]"): 3.0}
    adv = {"NI_Number_Of_Scales": 1, "NI_Scaling_Status": "unscaled", P(0, "Scale_Type"): "AdvancedAPI"}
    addp = {"NI_Number_Of_Scales": 2, "NI_Scaling_Status": "unscaled", P(0, "Scale_Type"): "AdvancedAPI",
            P(1, "Scale_Type"): "Add", P(1, "Add_Left_Operand_Input_Source"): 0, P(1, "Add_Right_Operand_Input_Source"): RAW}
    subp = {"NI_Number_Of_Scales": 2, "NI_Scaling_Status": "unscaled", P(0, "Scale_Type"): "Linear", P(0, "Linear_Slope"): 2.0,
            P(0, "Linear_Y_Intercept"): 1.0, P(1, "Scale_Type"): "Subtract", P(1, "Subtract_Left_Operand_Input_Source"): 0,
            P(1, "Subtract_Right_Operand_Input_Source"): RAW}
    rtd = {"NI_Number_Of_Scales": 1, "NI_Scaling_Status": "unscaled", P(0, "Scale_Type"): "RTD", P(0, "RTD_Current_Excitation"): 0.001,
           P(0, "RTD_R0_Nominal_Resistance"): 100.0, P(0, "RTD_A"): 0.0039083, P(0, "RTD_B"): -5.775e-07, P(0, "RTD_C"): -4.183e-12,
           P(0, "RTD_Lead_Wire_Resistance"): 0.0, P(0, "RTD_Resistance_Configuration"): 3, P(0, "RTD_Input_Source"): RAW}
    tcp = {"NI_Number_Of_Scales": 1, "NI_Scaling_Status": "unscaled", P(0, "Scale_Type"): "Thermocouple",
           P(0, "Thermocouple_Thermocouple_Type"): 10073, P(0, "Thermocouple_Scaling_Direction"): 0}
    scaled_status = dict(lin, NI_Scaling_Status="scaled")
    unsupported = {"NI_Number_Of_Scales": 1, "NI_Scaling_Status": "unscaled", P(0, "Scale_Type"): "Mystery"}
    prop_sets = [{}, lin, lin_noN, poly, table, adv, addp, subp, rtd, tcp, scaled_status, unsupported]
    datas = [np.array([1, 2, 3], dtype=d) for d in ("int8", "int16", "int32", "int64", "uint8", "uint16", "uint32", "uint64",
                                                    "float32", "float64", "bool", "complex64", "complex128")]
    datas.append(np.array(["a", "bc"], dtype=object))
    datas.append(np.array(["2020-01-01T00:00:00", "2020-01-02T00:00:01"], dtype="datetime64[us]"))
    datas.append(np.array([], dtype="float32"))
    datas.append(np.array([], dtype="int16"))
    cases = []
    n_files = 0

    def chan_case(ch):
        sc = ch._scaling
        if sc is not None and unmodelled(sc, ch._raw_data_dtype(), ch.scaler_data_types):
            return
        scal = "None" if sc is None else "(Some %s)" % cmulti(sc)
        dt = copt(ch.data_type, ctype)
        cases.append("(%s, %s, %s, %s, %s, %s, %s, %s)" % (
            scal, dt, cbool(ch._raw_timestamps), cscalers(ch.scaler_data_types), cz(ch._length),
            observe(ch._raw_data_dtype, cxdt), observe(lambda: ch.dtype, cxdt), observe(lambda: len(ch), cz)))

    for pi, props in enumerate(prop_sets):
        for where in (("channel",) if pi == 0 else ("channel", "group", "root")):
            buf = io.BytesIO()
            with TdmsWriter(buf) as w:
                objs = [RootObject(props if where == "root" else {}), GroupObject("g", props if where == "group" else {})]
                for i, d in enumerate(datas):
                    objs.append(ChannelObject("g", "c%d" % i, d, props if where == "channel" else {}))
                objs.append(ChannelObject("g", "nodata", [], props if where == "channel" else {}))
                w.write_segment(objs)
            raw_bytes = buf.getvalue()
            for raw_ts in (False, True):
                for mode in ("read", "open"):
                    n_files += 1
                    bio = io.BytesIO(raw_bytes)
                    f = TdmsFile.read(bio, raw_timestamps=raw_ts) if mode == "read" else TdmsFile.open(bio, raw_timestamps=raw_ts)
                    for ch in f["g"].channels():
                        chan_case(ch)
                    f.close()
    # TdmsChannel objects of every class of nptdms.types (incl. those no writer produces), DAQmx raw data, no type
    for name in sorted(tds) + [None]:
        for raw_ts in (False, True):
            for props in ({}, lin, adv, addp, poly):
                for scalers in (None, {0: TY.Int16, 1: TY.Uint32}):
                    ch = TD.TdmsChannel(ObjectPath("g", "c"), None if name is None else getattr(TY, name), scalers, 5,
                                        props, {}, {}, None, raw_ts, None)
                    chan_case(ch)
    daq = {"NI_Number_Of_Scales": 3, "NI_Scaling_Status": "unscaled", P(2, "Scale_Type"): "Add",
           P(2, "Add_Left_Operand_Input_Source"): 0, P(2, "Add_Right_Operand_Input_Source"): 1}
    daq_lin = {"NI_Number_Of_Scales": 2, "NI_Scaling_Status": "unscaled", P(1, "Scale_Type"): "Linear", P(1, "Linear_Slope"): 2.0,
               P(1, "Linear_Y_Intercept"): 1.0, P(1, "Linear_Input_Source"): 0}
    for props in (daq, daq_lin):
        for scalers in ({0: TY.Int16, 1: TY.Uint16}, {0: TY.SingleFloat}, {1: TY.Int32}, None, {}):
            chan_case(TD.TdmsChannel(ObjectPath("g", "c"), TY.DaqMxRawData, scalers, 4, props, {}, {}, None, False, None))
    cases = list(dict.fromkeys(cases))
    counts["channel"] = len(cases)
    counts["files"] = n_files
    counts["skipped_unmodelled"] = skipped[0]
    out.append("Definition st_channel_cases : list (option (list (option scaling_py)) * option Z * bool * option (list (Z * Z)) * Z * "
               "res ScaleDtype.xdt * res ScaleDtype.xdt * res Z) :=\n  [%s].\n"
               "Example st_channel : forallb (fun c => let '(sc, dt, ts, sd, n, r1, r2, r3) := c in\n"
               "    st_res_eqb ScaleDtype.xdt_eqb (TdmsChannel_raw_data_dtype_gen dt ts) r1 &&\n"
               "    st_res_eqb ScaleDtype.xdt_eqb (TdmsChannel_dtype_gen sc dt ts sd) r2 &&\n"
               "    st_res_eqb Z.eqb (TdmsChannel_len_gen n) r3) st_channel_cases = true.\nProof. vm_compute. reflexivity. Qed.\n"
               % ";\n   ".join(cases))

    # ---- the read methods: which object comes back
    class StubScaling(object):
        """stands for a MultiScaling object: scale() hands back a marker"""
        def __init__(self, real):
            self.real = real
            self.marker = np.array([42.0])

        def scale(self, raw):
            return self.marker

        def get_dtype(self, a, b):
            return self.real.get_dtype(a, b)

    def cabs(raw):
        return "{| ar_has_data := %s; ar_scalers := %s |}" % (cbool(raw.data is not None),
                                                             copt(raw.scaler_data, lambda d: cbool(len(d) > 0)))

    def pyres(ch, raw):
        def enc(r):
            if ch._scaling is not None and r is ch._scaling.marker:
                return "PyScaled"
            if r is None:
                return "PyNoneVal"
            if raw is not None and r is raw.data:
                return "PyRawData"
            if raw is not None and r is raw.scaler_data:
                return "PyScalerDict"
            if isinstance(r, np.ndarray) and r.shape == (0,):
                return "(PyEmpty %s)" % cxdt(r.dtype)
            raise ValueError("unexpected result %r" % (r,))
        return enc

    raws = []
    for data in (None, np.array([1, 2], dtype="int16")):
        for sd in (None, {}, {0: np.array([1, 2], dtype="int16")}):
            raws.append(pytypes.SimpleNamespace(data=data, scaler_data=sd))
    cases_scale, cases_data, cases_read, cases_chunk = [], [], [], []
    for tname, raw_ts in (("Int16", False), ("TimeStamp", True), ("TimeStamp", False), ("String", False), ("DaqMxRawData", False),
                          (None, False), ("SingleFloat", False)):
        for props in ({}, lin, adv):
            for length in (0, 3):
                def mk():
                    ch = TD.TdmsChannel(ObjectPath("g", "c"), None if tname is None else getattr(TY, tname),
                                        {0: TY.Int16} if tname == "DaqMxRawData" else None, length, props, {}, {}, None, raw_ts, None)
                    real = ch._scaling
                    if real is not None:
                        ch._cached_prop__scaling = StubScaling(real)
                    return ch
                ch0 = mk()
                head = "%s, %s, %s, %s" % ("None" if ch0._scaling is None else "(Some %s)" % cmulti(ch0._scaling.real),
                                           copt(ch0.data_type, ctype), cbool(raw_ts), cscalers(ch0.scaler_data_types))
                for raw in raws:
                    ch = mk()
                    cases_scale.append("(%s, %s, %s)" % (head, cabs(raw), observe(lambda: ch._scale_data(raw), pyres(ch, raw))))
                    ch = mk()
                    cases_chunk.append("(%s, %s, %s)" % (head, cabs(raw),
                                                         observe(lambda: TD.ChannelDataChunk(ch, raw, 0)._data(), pyres(ch, raw))))
                for raw in [None] + raws:
                    ch = mk()
                    ch._raw_data = raw
                    cases_data.append("(%s, %s, %s, %s)" % (head, cz(length), copt(raw, cabs),
                                                            observe(lambda: ch.data, pyres(ch, raw))))
                    for got in [None] + raws[::2]:
                        for scaled in (True, False):
                            ch = mk()
                            ch._raw_data = raw
                            ch._read_channel_data = lambda offset, length_, got=got: got
                            seen = got if raw is None else raw          # slice_raw_data(raw, 0, None) is raw
                            cases_read.append("(%s, %s, %s, %s, %s)" % (
                                head, copt(raw, cabs), copt(got, cabs), cbool(scaled),
                                observe(lambda: ch.read_data(0, None, scaled), pyres(ch, seen))))
    cases_scale, cases_chunk, cases_data, cases_read = (list(dict.fromkeys(c)) for c in (cases_scale, cases_chunk, cases_data, cases_read))
    counts["scale_data"], counts["chunk_data"], counts["data"], counts["read_data"] = \
        len(cases_scale), len(cases_chunk), len(cases_data), len(cases_read)
    hd = "option (list (option scaling_py)) * option Z * bool * option (list (Z * Z))"
    out.append("Definition st_scale_data_cases : list (%s * absraw * res pyres) :=\n  [%s].\n"
               "Example st_scale_data : forallb (fun c => let '(sc, dt, ts, sd, raw, r) := c in\n"
               "    st_res_eqb st_pyres_eqb (TdmsChannel_scale_data_gen sc raw) r) st_scale_data_cases = true.\n"
               "Proof. vm_compute. reflexivity. Qed.\n" % (hd, ";\n   ".join(cases_scale)))
    out.append("Definition st_chunk_data_cases : list (%s * absraw * res pyres) :=\n  [%s].\n"
               "Example st_chunk_data : forallb (fun c => let '(sc, dt, ts, sd, raw, r) := c in\n"
               "    st_res_eqb st_pyres_eqb (ChannelDataChunk_data_gen raw sc dt ts sd) r) st_chunk_data_cases = true.\n"
               "Proof. vm_compute. reflexivity. Qed.\n" % (hd, ";\n   ".join(cases_chunk)))
    out.append("Definition st_data_cases : list (%s * Z * option absraw * res pyres) :=\n  [%s].\n"
               "Example st_data : forallb (fun c => let '(sc, dt, ts, sd, n, raw, r) := c in\n"
               "    st_res_eqb st_pyres_eqb (TdmsChannel_data_gen n raw sc dt ts sd) r) st_data_cases = true.\n"
               "Proof. vm_compute. reflexivity. Qed.\n" % (hd, ";\n   ".join(cases_data)))
    out.append("Definition st_read_data_cases : list (%s * option absraw * option absraw * bool * res pyres) :=\n  [%s].\n"
               "Example st_read_data : forallb (fun c => let '(sc, dt, ts, sd, raw, got, scaled, r) := c in\n"
               "    st_res_eqb st_pyres_eqb (TdmsChannel_read_data_gen raw sc dt ts sd (fun _ _ => Ok got) (fun r _ _ => Ok r) 0 None scaled) r)\n"
               "    st_read_data_cases = true.\nProof. vm_compute. reflexivity. Qed.\n" % (hd, ";\n   ".join(cases_read)))
    return "\n".join(out), counts
