"""Self-test for gen_pyfuncs_eagerloop.py: the REAL eager read path is run on real FILES (harness/tdmsgen.py random
files -- contiguous / interleaved, strings, timestamps, mixed byte orders, segments without metadata, cut inside the last
segment --, DAQmx files from harness/daqmxgen.py, hand-built files with a segment without kTocRawData and with a wrong
segment tag) and its observations are written as Gallina terms into `Example`s that vm_compute checks whenever the file is
built:
  reader     TdmsSegment._get_data_reader(): class, num_chunks, final_chunk_lengths_override, endianness -- and
             _have_interleaved_data(), _get_data_objects()
  segment    list(TdmsSegment.read_raw_data(f)): every chunk's dictionary in order, arrays with dtypes, f.tell() afterwards
  file       list(TdmsReader.read_raw_data()): the same for the whole file
  read_data  TdmsFile._read_data(reader) on a file opened with TdmsFile.open(.., raw_timestamps=True): every receiver in
             self._channel_data (class, arrays with dtypes, insert positions), what each channel got by _set_raw_data, the
             file position afterwards, or the exception class
"""
import io
import os
import random
import sys
import warnings

import chunkloops_common as C
from chunkloops_common import z, hx, clist

ST_PRELUDE = """\
(* ---- self test: results of the REAL code on real files ---- *)
Definition egl_zd_eqb {V} (eq : V -> V -> bool) (a b : list (Z * V)) : bool := drd_st_list (drd_st_pair Z.eqb eq) a b.
Definition egl_receiver_eqb (a b : receiver) : bool :=
  match a, b with
  | RList (d1, l1, s1), RList (d2, l2, s2) => drd_st_opt drd_npdtype_eqb d1 d2 && drd_st_list bytes_eqb l1 l2 && egl_zd_eqb drd_nparr_eqb s1 s2
  | RNumpy (p1, a1, s1, n1), RNumpy (p2, a2, s2, n2) => bytes_eqb p1 p2 && drd_nparr_eqb a1 a2 && egl_zd_eqb drd_nparr_eqb s1 s2 && (n1 =? n2)
  | RDaqmx (p1, s1, q1), RDaqmx (p2, s2, q2) => bytes_eqb p1 p2 && egl_zd_eqb drd_nparr_eqb s1 s2 && egl_zd_eqb Z.eqb q1 q2
  | RTimestamp (p1, r1, a1, s1, n1), RTimestamp (p2, r2, a2, s2, n2) =>
    bytes_eqb p1 p2 && Bool.eqb r1 r2 && drd_nparr_eqb a1 a2 && egl_zd_eqb drd_nparr_eqb s1 s2 && (n1 =? n2)
  | _, _ => false
  end.
Definition egl_sobj_path_eqb (a b : sobj) : bool := bytes_eqb (so_path a) (so_path b).
Definition egl_chunks_eqb := drd_st_list (drd_st_list (drd_st_pair bytes_eqb drd_rcdc_eqb)).
Definition egl_final_eqb := drd_st_opt (drd_st_list (drd_st_pair bytes_eqb Z.eqb)).
Definition egl_no_asdt (a : nparr) : res nparr := Err EFuel.    (* raw_timestamps=True: as_datetime64 is never called *)
"""


def example(name, ctype, cases, check, die, minimum=8, chunk=12):
    if len(cases) < minimum:
        die("self-test grid of %s is too small (%d cases)" % (name, len(cases)))
    out = []
    for k in range(0, len(cases), chunk):
        part = cases[k:k + chunk]
        nm = name if len(cases) <= chunk else "%s_%d" % (name, k // chunk)
        out.append("Definition egl_st_%s_cases : list (%s) :=\n  [%s].\n" % (nm, ctype, ";\n   ".join(part)))
        out.append("Example egl_st_%s : forallb %s egl_st_%s_cases = true.\nProof. vm_compute. reflexivity. Qed.\n" % (nm, check, nm))
    return "\n".join(out)


def selftest(repo, die):
    sys.path.insert(0, repo)
    sys.path.insert(0, C.harness_path())
    import numpy as np
    from nptdms import tdms_segment as TS, daqmx, types, channel_data
    from nptdms import TdmsFile
    import logging
    logging.disable(logging.CRITICAL)
    warnings.simplefilter("ignore")
    import tdmsgen as G
    import daqmxgen as D
    G.silence_logs()
    counts = {}
    CODES = {TS.ContiguousDataReader: 0, TS.InterleavedDataReader: 1, daqmx.DaqmxDataReader: 2}

    def arr(a):
        return C.arr_term(np.asarray(a))

    def zd(d_, f):
        return clist(["(%s, %s)" % (z(k), f(v)) for k, v in d_.items()])

    def cb(x):
        return "true" if x else "false"

    def recv(r):
        n = type(r).__name__
        if n == "ListDataReceiver":
            return "(RList (%s, %s, %s))" % (C.copt(r._dtype, C.S.dtype_term), clist([hx(x.encode()) for x in r._data]),
                                             zd(r.scaler_data, arr))
        if n == "NumpyDataReceiver":
            return "(RNumpy (%s, %s, %s, %s))" % (hx(r.path.encode()), arr(r.data), zd(r.scaler_data, arr), z(r._data_insert_position))
        if n == "DaqmxDataReceiver":
            if r.data is not None:
                die("self-test: DaqmxDataReceiver.data")
            return "(RDaqmx (%s, %s, %s))" % (hx(r.path.encode()), zd(r.scaler_data, arr), zd(r._scaler_insert_positions, z))
        if n == "TimestampDataReceiver":
            return "(RTimestamp (%s, %s, %s, %s, %s))" % (hx(r.path.encode()), cb(r._raw_timestamps), arr(r.data),
                                                           zd(r.scaler_data, arr), z(r._data_insert_position))
        die("self-test: receiver class %s" % n)

    def fin_term(fin):
        return "None" if fin is None else "(Some %s)" % clist(["(%s, %s)" % (hx(p.encode()), z(v)) for p, v in fin.items()])

    # ---- the files
    files = []
    rnd = random.Random(20261003)
    for i in range(34):
        segs = G.gen_file(rnd, G.GenParams(max_segs=3, max_groups=2, max_chans=3, max_vals=3, max_chunks=3))
        full = G.ser_file(segs)
        files.append(("gen", full))
        if i % 3 == 0 and len(segs[-1].data) > 1:
            files.append(("cut", full[:len(full) - rnd.randint(1, len(segs[-1].data) - 1)]))
    frnd = random.Random(992)
    n = 0
    while n < 8:
        widths, rows, chans = D.gen_daqmx_layout(frnd, one_buffer_per_channel=True)
        e = frnd.choice("<>")
        segs = []
        for si in range(frnd.randint(1, 2)):
            nchunks = frnd.randint(1, 2)
            cs = D.chunk_size(widths, rows)
            segs.append(G.Seg(e=e, toc=G.TOC_META | G.TOC_RAW | G.TOC_DAQMX | G.TOC_NEWLIST, entries=D.daqmx_entries(widths, chans, None),
                              data=bytes(frnd.randrange(256) for _ in range(cs * nchunks))))
        full = G.ser_file(segs)
        if len(full) > 900:
            continue
        n += 1
        files.append(("daqmx", full))
        if n % 3 == 0:
            files.append(("daqmx_cut", full[:len(full) - frnd.randint(1, max(1, len(segs[-1].data) - 1))]))
    # hand-built: a metadata-only segment (no kTocRawData) between two data segments; a property-only object
    I32 = 3
    ch = G.quote_path("g", "c")
    ent = [G.Entry(ch, ("full", 20, I32, 1, 2, None))]
    s1 = G.Seg(entries=ent, data=bytes(range(8)))
    s2 = G.Seg(toc=G.TOC_META | G.TOC_NEWLIST, entries=[G.Entry(G.quote_path("g"), None, [])], data=b"")
    s3 = G.Seg(toc=G.TOC_META | G.TOC_NEWLIST | G.TOC_RAW, entries=ent, data=bytes(range(16)))
    files.append(("no_raw_flag", G.ser_file([s1, s2, s3])))
    # no kTocRawData but objects with data in the inherited list: the empty chunk, THEN the (zero) chunks are read
    s2b = G.Seg(toc=G.TOC_META, entries=[], data=b"")
    files.append(("no_raw_flag_inherited", G.ser_file([s1, s2b])))

    rcases, scases, fcases, dcases = [], [], [], []
    for kind, data in files:
        try:
            rd, f = C.open_reader(data, repo)
        except Exception:                                           # noqa: BLE001
            continue
        counts[kind] = counts.get(kind, 0) + 1
        seg_terms = [C.segment_term(sg, die) for sg in rd._segments]
        # ---- reader objects
        for sg, st in zip(rd._segments, seg_terms):
            try:
                il = "Ok %s" % cb(sg._have_interleaved_data())
            except Exception as ex:                                 # noqa: BLE001
                il = "Err %s" % C.err_of(ex, die)
            try:
                r = sg._get_data_reader()
                if type(r) not in CODES:
                    die("self-test: reader class %r" % type(r))
                rt = "Ok (%d, %s, %s, %d)" % (CODES[type(r)], z(r.num_chunks), fin_term(r.final_chunk_lengths_override),
                                              {"<": 0, ">": 1}[r.endianness])
            except Exception as ex:                                 # noqa: BLE001
                rt = "Err %s" % C.err_of(ex, die)
            sg.data_objects_cached = None
            dobjs = clist([C.sobj_term(o, die) for o in sg._get_data_objects()])
            sg.data_objects_cached = None
            rcases.append("(%s, %s, %s, %s)" % (st, il, rt, dobjs))
        # ---- one segment
        for sg, st in zip(rd._segments, seg_terms):
            f.seek(rnd.randrange(len(data) + 1))
            try:
                chunks = list(sg.read_raw_data(f))
                res = "Ok (%s, %s)" % (clist([C.rawchunk_entries_term(c) for c in chunks]), z(f.tell()))
                counts["segment_chunks"] = counts.get("segment_chunks", 0) + len(chunks)
            except Exception as ex:                                 # noqa: BLE001
                res = "Err %s" % C.err_of(ex, die)
            scases.append("(%s, %s, %s)" % (st, hx(data), res))
        # ---- the whole file
        f.seek(0)
        try:
            chunks = list(rd.read_raw_data())
            res = "Ok (%s, %s)" % (clist([C.rawchunk_entries_term(c) for c in chunks]), z(f.tell()))
        except Exception as ex:                                     # noqa: BLE001
            res = "Err %s" % C.err_of(ex, die)
        fcases.append("(%s, %s, %s)" % (clist(seg_terms), hx(data), res))
        # a wrong tag at the start of the second segment
        if kind == "gen" and len(rd._segments) > 1 and len(fcases) % 4 == 0:
            p = rd._segments[1].position
            bad = data[:p] + b"TDSx" + data[p + 4:]
            rd._file = io.BytesIO(bad)
            try:
                chunks = list(rd.read_raw_data())
                res = "Ok (%s, %s)" % (clist([C.rawchunk_entries_term(c) for c in chunks]), z(rd._file.tell()))
            except Exception as ex:                                 # noqa: BLE001
                res = "Err %s" % C.err_of(ex, die)
                counts["bad_tag"] = counts.get("bad_tag", 0) + 1
            fcases.append("(%s, %s, %s)" % (clist(seg_terms), hx(bad), res))
        # ---- TdmsFile._read_data
        stream = io.BytesIO(data)
        try:
            tf = TdmsFile.open(stream, raw_timestamps=True)
        except Exception:                                           # noqa: BLE001
            continue
        groups = []
        for g in tf.groups():
            cs = []
            for c in g.channels():
                dt = None if c.data_type is None else c.data_type.enum_value
                sc = None if c.scaler_data_types is None else clist(
                    ["(%s, %s)" % (z(k), z(v.enum_value)) for k, v in c.scaler_data_types.items()])
                cs.append("(mkChan [] [] %s %s %s %s [])" % (hx(c.path.encode()), C.copt(dt, z), "None" if sc is None else "(Some %s)" % sc,
                                                            z(len(c))))
            groups.append(clist(cs))
        rdr = tf._reader
        segs2 = clist([C.segment_term(sg, die) for sg in rdr._segments])
        try:
            tf._read_data(rdr)
            cd = clist(["(%s, %s)" % (hx(p.encode()), "None" if r is None else "(Some %s)" % recv(r)) for p, r in tf._channel_data.items()])
            raw = clist(["(%s, %s)" % (hx(c.path.encode()), recv(c._raw_data)) for g in tf.groups() for c in g.channels()
                         if c._raw_data is not None])
            res = "Ok (%s, %s, %s, %s)" % (cd, raw, cb(tf.data_read), z(stream.tell()))
            counts["read_data_ok"] = counts.get("read_data_ok", 0) + 1
        except Exception as ex:                                     # noqa: BLE001
            res = "Err %s" % C.err_of(ex, die)
            counts["read_data_raise"] = counts.get("read_data_raise", 0) + 1
        dcases.append("(%s, %s, %s, %s)" % (clist(groups), segs2, hx(data), res))
        tf.close()

    out = [ST_PRELUDE]
    out.append(example(
        "reader", "segment * res bool * res (Z * Z * option (alist Z) * Z) * list sobj", rcases,
        "(fun '(sg, il, r, dobjs) => drd_st_res Bool.eqb (have_interleaved_data_gen sg) il\n"
        "      && drd_st_res (fun '(c1, n1, f1, e1) '(c2, n2, f2, e2) => (c1 =? c2) && (n1 =? n2) && egl_final_eqb f1 f2 && (e1 =? e2))\n"
        "                    (get_data_reader_gen sg) r\n"
        "      && drd_st_res (drd_st_list egl_sobj_path_eqb) (get_data_objects_gen sg) (Ok dobjs))", die, minimum=40, chunk=40))
    out.append(example(
        "segment", "segment * bytes * res (list (list (bytes * rcdc)) * Z)", scases,
        "(fun '(sg, data, r) => drd_st_res (drd_st_pair egl_chunks_eqb Z.eqb)\n"
        "      (drd_mapr (fun p => (map rdc_channel_data (fst p), pf_pos (snd p))) (segment_read_raw_data_gen sg (mkPf data 0))) r)",
        die, minimum=40))
    out.append(example(
        "file", "list segment * bytes * res (list (list (bytes * rcdc)) * Z)", fcases,
        "(fun '(segs, data, r) => drd_st_res (drd_st_pair egl_chunks_eqb Z.eqb)\n"
        "      (drd_mapr (fun p => (map rdc_channel_data (fst p), pf_pos (snd p))) (reader_read_raw_data_gen (Some segs) (mkPf data 0))) r)",
        die, minimum=30, chunk=8))
    out.append(example(
        "read_data", "list (list channel) * list segment * bytes * res (alist (option receiver) * alist receiver * bool * Z)", dcases,
        "(fun '(groups, segs, data, r) =>\n"
        "      drd_st_res (fun '(cd1, rd1, b1, p1) '(cd2, rd2, b2, p2) =>\n"
        "                    drd_st_list (drd_st_pair bytes_eqb (drd_st_opt egl_receiver_eqb)) cd1 cd2\n"
        "                    && drd_st_list (drd_st_pair bytes_eqb egl_receiver_eqb) rd1 rd2 && Bool.eqb b1 b2 && (p1 =? p2))\n"
        "      (drd_mapr (fun '(cd, rd, b, f) => (cd, rd, b, pf_pos f))\n"
        "                (tdmsfile_read_data_gen egl_no_asdt groups [] true false (Some segs) (mkPf data 0) tt)) r)",
        die, minimum=30, chunk=8))
    counts.update({"reader": len(rcases), "segment": len(scases), "file": len(fcases), "read_data": len(dcases)})
    return "\n".join(out), counts
