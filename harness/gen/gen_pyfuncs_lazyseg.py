#!/venv/bin/python
"""Fail-closed translator: the SEGMENT-LEVEL generator of the lazy per-channel read, on bytes
-> coq/theories/Gen/PyFuncsLazySeg.v (definitions + self-test `Example`s)

Translated with Python `ast` on top of gen_pyfuncs_eagerloop.py (its driver object -- reader dispatch, the decode and DAQmx
chunk readers -- is built IN THIS PROCESS by calling its translate(); nothing of harness/gen is modified; definitions the
other drivers emit are NOT re-emitted, the generated file imports them):

  nptdms/base_segment.py  BaseDataReader._read_channel_data_chunk AS INHERITED BY DaqmxDataReader (read the whole chunk,
                          pick the channel) and BaseDataReader.read_channel_data_chunks (the generator inlined below)
  nptdms/tdms_segment.py  TdmsSegment._read_channel_data_chunks (reader dispatch, file.tell(), the per-chunk reads through
                          the reader INTERLEAVED with the re-seek to initial_position + (i + 1) * chunk_size after every
                          yielded chunk) and TdmsSegment.read_raw_data_for_channel (the empty chunk without kTocRawData,
                          seek to data_position, the relative seek over chunk_offset chunks, stop_chunk, the delegation)

Conventions (in addition to those of gen_pyfuncs_eagerloop.py).
 * <reader>.read_channel_data_chunks(file, data_objects, channel_path, chunk_offset, stop_chunk): which method runs is
   REFLECTED per reader class, and whether it is a GENERATOR function (inspect.isgeneratorfunction):
     - InterleavedDataReader defines its own, an ordinary function returning a list: everything is read when it is
       called; the loop of _read_channel_data_chunks then runs over that list (variant L, the source as written);
     - ContiguousDataReader and DaqmxDataReader inherit BaseDataReader's generator
           for chunk_index in range(chunk_offset, stop_chunk):
               yield self._read_channel_data_chunk(file, data_objects, chunk_index, channel_path)
       whose steps run INTERLEAVED with the consumer's loop body.  For them the generator call is INLINED into the consumer
       loop (variant G):   for i, chunk in enumerate(GEN(..)): BODY
                     is    for i, chunk_index in enumerate(range(chunk_offset, stop_chunk)):
                               chunk = <reader>._read_channel_data_chunk(file, data_objects, chunk_index, channel_path); BODY
       (the loop header and the yielded expression are taken from BaseDataReader.read_channel_data_chunks' AST, its
       parameters replaced by the call's arguments; that the generator's body is exactly this one loop is checked).
 * <reader>._read_channel_data_chunk(..): ContiguousDataReader's own (PyFuncsDecode.v); DaqmxDataReader: BaseDataReader's
   over DaqmxDataReader._read_data_chunk (translated here); InterleavedDataReader: BaseDataReader's over its own
   _read_data_chunk, which only raises NotImplementedError (checked on the AST) -- never reached through variant L.
 * f.seek(d, os.SEEK_CUR) is f.seek(f.tell() + d).
 * The generators are read to their end: the list of yielded chunks and the file afterwards.

Self-test: `Example`s with the results of the REAL list(TdmsSegment.read_raw_data_for_channel(f, path, chunk_offset,
num_chunks)) on real FILES (harness/lazygen.py, tdmsgen.py, daqmxgen.py: contiguous with strings, interleaved, DAQmx,
segments cut inside the last chunk, every channel of every segment, several chunk ranges): the chunks (arrays with
dtypes / lists of str / scaler dictionaries) and f.tell() afterwards.

Anything unrecognised: message on stderr, exit 1, nothing written.
"""
import ast
import copy
import os
import sys

HERE = os.path.dirname(os.path.abspath(__file__))
sys.path.insert(0, HERE)
import py2gallina as T                                                      # noqa: E402
from py2gallina import Z, B, NONE, BYTES, OPT, LIST, TUP, REC               # noqa: E402
import decode_sem as S                                                      # noqa: E402
from decode_sem import SOBJ, ENDIAN, FILE, PFILE, RDC, RCDC                 # noqa: E402
import gen_pyfuncs_reader as R                                              # noqa: E402
import gen_pyfuncs_decode as GD                                             # noqa: E402
import gen_pyfuncs_daqmxloop as GL                                          # noqa: E402
import gen_pyfuncs_eagerloop as GE                                          # noqa: E402

VERIF = os.path.dirname(os.path.dirname(HERE))
REPO = os.environ.get("NPTDMS_REPO", "/repo")
OUT = os.path.join(VERIF, "coq", "theories", "Gen", "PyFuncsLazySeg.v")      # Gen/PyFuncsLazySeg.v
ME = "gen_pyfuncs_lazyseg"
unp = ast.unparse
SEGMENT, READER, CODES = GE.SEGMENT, GE.READER, GE.CODES


def die(msg):
    sys.stderr.write("%s: UNSUPPORTED / unrecognised source, nothing written: %s\n" % (ME, msg))
    sys.exit(1)


class Hooks:
    def __init__(self, d):
        self.d = d
        self.sem = d.sem
        d.sem.extra_calls.insert(0, self.calls)
        d.sem.extra_statements.insert(0, self.statements)

    def calls(self, e, env, h, cx):
        if "<lazyseg>" not in env:
            return None
        f = e.func
        sem = self.sem
        u = unp(e)
        if u == "self._get_data_reader()" and env.get("self", (None, None))[1] == SEGMENT:
            return sem.hoist(e, h, cx, "get_data_reader_gen %s" % env["self"][0]), READER
        if u == "self._get_data_objects()" and env.get("self", (None, None))[1] == SEGMENT:
            return sem.hoist(e, h, cx, "get_data_objects_gen %s" % env["self"][0]), LIST(SOBJ)
        if u == "self._get_chunk_size()" and env.get("self", (None, None))[1] == SEGMENT:
            return sem.hoist(e, h, cx, "get_chunk_size_gen %s" % env["self"][0]), Z
        if u == "RawChannelDataChunk.empty()":
            names, expr = self.d.inline.get(("RawChannelDataChunk", "empty"), (None, None))
            if names != [] or unp(expr) != "RawChannelDataChunk(None, None)":
                T.fail(e, "RawChannelDataChunk.empty() is not RawChannelDataChunk(None, None)")
            return "(mkRcdc None None)", RCDC
        # <reader>._read_channel_data_chunk(file, data_objects, chunk_index, channel_path)   (variant G)
        if isinstance(f, ast.Attribute) and f.attr == "_read_channel_data_chunk" and isinstance(f.value, ast.Name) \
                and f.value.id in env and env[f.value.id][1] == READER:
            ent = {"fn": "reader_read_channel_data_chunk_gen", "params": [("file", PFILE), ("data_objects", LIST(SOBJ)),
                                                                          ("chunk_index", Z), ("channel_path", BYTES)],
                   "rty": RCDC, "kind": "method", "defaults": {}}
            return sem.call_translated(e, ent, [env[f.value.id][0]], list(e.args), env, h, cx)
        # <reader>.read_channel_data_chunks(file, data_objects, channel_path, chunk_offset, stop_chunk)   (variant L)
        if isinstance(f, ast.Attribute) and f.attr == "read_channel_data_chunks" and isinstance(f.value, ast.Name) \
                and f.value.id in env and env[f.value.id][1] == READER:
            if "<variant L>" not in env:
                T.fail(e, "a generator's read_channel_data_chunks outside the inlined form")
            ent = {"fn": "reader_read_channel_data_chunks_list_gen",
                   "params": [("file", FILE), ("data_objects", LIST(SOBJ)), ("channel_path", BYTES), ("chunk_offset", Z), ("stop_chunk", Z)],
                   "rty": LIST(RCDC), "kind": "method", "defaults": {}}
            return sem.call_translated(e, ent, [env[f.value.id][0]], list(e.args), env, h, cx)
        # self._read_channel_data_chunks(f, objs, path, co, stop, chunk_size)
        if isinstance(f, ast.Attribute) and f.attr == "_read_channel_data_chunks" and unp(f.value) == "self" \
                and env.get("self", (None, None))[1] == SEGMENT:
            ent = {"fn": "segment_read_channel_data_chunks_gen",
                   "params": [("file", PFILE), ("data_objects", LIST(SOBJ)), ("channel_path", BYTES), ("chunk_offset", Z),
                              ("stop_chunk", Z), ("chunk_size", Z)],
                   "rty": LIST(RCDC), "kind": "method", "defaults": {}}
            return sem.call_translated(e, ent, [env["self"][0]], list(e.args), env, h, cx)
        if isinstance(f, ast.Name) and f.id == "int" and len(e.args) == 1 and not e.keywords:
            return sem.as_int(e.args[0], env, h, cx), Z
        return None

    def statements(self, s, rest, env, K, sc, cx):
        if "<lazyseg>" not in env:
            return None
        # f.seek(d, os.SEEK_CUR)
        if isinstance(s, ast.Expr) and isinstance(s.value, ast.Call) and isinstance(s.value.func, ast.Attribute) \
                and s.value.func.attr == "seek" and self.sem.file_of(s.value.func.value, env) and len(s.value.args) == 2 \
                and not s.value.keywords and unp(s.value.args[1]) == "os.SEEK_CUR":
            fk = self.sem.file_of(s.value.func.value, env)
            if env[fk][1] != PFILE:
                T.fail(s, "seek() on a sequential file")
            h = T.Hoist()
            p = self.sem.as_int(s.value.args[0], env, h, cx)
            return T.wrap(h.pre, "do %s <- pf_seek %s (pf_tell %s + %s);\n" % (env[fk][0], env[fk][0], env[fk][0], p)) \
                + T.block(rest, env, K, sc, cx)
        return None


def reader_facts(d):
    """reflection + AST facts about the reader classes' read_channel_data_chunks / _read_channel_data_chunk"""
    import inspect
    from nptdms import tdms_segment as TS_, base_segment as BS_
    base = BS_.BaseDataReader
    if not inspect.isgeneratorfunction(base.read_channel_data_chunks):
        die("BaseDataReader.read_channel_data_chunks is not a generator function")
    gen = {}
    for n in CODES:
        c = getattr(TS_, n)
        m = c.read_channel_data_chunks
        if m is base.read_channel_data_chunks:
            gen[n] = True
        elif "read_channel_data_chunks" in c.__dict__ and not inspect.isgeneratorfunction(m):
            gen[n] = False
        else:
            die("%s.read_channel_data_chunks: neither BaseDataReader's generator nor an ordinary function of the class" % n)
    if gen != {"ContiguousDataReader": True, "InterleavedDataReader": False, "DaqmxDataReader": True}:
        die("which reader classes read lazily has changed: %r" % gen)
    # _read_channel_data_chunk
    if "_read_channel_data_chunk" not in TS_.ContiguousDataReader.__dict__:
        die("ContiguousDataReader no longer defines _read_channel_data_chunk")
    for n in ("InterleavedDataReader", "DaqmxDataReader"):
        if getattr(TS_, n)._read_channel_data_chunk is not base._read_channel_data_chunk:
            die("%s._read_channel_data_chunk is not BaseDataReader's" % n)
    f, _ = GD.find(d.trees["tdms_segment.py"], "_read_data_chunk", "InterleavedDataReader")
    live = [s for s in f.body if not T.is_skip(s)]
    if len(live) != 1 or not isinstance(live[0], ast.Raise) or not unp(live[0]).startswith("raise NotImplementedError("):
        die("InterleavedDataReader._read_data_chunk does not simply raise NotImplementedError")
    # the base generator: exactly one loop that yields one call
    f, _ = GD.find(d.trees["base_segment.py"], "read_channel_data_chunks", "BaseDataReader")
    params = [a.arg for a in f.args.args]
    live = [s for s in f.body if not T.is_skip(s)]
    if params != ["self", "file", "data_objects", "channel_path", "chunk_offset", "stop_chunk"] or len(live) != 1 \
            or not isinstance(live[0], ast.For) or live[0].orelse or len(live[0].body) != 1 \
            or not (isinstance(live[0].body[0], ast.Expr) and isinstance(live[0].body[0].value, ast.Yield)
                    and live[0].body[0].value.value is not None) or not isinstance(live[0].target, ast.Name):
        die("BaseDataReader.read_channel_data_chunks is not a single loop yielding one expression")
    return params, live[0]


def inline_generator(f, gparams, gloop):
    """variant G of _read_channel_data_chunks: the base generator inlined into the consumer loop"""
    body = [s for s in f.body if not T.is_skip(s)]
    if not body or not isinstance(body[-1], ast.For) or any(isinstance(s, ast.For) for s in body[:-1]):
        die("_read_channel_data_chunks does not end with its single loop")
    loop = body[-1]
    it = loop.iter
    if not (isinstance(it, ast.Call) and isinstance(it.func, ast.Name) and it.func.id == "enumerate" and len(it.args) == 1
            and not it.keywords and isinstance(it.args[0], ast.Call) and isinstance(it.args[0].func, ast.Attribute)
            and it.args[0].func.attr == "read_channel_data_chunks" and isinstance(it.args[0].func.value, ast.Name)
            and not it.args[0].keywords and len(it.args[0].args) == len(gparams) - 1
            and isinstance(loop.target, ast.Tuple) and len(loop.target.elts) == 2
            and all(isinstance(x, ast.Name) for x in loop.target.elts)) or loop.orelse:
        die("_read_channel_data_chunks: the loop is not `for i, chunk in enumerate(<reader>.read_channel_data_chunks(..))`")
    call = it.args[0]
    rname = call.func.value.id
    for a in call.args:
        if not isinstance(a, ast.Name):
            die("_read_channel_data_chunks: an argument of read_channel_data_chunks is not a plain name")
    binding = dict(zip(gparams[1:], call.args))
    binding["self"] = ast.Name(id=rname, ctx=ast.Load())
    used = {n.id for n in ast.walk(f) if isinstance(n, ast.Name)}
    gt = gloop.target.id
    if gt in used:
        die("the generator's loop variable %s is also a name of _read_channel_data_chunks" % gt)

    class Sub(ast.NodeTransformer):
        def visit_Name(self, n):
            return copy.deepcopy(binding[n.id]) if n.id in binding and isinstance(n.ctx, ast.Load) else n
    giter = Sub().visit(copy.deepcopy(gloop.iter))
    gval = Sub().visit(copy.deepcopy(gloop.body[0].value.value))
    i_name, c_name = loop.target.elts[0].id, loop.target.elts[1].id
    new_loop = ast.For(target=ast.Tuple(elts=[ast.Name(id=i_name, ctx=ast.Store()), ast.Name(id=gt, ctx=ast.Store())], ctx=ast.Store()),
                       iter=ast.Call(func=ast.Name(id="enumerate", ctx=ast.Load()), args=[giter], keywords=[]),
                       body=[ast.Assign(targets=[ast.Name(id=c_name, ctx=ast.Store())], value=gval)] + list(loop.body), orelse=[])
    ast.copy_location(new_loop, loop)
    out = body[:-1] + [new_loop]
    ast.fix_missing_locations(ast.Module(body=out, type_ignores=[]))
    return out


def translate_lazyseg(d):
    cx = d.cx
    Hooks(d)
    cx.n_loop = 0
    gparams, gloop = reader_facts(d)
    GE.check_names(d.trees["tdms_segment.py"], [("TdmsSegment", "_read_channel_data_chunks"), ("TdmsSegment", "read_raw_data_for_channel")])
    GE.check_names(d.trees["base_segment.py"], [("BaseDataReader", "read_channel_data_chunks"), ("BaseDataReader", "_read_channel_data_chunk")])
    mark = {"<lazyseg>": ("tt", T.UNIT), "<eagerloop>": ("tt", T.UNIT)}

    # ---- BaseDataReader._read_channel_data_chunk as inherited by DaqmxDataReader
    ent = d.methods.get(("<daqmx>", "_read_data_chunk"))
    if ent is None:
        die("DaqmxDataReader._read_data_chunk has not been translated")
    d.methods[("<self>", "_read_data_chunk")] = dict(ent)
    S.set_self_args("_read_data_chunk", list(ent["self_args"]))
    try:
        d.fun("base_segment.py", "_read_channel_data_chunk", "BaseDataReader", "daqmx_read_channel_data_chunk_gen",
              [FILE, LIST(SOBJ), Z, BYTES], recv=GL.reader_attrs(), with_state=["file"],
              key=("<daqmx>", "_read_channel_data_chunk"),
              note="     (as inherited by DaqmxDataReader: self._read_data_chunk is DaqmxDataReader._read_data_chunk)\n")
    finally:
        del d.methods[("<self>", "_read_data_chunk")]
    ce = d.methods.get(("<contig>", "_read_channel_data_chunk"))
    ie = d.methods.get(("<interleaved>", "read_channel_data_chunks"))
    if ce is None or ie is None or ie["self_args"] != ["self.endianness"] \
            or ce["self_args"] != ["self.num_chunks", "self.final_chunk_lengths_override", "self.endianness"]:
        die("the contiguous / interleaved channel readers have not been translated as expected")
    cx.defs.append(
        "(* <reader>._read_channel_data_chunk(file, data_objects, chunk_index, channel_path): which class's method runs is REFLECTED\n"
        "   (Contiguous: its own; Daqmx: BaseDataReader's over DaqmxDataReader._read_data_chunk; Interleaved: BaseDataReader's over\n"
        "   its own _read_data_chunk, which raises NotImplementedError) *)\n"
        "Definition reader_read_channel_data_chunk_gen (reader : datareader) (file : posfile) (data_objects : list sobj) (chunk_index : Z)\n"
        "           (channel_path : bytes) : res (rcdc * posfile) :=\n"
        "  let '(code, nc, fin, flag) := reader in\n"
        "  if code =? %d then (* ContiguousDataReader *) %s nc fin (dr_endian flag) file data_objects chunk_index channel_path else\n"
        "  if code =? %d then (* DaqmxDataReader *)\n"
        "    pf_run (fun cur__ => daqmx_read_channel_data_chunk_gen nc fin (dr_endian flag) cur__ data_objects chunk_index channel_path) file else\n"
        "  if code =? %d then (* InterleavedDataReader *) Err ENotImpl else\n"
        "  Err EOther.\n"
        "(* <reader>.read_channel_data_chunks(..) of a reader class whose method is an ordinary function returning a list\n"
        "   (REFLECTED: InterleavedDataReader only) *)\n"
        "Definition reader_read_channel_data_chunks_list_gen (reader : datareader) (file : pyfile) (data_objects : list sobj)\n"
        "           (channel_path : bytes) (chunk_offset stop_chunk : Z) : res (list rcdc * pyfile) :=\n"
        "  let '(code, nc, fin, flag) := reader in\n"
        "  if code =? %d then (* InterleavedDataReader *) %s (dr_endian flag) file data_objects channel_path chunk_offset stop_chunk else\n"
        "  Err EOther."
        % (CODES["ContiguousDataReader"], ce["fn"], CODES["DaqmxDataReader"], CODES["InterleavedDataReader"],
           CODES["InterleavedDataReader"], ie["fn"]))

    # ---- TdmsSegment._read_channel_data_chunks: variants G and L, and the choice between them
    f, _ = GD.find(d.trees["tdms_segment.py"], "_read_channel_data_chunks", "TdmsSegment")
    seg = {"self": ("self", SEGMENT)}
    ptys = [PFILE, LIST(SOBJ), BYTES, Z, Z, Z]
    body_g = inline_generator(f, gparams, gloop)
    d.fun("tdms_segment.py", "_read_channel_data_chunks", "TdmsSegment", "segment_read_channel_data_chunks_lazy_gen", ptys,
          recv=dict(seg), outputs=["<yield>", "file"], extra_env=dict(mark, **{"<yield>": ("[]", LIST(None))}),
          stmts=lambda f_: body_g, key=("<segment>", "_read_channel_data_chunks G"),
          note="     (variant G, for a reader whose read_channel_data_chunks is BaseDataReader's generator -- inlined; source:\n%s)\n"
               % "\n".join("     " + l for s_ in f.body if not T.is_skip(s_) for l in unp(s_).split("\n")))
    d.fun("tdms_segment.py", "_read_channel_data_chunks", "TdmsSegment", "segment_read_channel_data_chunks_list_gen", ptys,
          recv=dict(seg), outputs=["<yield>", "file"],
          extra_env=dict(mark, **{"<yield>": ("[]", LIST(None)), "<variant L>": ("tt", T.UNIT)}),
          key=("<segment>", "_read_channel_data_chunks L"),
          note="     (variant L, for a reader whose read_channel_data_chunks returns a list: everything is read by the call)\n")
    cx.defs.append(
        "(* TdmsSegment._read_channel_data_chunks: variant L for the reader class whose read_channel_data_chunks is an ordinary\n"
        "   function (REFLECTED: InterleavedDataReader), variant G for those inheriting BaseDataReader's generator *)\n"
        "Definition segment_read_channel_data_chunks_gen (self : segment) (file : posfile) (data_objects : list sobj) (channel_path : bytes)\n"
        "           (chunk_offset stop_chunk chunk_size : Z) : res (list rcdc * posfile) :=\n"
        "  do reader <- get_data_reader_gen self;\n"
        "  let '(code, _, _, _) := reader in\n"
        "  if code =? %d then segment_read_channel_data_chunks_list_gen self file data_objects channel_path chunk_offset stop_chunk chunk_size\n"
        "  else segment_read_channel_data_chunks_lazy_gen self file data_objects channel_path chunk_offset stop_chunk chunk_size."
        % CODES["InterleavedDataReader"])

    # ---- TdmsSegment.read_raw_data_for_channel
    f, _ = GD.find(d.trees["tdms_segment.py"], "read_raw_data_for_channel", "TdmsSegment")
    if [unp(x) for x in f.args.defaults] != ["0", "None"]:
        die("defaults of TdmsSegment.read_raw_data_for_channel")
    d.fun("tdms_segment.py", "read_raw_data_for_channel", "TdmsSegment", "segment_read_raw_data_for_channel_gen",
          [PFILE, BYTES, Z, OPT(Z)], recv=dict(seg), filevars=("f",), outputs=["<yield>", "f"],
          defaults_ok=("chunk_offset", "num_chunks"),
          extra_env=dict(mark, **{"<yield>": ("[]", LIST(None))}), key=("<segment>", "read_raw_data_for_channel"),
          note="     (the generator read to its end: the yielded chunks and the file after them)\n")


def translate():
    GE.die = die
    GE.ME = ME
    d, _, _ = GE.translate()
    GL.die = die
    GD.die = die
    GD.ME = ME
    n0 = len(d.cx.defs)
    translate_lazyseg(d)
    return d, d.cx.defs[n0:]


def header():
    return ("(* GENERATED by harness/gen/gen_pyfuncs_lazyseg.py from nptdms/tdms_segment.py, base_segment.py -- do not edit.\n"
            "   The segment-level generator of the lazy per-channel read on bytes; see the script for the conventions. *)\n"
            "From Coq Require Import String Ascii.\n"
            "From Coq Require Import ZArith List Bool.\n"
            "From Coq Require Import Init.Byte.\n"
            "Import ListNotations.\n"
            "From NpTdms Require Import Base.Bytes Base.Res Base.PySlice Model.Tokens Model.SegState Model.Layout Model.Reader Gen.TypeTable\n"
            "     Gen.PyFuncsReader Gen.PyFuncsDecode Gen.PyFuncsDaqmxRead Gen.PyFuncsDaqmxLoop Gen.PyFuncsEagerLoop.\n"
            "Local Open Scope Z_scope.\n")


def main():
    try:
        d, defs = translate()
    except T.Unsupported as e:
        die(str(e))
    text = header() + "\n" + "\n\n".join(defs) + "\n"
    if "--stdout" in sys.argv:
        sys.stdout.write(text)
        return
    import lazyseg_selftest as ST
    st_text, counts = ST.selftest(REPO, die)
    GD.write_if_changed(OUT, text + "\n" + st_text)
    print("%s: %d definitions; self-test cases: %s" % (ME, len(defs), ", ".join("%s %d" % kv for kv in counts.items())))


if __name__ == "__main__":
    main()
