#!/venv/bin/python
"""Fail-closed translator: the arithmetic and the checks of npTDMS's raw data index parsing
-> coq/theories/Gen/PyFuncsIndex.v

Translated with Python `ast` (harness/gen/py2gallina.py + np_sem.py; nptdms is imported only
for the reflected tables and the self-test):

  nptdms/tdms_segment.py  TdmsSegmentObject.read_raw_data_index: the statements AFTER
                          `(data_type, dimension, number_values) = _struct_unpack(endianness + 'LLQ', ..)`
  nptdms/daqmx.py         DaqMxMetadata.__init__: the checks (dimension, one scaler of the channel's
                          type) with the scalers built by the translated scaler constructors;
                          DaqMxScaler.__init__ / DigitalLineScaler.__init__: the statement after the
                          unpack (DAQMX_TYPES lookup); DaqMxScaler.byte_offset,
                          DigitalLineScaler.byte_offset, DigitalLineScaler.postprocess_data (per element)

Conventions.
 * Reading from the file is NOT translated: the values a `f.read` + `_struct_unpack` (or
   types.Uint64.read) produces are PARAMETERS of the translated fragment; the driver checks the
   shape of those input statements (format string, byte count, targets) and that each read
   value is used for one call only.  The byte-level side is Model/Tokens.v parse_idx.
 * A TdmsType class is its enum_value; types.tds_data_types / DAQMX_TYPES / sizes are REFLECTED.
 * DaqMxMetadata: `self.scalers = [scaler_class(f, endianness) for _ in range(n)]` becomes the
   translated scaler constructor mapped over the list of raw scaler fields (Model/Tokens.v
   `scaler`); `_scaler_classes[scaler_type]` (a KeyError for an unknown header, excluded by the
   caller) and the reading of raw_data_widths are input statements.
 * postprocess_data is translated per element of `data`, an integer of NumPy dtype (width,
   signed): a Python int operand of np.bitwise_and / np.right_shift must fit that dtype
   (NumPy 2: OverflowError otherwise -> Err EOther).

Self-test: `Example`s with the results of the REAL code (real objects fed with real bytes).

Anything unrecognised: message on stderr, exit 1, nothing written.
"""
import ast
import io
import os
import struct
import sys
import warnings

HERE = os.path.dirname(os.path.abspath(__file__))
sys.path.insert(0, HERE)
import py2gallina as T                                             # noqa: E402
from py2gallina import Z, B, BYTES, OPT, LIST, TUP, REC             # noqa: E402
import np_sem as N                                                 # noqa: E402

VERIF = os.path.dirname(os.path.dirname(HERE))
REPO = os.environ.get("NPTDMS_REPO", "/repo")
OUT = os.path.join(VERIF, "coq", "theories", "Gen", "PyFuncsIndex.v")
ME = "gen_pyfuncs_index"

CLS = REC("cls")
SCALER, RSCALER = REC("scaler"), REC("rscaler")
ELEM = ("npelem", "data_w", "data_sg")       # an element of `data`: integer of dtype (data_w bytes, data_sg signed)

ATTR = {
    ("cls", "size"): ("idx_cls_size", OPT(Z), None),
    ("rscaler", "data_type"): ("rs_dtype", CLS, None),
}
CLASSES = ["String", "DaqMxRawData"]


def die(msg):
    sys.stderr.write("%s: UNSUPPORTED / unrecognised source, nothing written: %s\n" % (ME, msg))
    sys.exit(1)


def parse(fn):
    path = os.path.join(REPO, "nptdms", fn)
    try:
        src = open(path).read()
        return src, ast.parse(src)
    except (OSError, SyntaxError) as e:
        die("cannot read/parse %s: %s" % (path, e))


def find(tree, name, cls):
    cs = [n for n in tree.body if isinstance(n, ast.ClassDef) and n.name == cls]
    if len(cs) != 1:
        die("class %s not found" % cls)
    fs = [n for n in cs[0].body if isinstance(n, ast.FunctionDef) and n.name == name]
    if len(fs) != 1:
        die("expected exactly one def %s.%s" % (cls, name))
    f = fs[0]
    if f.decorator_list or f.args.vararg or f.args.kwarg or f.args.kwonlyargs or f.args.defaults:
        die("signature of %s.%s" % (cls, name))
    return f


def comment_of(fn, cls, f, stmts):
    txt = "\n".join(ast.unparse(s) for s in stmts if not T.is_skip(s))
    txt = txt.replace("(*", "( *").replace("*)", "* )")
    return "nptdms/%s: %s.%s (line %d)\n%s\n" % (fn, cls, f.name, f.lineno, "\n".join("     " + l for l in txt.split("\n")))


def load():
    sys.path.insert(0, REPO)
    import nptdms
    here = os.path.realpath(os.path.dirname(nptdms.__file__))
    if here != os.path.realpath(os.path.join(REPO, "nptdms")):
        die("nptdms imported from %s, expected %s/nptdms" % (here, REPO))


def read_unpack(body, where, reader, nbytes, fmt, targets):
    """check the two input statements  X = <reader>.read(n) ; (targets) = _struct_unpack(endianness + fmt, X)
    at the start of `body` (after a docstring); -> index of the first statement after them"""
    k = 1 if body and T.is_skip(body[0]) else 0
    a, b = body[k], body[k + 1]
    ok = (isinstance(a, ast.Assign) and len(a.targets) == 1 and isinstance(a.targets[0], ast.Name)
          and ast.unparse(a.value) == "%s.read(%d)" % (reader, nbytes)
          and isinstance(b, ast.Assign) and len(b.targets) == 1
          and ast.unparse(b.value) == "_struct_unpack(endianness + '%s', %s)" % (fmt, a.targets[0].id)
          and isinstance(b.targets[0], ast.Tuple) and [ast.unparse(t) for t in b.targets[0].elts] == targets
          and struct.calcsize("<" + fmt) == nbytes)
    if not ok:
        die("%s: the input statements (read %d bytes, unpack '%s' into %s) were not found" % (where, nbytes, fmt, targets))
    return k + 2


def reflect():
    load()
    from nptdms import types, daqmx
    rows = []
    for ev, c in types.tds_data_types.items():
        if type(ev) is not int or (c.size is not None and type(c.size) is not int):
            die("tds_data_types[%r]" % (ev,))
        rows.append((ev, c.size))
    enums = {}
    for n in CLASSES:
        c = getattr(types, n, None)
        if c is None or type(getattr(c, "enum_value", None)) is not int or types.tds_data_types.get(c.enum_value) is not c:
            die("types.%s" % n)
        enums[n] = c.enum_value
    dq = []
    for code, c in daqmx.DAQMX_TYPES.items():
        if type(code) is not int or types.tds_data_types.get(getattr(c, "enum_value", None)) is not c:
            die("DAQMX_TYPES[%r]" % (code,))
        dq.append((code, c.enum_value))
    kinds = {"FORMAT_CHANGING_SCALER": daqmx.FORMAT_CHANGING_SCALER, "DIGITAL_LINE_SCALER": daqmx.DIGITAL_LINE_SCALER}
    sc = daqmx._scaler_classes
    if set(sc) != set(kinds.values()) or sc[kinds["FORMAT_CHANGING_SCALER"]] is not daqmx.DaqMxScaler \
            or sc[kinds["DIGITAL_LINE_SCALER"]] is not daqmx.DigitalLineScaler:
        die("_scaler_classes")
    return rows, enums, dq, kinds


def translate():
    src_s, tree_s = parse("tdms_segment.py")
    src_d, tree_d = parse("daqmx.py")
    rows, enums, dq, kinds = reflect()
    cx = T.Cx(dict(ATTR), {}, {}, {})
    sem = N.NpSem()
    cx.np = sem
    cx.defs.append("(* REFLECTED: types.tds_data_types[ty] (a class is its enum value; None: KeyError) *)\n"
                   "Definition idx_tds_lookup (ty : Z) : option cls :=\n%s  None."
                   % "".join("  if ty =? %d then Some %d else\n" % (ev, ev) for ev, _ in rows))
    cx.defs.append("(* REFLECTED: <class>.size (None: size is None) *)\n"
                   "Definition idx_cls_size (c : cls) : option Z :=\n%s  None."
                   % "".join("  if c =? %d then %s else\n" % (ev, "None" if sz is None else "Some %d" % sz)
                             for ev, sz in rows))
    cx.defs.append("(* REFLECTED: daqmx.DAQMX_TYPES[code] (None: KeyError) *)\n"
                   "Definition idx_daqmx_types (code : Z) : option cls :=\n%s  None."
                   % "".join("  if code =? %d then Some %d else\n" % (c, ev) for c, ev in dq))
    for n in CLASSES:
        cx.defs.append("(* REFLECTED: nptdms.types.%s.enum_value *)\nDefinition idx_cls_%s : cls := %d." % (n, n, enums[n]))
    cx.defs.append("(* REFLECTED: daqmx.DIGITAL_LINE_SCALER (the key of DigitalLineScaler in _scaler_classes) *)\n"
                   "Definition idx_DIGITAL_LINE_SCALER : Z := %d." % kinds["DIGITAL_LINE_SCALER"])
    sigs, frags = {}, {}

    def cls_const(node):
        if isinstance(node, ast.Attribute) and isinstance(node.value, ast.Name) and node.value.id == "types" \
                and node.attr in CLASSES:
            return "idx_cls_%s" % node.attr
        return None

    def compare(e, env, h, cx_):
        if len(e.ops) != 1 or not isinstance(e.ops[0], (ast.Eq, ast.NotEq)):
            return None
        k = cls_const(e.comparators[0])
        lt, lty = T.ex(e.left, env, h, cx_)
        if k is None:
            if lty != CLS:
                return None if lty != OPT(CLS) else T.fail(e, "comparison of an optional class")
            k, kty = T.ex(e.comparators[0], env, h, cx_)
            if kty != CLS:
                T.fail(e, "comparison of a class with %r" % (kty,))
        if lty != CLS:
            T.fail(e, "comparison of %r with a class" % (lty,))
        c = "(%s =? %s)" % (lt, k)
        return ("(negb %s)" % c if isinstance(e.ops[0], ast.NotEq) else c), B

    def subscripts(e, env, h, cx_):
        v = ast.unparse(e.value)
        if v in ("types.tds_data_types", "DAQMX_TYPES"):
            if h is None:
                T.fail(e, "dict lookup (may raise) inside a short-circuit/lambda context")
            k = T.as_int(e.slice, env, h, cx_)
            t = cx_.tmp()
            h.pre.append((t, "need EKey (%s %s)" % ("idx_tds_lookup" if v == "types.tds_data_types" else "idx_daqmx_types", k)))
            return t, CLS
        return None

    def try_ok(s, env, cx_):
        # try: X = <dict>[k]  except KeyError: raise KeyError(..)   -- the lookup's own KeyError
        if s.orelse or s.finalbody or len(s.handlers) != 1 or len(s.body) != 1:
            return False
        hd = s.handlers[0]
        a = s.body[0]
        return (isinstance(hd.type, ast.Name) and hd.type.id == "KeyError" and len(hd.body) == 1
                and isinstance(hd.body[0], ast.Raise) and isinstance(hd.body[0].exc, ast.Call)
                and ast.unparse(hd.body[0].exc.func) == "KeyError"
                and isinstance(a, ast.Assign) and isinstance(a.value, ast.Subscript)
                and ast.unparse(a.value.value) == "types.tds_data_types")

    def calls(e, env, h, cx_):
        f = e.func
        if ast.unparse(f) == "types.Uint64.read" and [ast.unparse(a) for a in e.args] == ["f", "endianness"] \
                and "<next_u64>" in env:
            return env["<next_u64>"]
        if N.NpSem.is_np(f, "bitwise_and") and len(e.args) == 2 and not e.keywords:
            a, aty = T.ex(e.args[0], env, h, cx_)
            b = T.as_int(e.args[1], env, h, cx_)
            if aty[0] != "npelem":
                T.fail(e, "np.bitwise_and of %r" % (aty,))
            m = sem.hoist(e, h, cx_, "np_weak_int %s %s %s" % (aty[1], aty[2], b))
            return "(Z.land %s %s)" % (a, m), aty
        if N.NpSem.is_np(f, "right_shift") and len(e.args) == 2 and not e.keywords:
            a, aty = T.ex(e.args[0], env, h, cx_)
            b = T.as_int(e.args[1], env, h, cx_)
            if aty[0] != "npelem":
                T.fail(e, "np.right_shift of %r" % (aty,))
            m = sem.hoist(e, h, cx_, "np_weak_int %s %s %s" % (aty[1], aty[2], b))
            return "(Z.shiftr %s %s)" % (a, m), aty
        return None

    def statements(s, rest, env, K, sc, cx_):
        # self.scalers = [scaler_class(f, endianness) for _ in range(scaler_vector_length)]
        if isinstance(s, ast.Assign) and ast.unparse(s.targets[0]) == "self.scalers" \
                and ast.unparse(s.value) == "[scaler_class(f, endianness) for _ in range(scaler_vector_length)]" \
                and "<raw_scalers>" in env:
            env2 = dict(env)
            env2["self.scalers"] = ("self_scalers", LIST(RSCALER))
            return ("do self_scalers <- mapM (scaler_construct scaler_type) (firstn (Z.to_nat scaler_vector_length) %s);\n"
                    % env["<raw_scalers>"][0]) + T.block(rest, env2, K, sc, cx_)
        return None

    sem.extra_compare.append(compare)
    sem.extra_subscripts = [subscripts]
    sem.extra_try.append(try_ok)
    sem.extra_calls.append(calls)
    sem.extra_statements.append(statements)
    old_sub = sem.subscript

    def subscript(e, env, h, cx_):
        for fn in sem.extra_subscripts:
            r = fn(e, env, h, cx_)
            if r is not None:
                return r
        return old_sub(e, env, h, cx_)
    sem.subscript = subscript

    def fun(gen, stmts, params, env0, outputs, comment):
        rty = T.function(cx, gen, stmts, params, env0, outputs, comment)
        sigs[gen] = (params, rty)

    # ---- TdmsSegmentObject.read_raw_data_index
    f = find(tree_s, "read_raw_data_index", "TdmsSegmentObject")
    if [a.arg for a in f.args.args] != ["self", "f", "raw_data_index_header", "endianness"]:
        die("parameters of TdmsSegmentObject.read_raw_data_index")
    k = read_unpack(f.body, "TdmsSegmentObject.read_raw_data_index", "f", 16, "LLQ",
                    ["data_type", "dimension", "number_values"])
    frag = f.body[k:]
    reads = [n for s in frag for n in ast.walk(s) if isinstance(n, ast.Call) and isinstance(n.func, ast.Attribute)
             and n.func.attr in ("read", "read_values", "readinto", "seek")]
    if len(reads) != 1 or ast.unparse(reads[0]) != "types.Uint64.read(f, endianness)":
        die("read_raw_data_index: expected exactly one further read, types.Uint64.read(f, endianness)")
    for s in frag:
        for n in ast.walk(s):
            if isinstance(n, ast.Name) and isinstance(n.ctx, ast.Store):
                die("read_raw_data_index: local variable %s assigned after the unpack" % n.id)
    params = [("data_type", Z), ("dimension", Z), ("number_values", Z), ("next_u64", Z)]
    env0 = {n: (n, t) for n, t in params[:3]}
    env0["<next_u64>"] = ("next_u64", Z)
    fun("read_raw_data_index_gen", frag, params, env0, ["self.number_values", "self.data_type", "self.data_size"],
        comment_of("tdms_segment.py", "TdmsSegmentObject", f, frag))
    frags["read_raw_data_index_gen"] = frag

    # ---- scaler constructors: the statement(s) after the unpack
    for clsname, gen, nb, fmt, offname in (("DaqMxScaler", "daqmx_scaler_init_gen", 20, "LLLLL", "self.raw_byte_offset"),
                                           ("DigitalLineScaler", "digital_scaler_init_gen", 17, "LLLBL", "self.raw_bit_offset")):
        f = find(tree_d, "__init__", clsname)
        if [a.arg for a in f.args.args] != ["self", "open_file", "endianness"]:
            die("parameters of %s.__init__" % clsname)
        k = read_unpack(f.body, clsname + ".__init__", "open_file", nb, fmt,
                        ["data_type_code", "self.raw_buffer_index", offname, "self.sample_format_bitmap", "self.scale_id"])
        fun(gen, f.body[k:], [("data_type_code", Z)], {"data_type_code": ("data_type_code", Z)}, ["self.data_type"],
            comment_of("daqmx.py", clsname, f, f.body[k:]))
    cx.defs.append(SCALER_CONSTRUCT)

    # ---- DaqMxMetadata.__init__: the checks
    f = find(tree_d, "__init__", "DaqMxMetadata")
    if [a.arg for a in f.args.args] != ["self", "f", "endianness", "scaler_type", "channel_data_type"]:
        die("parameters of DaqMxMetadata.__init__")
    k = read_unpack(f.body, "DaqMxMetadata.__init__", "f", 16, "LQL", ["dimension", "self.chunk_size", "scaler_vector_length"])
    body = f.body[k:]
    i_cls = [i for i, s in enumerate(body) if ast.unparse(s) == "scaler_class = _scaler_classes[scaler_type]"]
    i_w = [i for i, s in enumerate(body) if ast.unparse(s) == "raw_data_widths_length = types.Uint32.read(f, endianness)"]
    if len(i_cls) != 1 or len(i_w) != 1 or i_w[0] != len(body) - 3 \
            or not ast.unparse(body[-2]).startswith("self.raw_data_widths = np.zeros(raw_data_widths_length") \
            or not isinstance(body[-1], ast.For) or ast.unparse(body[-1].iter) != "range(raw_data_widths_length)" \
            or ast.unparse(body[-1].body[0]) != "self.raw_data_widths[width_idx] = types.Uint32.read(f, endianness)":
        die("DaqMxMetadata.__init__: shape of the input statements (scaler class, raw data widths)")
    frag = [s for i, s in enumerate(body[:i_w[0]]) if i != i_cls[0]]
    params = [("dimension", Z), ("scaler_vector_length", Z), ("scaler_type", Z), ("raw_scalers", LIST(SCALER)),
              ("channel_data_type", CLS)]
    env0 = {n: (n, t) for n, t in params if n != "raw_scalers"}
    env0["<raw_scalers>"] = ("raw_scalers", LIST(SCALER))
    fun("daqmx_metadata_init_gen", frag, params, env0, ["self.scalers"], comment_of("daqmx.py", "DaqMxMetadata", f, frag))

    # ---- byte offsets and the digital line bit
    f = find(tree_d, "byte_offset", "DaqMxScaler")
    fun("daqmx_byte_offset_gen", f.body, [("self_raw_byte_offset", Z)], {"self.raw_byte_offset": ("self_raw_byte_offset", Z)},
        [], comment_of("daqmx.py", "DaqMxScaler", f, f.body))
    f = find(tree_d, "byte_offset", "DigitalLineScaler")
    fun("digital_byte_offset_gen", f.body, [("self_raw_bit_offset", Z)], {"self.raw_bit_offset": ("self_raw_bit_offset", Z)},
        [], comment_of("daqmx.py", "DigitalLineScaler", f, f.body))
    f = find(tree_d, "postprocess_data", "DigitalLineScaler")
    if [a.arg for a in f.args.args] != ["self", "data"]:
        die("parameters of DigitalLineScaler.postprocess_data")
    fun("digital_postprocess_gen", f.body, [("data_w", ("natw",)), ("data_sg", B), ("self_raw_bit_offset", Z), ("data", ELEM)],
        {"self.raw_bit_offset": ("self_raw_bit_offset", Z), "data": ("data", ELEM)}, [],
        comment_of("daqmx.py", "DigitalLineScaler", f, f.body))
    f = find(tree_d, "postprocess_data", "DaqMxScaler")
    fun("daqmx_postprocess_gen", f.body, [("data", Z)], {"data": ("data", Z)}, [],
        comment_of("daqmx.py", "DaqMxScaler", f, f.body))
    return cx, sigs, frags


SCALER_CONSTRUCT = """\
(* _scaler_classes[scaler_type](f, endianness): the constructor of the class registered for the header
   (REFLECTED: DIGITAL_LINE_SCALER -> DigitalLineScaler, FORMAT_CHANGING_SCALER -> DaqMxScaler), applied
   to the raw fields of one scaler *)
Definition scaler_construct (scaler_type : Z) (s : scaler) : res rscaler :=
  do dt <- (if scaler_type =? idx_DIGITAL_LINE_SCALER then digital_scaler_init_gen (sc_type s)
            else daqmx_scaler_init_gen (sc_type s));
  Ok (mkRscaler s dt)."""

PRELUDE = """\
(* ---- the primitives the translation relies on (fixed text) ---- *)
Definition need {A} (e : err) (o : option A) : res A :=
  match o with Some a => Ok a | None => Err e end.
Definition is_none {A} (o : option A) : bool :=
  match o with None => true | Some _ => false end.
(* a TdmsType class is represented by its enum_value *)
Definition cls := Z.
(* a constructed scaler object: its raw fields and its resolved data type *)
Record rscaler := mkRscaler { rs_raw : scaler; rs_dtype : cls }.
(* a Python int operand of a NumPy ufunc whose other operand has dtype (w bytes, signed): it must
   fit the dtype (NumPy 2 / NEP 50: OverflowError otherwise) *)
Definition np_weak_int (w : nat) (sg : bool) (v : Z) : res Z :=
  let m := 256 ^ Z.of_nat w in
  if sg then (if (- (m / 2) <=? v) && (v <? m / 2) then Ok v else Err EOther)
  else (if (0 <=? v) && (v <? m) then Ok v else Err EOther).
"""


def header():
    return ("(* GENERATED by harness/gen/gen_pyfuncs_index.py from nptdms/{tdms_segment,daqmx}.py -- do not edit.\n"
            "   Shallow monadic translation of the checks and the arithmetic of raw data index parsing; see the\n"
            "   script for what is a parameter (values read from the file) and the conventions. *)\n"
            "From Coq Require Import String.\n"
            "From Coq Require Import ZArith List Bool.\n"
            "Import ListNotations.\n"
            "From NpTdms Require Import Base.Bytes Base.Res Base.PySlice Model.Tokens.\n"
            "Local Open Scope Z_scope.\n\n")


# ---------------------------------------------------------------------------
# self-test

def z(n):
    n = int(n)
    return "%d" % n if n >= 0 else "(%d)" % n


def clist(items):
    return "[" + "; ".join(items) + "]"


ERR = {"ValueError": "EValue", "TypeError": "EType", "AttributeError": "EOther", "IndexError": "EIndex",
       "KeyError": "EKey", "OverflowError": "EOther", "error": "EStruct"}


def observe(fn, enc):
    with warnings.catch_warnings():
        warnings.simplefilter("ignore")
        try:
            r = fn()
        except Exception as e:                       # noqa: BLE001 - every class is mapped or fatal
            n = type(e).__name__
            if n not in ERR:
                raise
            return "Err %s" % ERR[n]
    return "Ok %s" % enc(r)


ST_PRELUDE = """\
(* ---- self test: results of the real code on real bytes ---- *)
Definition st_err (a b : err) : bool :=
  match a, b with
  | EEof, EEof | EValue, EValue | EKey, EKey | EStruct, EStruct | ENotImpl, ENotImpl | EIndex, EIndex
  | ERuntime, ERuntime | EType, EType | EOther, EOther | EFuel, EFuel => true
  | _, _ => false
  end.
Definition st_res {A} (eq : A -> A -> bool) (a b : res A) : bool :=
  match a, b with Ok x, Ok y => eq x y | Err x, Err y => st_err x y | _, _ => false end.
Fixpoint st_list {A} (eq : A -> A -> bool) (a b : list A) : bool :=
  match a, b with
  | [], [] => true
  | x :: a', y :: b' => eq x y && st_list eq a' b'
  | _, _ => false
  end.
Definition st_triple (a b : Z * Z * Z) : bool :=
  (fst (fst a) =? fst (fst b)) && (snd (fst a) =? snd (fst b)) && (snd a =? snd b).
"""


def example(name, ctype, cases, check):
    if len(cases) < 8:
        die("self-test grid of %s is too small (%d cases)" % (name, len(cases)))
    return ("Definition st_%s_cases : list (%s) :=\n  [%s].\n"
            "Example st_%s : forallb (%s) st_%s_cases = true.\nProof. vm_compute. reflexivity. Qed.\n"
            % (name, ctype, ";\n   ".join(cases), name, check, name))


def selftest():
    load()
    import logging
    logging.disable(logging.CRITICAL)
    import numpy as np
    from nptdms import types, daqmx
    from nptdms.tdms_segment import TdmsSegmentObject
    out, counts = [ST_PRELUDE], {}

    def run(name, ctype, cases, check):
        out.append(example(name, ctype, cases, check))
        counts[name] = len(cases)

    # --- read_raw_data_index: the real method on real bytes, both byte orders
    tys = [0, 1, 2, 3, 4, 5, 8, 9, 10, 11, 0x19, 0x1A, 0x1B, 0x20, 0x21, 0x44, 0x08000c, 0x10000d, 0xFFFFFFFF, 12, 0x45,
           0x1F, 2 ** 31]
    cases = []
    for ty in tys:
        for dim in (1, 0, 2):
            for n in (0, 1, 7, 2 ** 32, 2 ** 64 - 1):
                for tot in (0, 11, 2 ** 63):
                    if (dim != 1 and n not in (0, 7)) or (tot != 11 and n not in (1, 7)):
                        continue

                    def go(e):
                        o = TdmsSegmentObject("/'g'/'c'")
                        data = struct.pack(e + "LLQ", ty, dim, n) + struct.pack(e + "Q", tot)
                        o.read_raw_data_index(io.BytesIO(data), 20, e)
                        return (o.number_values, o.data_type.enum_value, o.data_size)
                    le = observe(lambda: go("<"), lambda r: "(%s, %s, %s)" % (z(r[0]), z(r[1]), z(r[2])))
                    be = observe(lambda: go(">"), lambda r: "(%s, %s, %s)" % (z(r[0]), z(r[1]), z(r[2])))
                    if le != be:
                        die("read_raw_data_index: the two byte orders disagree on %r" % ((ty, dim, n, tot),))
                    cases.append("(%s, %s, %s, %s, %s)" % (z(ty), z(dim), z(n), z(tot), le))
    run("read_raw_data_index", "Z * Z * Z * Z * res (Z * Z * Z)", cases,
        "fun '(ty, dim, n, tot, r) => st_res st_triple (read_raw_data_index_gen ty dim n tot) r")

    # --- scaler constructors and DaqMxMetadata.__init__ on real bytes
    codes = [0, 1, 2, 3, 4, 5, 6, 7, 8, 9, 10, 11, 0xFFFFFFFF, 0xFFFFFFFE, 2 ** 31]
    sc = []
    for c in codes:
        a = observe(lambda: daqmx.DaqMxScaler(io.BytesIO(struct.pack("<LLLLL", c, 1, 2, 3, 4)), "<").data_type.enum_value, z)
        b = observe(lambda: daqmx.DigitalLineScaler(io.BytesIO(struct.pack("<LLLBL", c, 1, 2, 3, 4)), "<").data_type.enum_value, z)
        sc.append("(%s, %s, %s)" % (z(c), a, b))
    run("scaler_init", "Z * res Z * res Z", sc,
        "fun '(c, a, b) => st_res Z.eqb (daqmx_scaler_init_gen c) a && st_res Z.eqb (digital_scaler_init_gen c) b")
    md = []
    scaler_lists = [[], [3], [5], [3, 5], [99], [5, 99], [99, 5], [0xFFFFFFFF], [7, 7, 7]]
    for kind, fmt in ((daqmx.FORMAT_CHANGING_SCALER, "LLLLL"), (daqmx.DIGITAL_LINE_SCALER, "LLLBL")):
        for dim in (1, 0, 2):
            for l in scaler_lists:
                for chan in (0xFFFFFFFF, 2, 3, 0x44, 0x20):
                    if dim != 1 and chan not in (0xFFFFFFFF, 3):
                        continue

                    def go():
                        data = struct.pack("<LQL", dim, 1000, len(l))
                        for i, c in enumerate(l):
                            data += struct.pack("<" + fmt, c, i, 2 * i, 7, 10 + i)
                        data += struct.pack("<LL", 1, 4)
                        m = daqmx.DaqMxMetadata(io.BytesIO(data), "<", kind, types.tds_data_types[chan])
                        return [(s.data_type.enum_value, s.raw_buffer_index,
                                 s.raw_byte_offset if kind == daqmx.FORMAT_CHANGING_SCALER else s.raw_bit_offset,
                                 s.sample_format_bitmap, s.scale_id) for s in m.scalers]
                    raw = clist(["mkScaler %s %d %d 7 %d" % (z(c), i, 2 * i, 10 + i) for i, c in enumerate(l)])
                    md.append("(%s, %s, %s, %s, %s)" % (z(dim), z(kind), raw, z(chan), observe(
                        go, lambda r: clist(["(%s, %s, %s, %s, %s)" % tuple(z(x) for x in t) for t in r]))))
    run("daqmx_metadata_init", "Z * Z * list scaler * Z * res (list (Z * Z * Z * Z * Z))", md,
        "fun '(dim, kind, raw, chan, r) => st_res (st_list (fun x y => "
        "let '(a1, a2, a3, a4, a5) := x in let '(b1, b2, b3, b4, b5) := y in "
        "(a1 =? b1) && (a2 =? b2) && (a3 =? b3) && (a4 =? b4) && (a5 =? b5))) "
        "(match daqmx_metadata_init_gen dim (Z.of_nat (length raw)) kind raw chan with\n"
        "     | Ok l => Ok (map (fun s => (rs_dtype s, sc_buf (rs_raw s), sc_off (rs_raw s), sc_fmt (rs_raw s), "
        "sc_id (rs_raw s))) l) | Err e => Err e end) r")

    # --- byte offsets and the digital line bit: the real methods on real arrays
    offs = [0, 1, 7, 8, 9, 15, 16, 23, 63, 64, 2 ** 32 - 1, 2 ** 32 - 8]
    bo = []
    for o in offs:
        s1 = object.__new__(daqmx.DaqMxScaler)
        s1.raw_byte_offset = o
        s2 = object.__new__(daqmx.DigitalLineScaler)
        s2.raw_bit_offset = o
        bo.append("(%s, %s, %s)" % (z(o), observe(s1.byte_offset, z), observe(s2.byte_offset, z)))
    run("byte_offset", "Z * res Z * res Z", bo,
        "fun '(o, a, b) => st_res Z.eqb (daqmx_byte_offset_gen o) a && st_res Z.eqb (digital_byte_offset_gen o) b")
    pp = []
    dts = [(np.uint8, 1, False), (np.int8, 1, True), (np.uint16, 2, False), (np.int16, 2, True), (np.uint32, 4, False),
           (np.int32, 4, True), (np.uint64, 8, False), (np.int64, 8, True)]
    for dtp, w, sg in dts:
        lo, hi = (-(2 ** (8 * w - 1)), 2 ** (8 * w - 1) - 1) if sg else (0, 2 ** (8 * w) - 1)
        vals = sorted(set([lo, hi, 0, 1, 5, 0x55 & hi, 0xAA & hi, 128 & hi, hi // 2 + 1 if not sg else -1, lo + 1]))
        for off in (0, 1, 3, 6, 7, 8, 15, 22, 2 ** 32 - 1):
            s2 = object.__new__(daqmx.DigitalLineScaler)
            s2.raw_bit_offset = off
            for v in vals:
                pp.append("(%d%%nat, %s, %s, %s, %s)" % (w, "true" if sg else "false", z(off), z(v), observe(
                    lambda: int(s2.postprocess_data(np.array([v], dtype=dtp))[0]), z)))
    run("digital_postprocess", "nat * bool * Z * Z * res Z", pp,
        "fun '(w, sg, off, v, r) => st_res Z.eqb (digital_postprocess_gen w sg off v) r")
    return "\n".join(out), counts


def write_if_changed(path, text):
    old = None
    try:
        old = open(path).read()
    except OSError:
        pass
    if old != text:
        os.makedirs(os.path.dirname(path), exist_ok=True)
        tmp = path + ".tmp.%d" % os.getpid()
        with open(tmp, "w") as fh:
            fh.write(text)
        os.replace(tmp, path)
        print("%s: wrote %s" % (ME, os.path.relpath(path, VERIF)))
    else:
        print("%s: %s up to date" % (ME, os.path.relpath(path, VERIF)))


def main():
    try:
        cx, sigs, frags = translate()
    except T.Unsupported as e:
        die(str(e))
    st_text, counts = selftest()
    text = header() + PRELUDE + "\n" + "\n\n".join(cx.defs) + "\n\n" + st_text
    write_if_changed(OUT, text)
    print("%s: %d functions translated; self-test cases: %s"
          % (ME, len(sigs), ", ".join("%s %d" % kv for kv in counts.items())))


if __name__ == "__main__":
    main()
