"""Self-test for gen_pyfuncs_daqmxloop.py: the REAL DaqmxDataReader.read_data_chunks (inherited loop) is run to exhaustion
(a) on hand-built segment objects (DaqmxSegmentObject.read_raw_data_index on real index bytes) and byte strings of every
length around the chunk boundaries, (b) on every DAQmx segment of real FILES built with harness/daqmxgen.py + tdmsgen.py:
the metadata is read by the real TdmsReader, the data objects are the real segment's, the reader object is the one the
real TdmsSegment._get_data_reader returns, the stream is positioned at the segment's data_position.  Inputs and observed
results (every chunk's dictionary in order, arrays with dtypes, the file position afterwards, the exception class) are
written as Gallina terms into `Example`s that vm_compute checks whenever the file is built.
"""
import io
import os
import random
import struct
import sys
import warnings

import chunkloops_common as C
from chunkloops_common import z, hx, clist

ST_PRELUDE = """\
(* ---- self test: results of the REAL code (DaqmxDataReader.read_data_chunks on io.BytesIO streams) ----
   (the comparison functions drd_st_* are those of Gen/PyFuncsDaqmxRead.v) *)
"""


def example(name, ctype, cases, check, die, minimum=8, chunk=40):
    if len(cases) < minimum:
        die("self-test grid of %s is too small (%d cases)" % (name, len(cases)))
    out = []
    for k in range(0, len(cases), chunk):
        part = cases[k:k + chunk]
        nm = name if len(cases) <= chunk else "%s_%d" % (name, k // chunk)
        out.append("Definition dql_st_%s_cases : list (%s) :=\n  [%s].\n" % (nm, ctype, ";\n   ".join(part)))
        out.append("Example dql_st_%s : forallb %s dql_st_%s_cases = true.\nProof. vm_compute. reflexivity. Qed.\n" % (nm, check, nm))
    return "\n".join(out)


CTYPE = "Z * option (alist Z) * endian * list sobj * Z * bytes * res (list (list (bytes * rcdc)) * bytes)"
CHECK = ("(fun '(nc0, fin, e, objs, nc, file, r) => drd_st_res (drd_st_pair (drd_st_list (drd_st_list (drd_st_pair bytes_eqb drd_rcdc_eqb))) bytes_eqb)\n"
         "      (drd_mapr (fun p => (map rdc_channel_data (fst p), snd p)) (daqmx_read_data_chunks_gen nc0 fin e file objs nc)) r)")


def selftest(repo, die):
    sys.path.insert(0, repo)
    sys.path.insert(0, C.harness_path())
    import numpy as np                                              # noqa: F401
    from nptdms import daqmx, types
    import logging
    logging.disable(logging.CRITICAL)
    warnings.simplefilter("ignore")
    FC, DL = daqmx.FORMAT_CHANGING_SCALER, daqmx.DIGITAL_LINE_SCALER
    rnd = random.Random(20261002)
    T_RAW = types.DaqMxRawData.enum_value
    counts = {}

    def mkobj(path, kind, dt, nvals, scalers, widths, endian):
        b = struct.pack(endian + "L", dt) + struct.pack(endian + "LQL", 1, nvals, len(scalers))
        for (code, buf, off, fmt, sid) in scalers:
            b += struct.pack(endian + ("LLLLL" if kind == FC else "LLLBL"), code, buf, off, fmt, sid)
        b += struct.pack(endian + "L", len(widths)) + b"".join(struct.pack(endian + "L", w) for w in widths)
        o = daqmx.DaqmxSegmentObject(path)
        f = io.BytesIO(b)
        o.read_raw_data_index(f, kind, endian)
        if f.tell() != len(b):
            die("self-test: index bytes not consumed")
        o.has_data = True
        return o

    def run(reader, objs, nc, data, start=0):
        f = io.BytesIO(data)
        f.seek(start)
        try:
            chunks = list(reader.read_data_chunks(f, objs, nc))
            res = "Ok (%s, %s)" % (clist([C.rawchunk_entries_term(c) for c in chunks]), hx(data[f.tell():]))
            counts["ok"] = counts.get("ok", 0) + 1
            counts["chunks"] = counts.get("chunks", 0) + len(chunks)
        except Exception as ex:                                     # noqa: BLE001
            res = "Err %s" % C.err_of(ex, die)
            counts["raise"] = counts.get("raise", 0) + 1
        return res

    def fin_term(fin):
        return "None" if fin is None else "(Some %s)" % clist(["(%s, %s)" % (hx(p.encode()), z(v)) for p, v in fin.items()])

    # ---- (a) hand-built objects: byte strings cut at every interesting length, several chunk counts
    I16, I32, U16, U8 = 3, 5, 2, 0
    configs = [
        [("/'g'/'a'", FC, T_RAW, 3, [(I16, 0, 0, 0, 0), (I32, 0, 2, 0, 1)], [6])],
        [("/'g'/'a'", FC, T_RAW, 3, [(I32, 0, 0, 0, 7)], [4, 2]), ("/'g'/'b'", FC, T_RAW, 2, [(U16, 1, 0, 0, 7)], [4, 2])],
        [("/'g'/'t'", FC, 2, 2, [(I16, 0, 2, 0, 0)], [4]), ("/'g'/'r'", FC, T_RAW, 2, [(I16, 0, 0, 0, 1)], [4])],
        [("/'g'/'d'", DL, T_RAW, 3, [(U8, 0, 0, 0, 0), (U8, 0, 7, 0, 1), (U8, 0, 9, 0, 2)], [2])],
        # a column outside the row: IndexError in the first chunk
        [("/'g'/'a'", FC, T_RAW, 2, [(I32, 0, 2, 0, 0)], [4])],
        # mismatching widths: ValueError from get_buffer_dimensions
        [("/'g'/'a'", FC, T_RAW, 2, [(U8, 0, 0, 0, 0)], [2]), ("/'g'/'b'", FC, T_RAW, 2, [(U8, 0, 0, 0, 0)], [3])],
        [],
    ]
    cases = []
    for cfg in configs:
        for endian in "<>":
            objs0 = [mkobj(*s, endian) for s in cfg]
            try:
                cs = sum(int(n) * int(w) for n, w in daqmx.get_buffer_dimensions(objs0))
            except Exception:                                       # noqa: BLE001
                cs = 4
            for nc in (0, 1, 2, 3):
                lens = sorted(set([0, cs * nc, cs * nc + 2] + ([cs * nc - 1, cs * (nc - 1) + cs // 2, cs * (nc - 1)] if nc > 0 and cs > 0 else [])))
                for ln in lens:
                    if ln < 0:
                        continue
                    data = bytes(rnd.randrange(256) for _ in range(ln))
                    objs = [mkobj(*s, endian) for s in cfg]
                    # the reader attributes the chunk reader must ignore: a num_chunks that differs from the argument,
                    # an override that says "no values"
                    nc0 = rnd.choice([nc, nc + 1, 1])
                    fin = rnd.choice([None, {}, {s[0]: 1 for s in cfg}])
                    reader = daqmx.DaqmxDataReader(nc0, fin, endian)
                    res = run(reader, objs, nc, data)
                    cases.append("(%s, %s, %s, %s, %s, %s, %s)" % (z(nc0), fin_term(fin), "LE" if endian == "<" else "BE",
                                                                   clist([C.sobj_term(o, die) for o in objs]), z(nc), hx(data), res))
    out = [ST_PRELUDE]
    out.append(example("objects", CTYPE, cases, CHECK, die, minimum=100))
    counts["hand_built"] = len(cases)

    # ---- (b) real files: every DAQmx segment of generated files, complete and cut inside the last segment
    import tdmsgen as G
    import daqmxgen as D
    G.silence_logs()
    fcases = []
    frnd = random.Random(991)
    nfiles = 0
    while len(fcases) < 36 and nfiles < 200:
        nfiles += 1
        widths, rows, chans = D.gen_daqmx_layout(frnd, one_buffer_per_channel=True)
        e = frnd.choice("<>")
        segs = []
        for si in range(frnd.randint(1, 2)):
            nchunks = frnd.randint(1, 3)
            toc = G.TOC_META | G.TOC_RAW | G.TOC_DAQMX | G.TOC_NEWLIST
            entries = D.daqmx_entries(widths, chans, None)
            cs = D.chunk_size(widths, rows)
            data = bytes(frnd.randrange(256) for _ in range(cs * nchunks))
            segs.append(G.Seg(e=e, toc=toc, entries=entries, data=data))
        full = G.ser_file(segs)
        cut = frnd.choice([0, 0, frnd.randint(1, max(1, len(segs[-1].data) - 1))])
        data = full[:len(full) - cut] if cut else full
        try:
            rd, f = C.open_reader(data, repo)
        except Exception:                                           # noqa: BLE001
            continue
        for seg in rd._segments:
            reader = seg._get_data_reader()
            if type(reader) is not daqmx.DaqmxDataReader:
                die("self-test: a DAQmx segment got a %s" % type(reader).__name__)
            dobjs = [o for o in seg.ordered_objects if o.has_data]
            tail = data[seg.data_position:]
            res = run(reader, dobjs, seg.num_chunks, data, start=seg.data_position)
            # the file position is compared through the bytes that remain
            fcases.append("(%s, %s, %s, %s, %s, %s, %s)" % (
                z(reader.num_chunks), fin_term(reader.final_chunk_lengths_override), "LE" if reader.endianness == "<" else "BE",
                clist([C.sobj_term(o, die) for o in dobjs]), z(seg.num_chunks), hx(tail), res))
    out.append(example("files", CTYPE, fcases, CHECK, die, minimum=30, chunk=12))
    counts["file_segments"] = len(fcases)
    return "\n".join(out), counts
