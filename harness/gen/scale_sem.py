"""Float / array / property-dictionary semantics for py2gallina: the extension used by
gen_pyfuncs_scaleeval.py, gen_pyfuncs_sensoreval.py and gen_pyfuncs_thermoeval.py (the scaling classes of
nptdms/scaling.py and the evaluation logic of nptdms/thermocouples.py).

Nothing in py2gallina.py / np_sem.py is edited: `install()` (called by a driver, in its own process) wraps
py2gallina.ex / coqty / join_ty so that the additional expression forms and types below are understood;
output of the other drivers is unaffected.

Types (next to Z, B, None, option, list, tuple of py2gallina):
  F64     a Python float / np.float64 scalar              : PrimFloat float (binary64; every operator is the
                                                            correctly rounded PrimFloat operation)
  CSTR    a Python str (ASCII)                            : Coq string
  PVAL    a TDMS property value of unknown Python type    : ScaleGraph.pval (PStr / PFloat / PInt)
  PDICT   a properties dictionary                         : ScaleGraph.props
  ARR     a NumPy array of any modelled dtype             : ScaleGraph.value
  FARR    a float64 1-D array                             : list float
  BARR    a boolean 1-D array                             : list bool
  DTYPE   a NumPy dtype                                   : NumpyPromote.dtype
  SCALERS raw_channel_data.scaler_data (dict id -> array) : list (nat * ScaleGraph.value)
  ZDICT t a dict literal with int keys                    : list (Z * t)
  PWFUN   an entry of np.piecewise's funclist             : pwfun (a function on float64 arrays or a scalar)

Conventions (every one is exercised against the real classes by the drivers' self-tests).
 * TYPED READS.  `properties[k]` / `properties.get(k, d)` yields a PVAL.  Where the value flows into a class
   attribute (or a `range(..)`, a size comparison) whose DECLARED Python type is float resp. int, the read is
   followed at once by the type test (py_float_of_pval / py_int_of_pval; a value of another Python type is
   outside the scope of the model: Err EOther, as ScaleGraph.get_float / get_int answer EUnmodelled).  Which
   read flows where is found by a dataflow pass over the function (infer_reads); a read whose use is not
   recognised stays a PVAL and any typed use of it then fails closed.
 * `try: <assignments> except E: <handler>`: E raised anywhere in the body is handled (py_catch, or a match on
   the body's result when the handler leaves the block with continue / return / raise).
 * string formatting `"..%d..%s.." % args` and `+` on str are compiled to concatenations (py_dec for %d).
 * float64 arrays are VALUES; an in-place statement (`x op= k`, `np.reciprocal(x, out=x)`) is accepted only on
   a variable that owns a fresh buffer (result of astype without copy=False, .copy(), an arithmetic result)
   and kills its aliases (check_inplace); in-place work on a parameter or on something that may alias it
   fails closed.
 * recursion: a method that calls itself is translated with the recursive call as a PARAMETER (open
   recursion); the knot is tied with a fuel argument by fixed text in the driver.
"""
import ast

import py2gallina as T
from py2gallina import Z, B, NONE, OPT, LIST, TUP, REC, fail, need, Hoist   # noqa: F401
import np_sem as N

F64 = ("f64",)
CSTR = ("cstr",)
PVAL = ("pval",)
PDICT = ("pdict",)
ARR = ("arr",)
FARR = ("farr",)
BARR = ("barr",)
DTYPE = ("npdtype",)
SCALERS = ("scalers",)
PWFUN = ("pwfun",)


def ZDICT(t):
    return ("zdict", t)


COQTY = {F64: "float", PVAL: "ScaleGraph.pval", PDICT: "ScaleGraph.props", ARR: "ScaleGraph.value",
         FARR: "(list float)", BARR: "(list bool)", DTYPE: "NumpyPromote.dtype", SCALERS: "(list (nat * ScaleGraph.value))",
         PWFUN: "pwfun"}

_ORIG = {}


def install():
    """wrap py2gallina.ex / coqty / join_ty (idempotent; this process only)"""
    if _ORIG:
        return
    _ORIG["ex"], _ORIG["coqty"], _ORIG["join_ty"] = T.ex, T.coqty, T.join_ty

    def coqty2(t):
        if t in COQTY:
            return COQTY[t]
        if t[0] == "zdict":
            return "(list (Z * %s))" % T.coqty(t[1])
        if t[0] == "fun":
            return "(" + " -> ".join(T.coqty(x) for x in t[1]) + " -> res %s)" % T.coqty(t[2])
        return _ORIG["coqty"](t)

    def ex2(e, env, h, cx):
        if isinstance(cx.np, ScaleSem):
            if h is not None:
                h.cx = cx
            r = cx.np.expr(e, env, h, cx)
            if r is not None:
                return r
        return _ORIG["ex"](e, env, h, cx)

    T.coqty, T.ex = coqty2, ex2


def fhex(v):
    """a Python float as a PrimFloat literal (exact: float.hex())"""
    if v != v:
        return "nan"
    if v in (float("inf"), float("-inf")):
        return "infinity" if v > 0 else "neg_infinity"
    s = float(v).hex()
    return "(%s)%%float" % s if s.startswith("-") else "%s%%float" % s


def cstr(s):
    return '"%s"%%string' % s.replace('"', '""')


def unp(n):
    return ast.unparse(n)


FOP = {ast.Add: "+", ast.Sub: "-", ast.Mult: "*", ast.Div: "/"}
FCMP = {ast.Lt: ("<?", False), ast.LtE: ("<=?", False), ast.Gt: ("<?", True), ast.GtE: ("<=?", True)}   # (op, swap)


def parse_format(node, fmt):
    """'a%db%sc' -> ['a', '%d', 'b', '%s', 'c'] (only %d and %s)"""
    out, cur, i = [], "", 0
    while i < len(fmt):
        if fmt[i] == "%":
            if i + 1 >= len(fmt) or fmt[i + 1] not in "ds":
                fail(node, "format directive (only %d and %s)")
            out.append(cur)
            out.append("%" + fmt[i + 1])
            cur = ""
            i += 2
        else:
            cur += fmt[i]
            i += 1
    out.append(cur)
    return out


class ScaleSem(N.NpSem):
    def __init__(self):
        super().__init__()
        self.read_types = {}        # id(properties read node) -> Z / F64 / PVAL (infer_reads)
        self.none_lists = {}        # variable -> element type T of `v = [None] * n` (a list of option T)
        self.extra_exprs = []       # driver rules: fn(e, env, h, cx) -> (term, type) | None
        self.float_funs = {}        # np function name -> Gallina function on float (Section variables: exp, log)
        self.np_alias = ("np",)

    # ---- helpers ------------------------------------------------------------------------------------------
    def pdict_of(self, e, env):
        k = T.key_of(e)
        return env[k][0] if k in env and env[k][1] == PDICT else None

    def npname(self, f):
        """np.X / np.polynomial.polynomial.X / poly.X -> 'X' ('polynomial.X' for the polynomial module)"""
        s = unp(f)
        for pre in ("np.polynomial.polynomial.", "poly."):
            if s.startswith(pre):
                return "polynomial." + s[len(pre):]
        if s.startswith("np.") and s.count(".") == 1:
            return s[3:]
        return None

    def const_dtype(self, e):
        """np.dtype('float64') / np.double / np.float64 -> NumpyPromote constructor"""
        s = unp(e)
        if s in ("np.dtype('float64')", "np.double", "np.float64"):
            return "Float64"
        if s == "np.dtype('complex128')":
            return "Complex128"
        return None

    def as_f64(self, e, env, h, cx):
        t, ty = T.ex(e, env, h, cx)
        if ty == PVAL:      # a dynamically typed attribute used as a number
            return self.hoist(e, h, cx, "py_float_of_pval %s" % t)
        if ty != F64:
            fail(e, "float expected, found %r" % (ty,))
        return t

    def fmap(self, body, arr):
        return "(List.map (fun x__ => (%s)%%float) %s)" % (body, arr)

    # ---- expressions the core does not know ------------------------------------------------------------------
    def expr(self, e, env, h, cx):
        for fn in self.extra_exprs:
            r = fn(e, env, h, cx)
            if r is not None:
                return r
        if isinstance(e, ast.Constant) and type(e.value) is float:
            return fhex(e.value), F64
        if isinstance(e, ast.Attribute):
            dotted = unp(e)
            if dotted in env:                       # narrowed `obj.attr` / a class constant
                return env[dotted]
            if dotted in cx.globals:
                return cx.globals[dotted]
            if dotted == "np.nan":
                return "nan", F64
            if e.attr == "dtype":
                t, ty = T.ex(e.value, env, h, cx)
                if ty == ARR:
                    return "(ScaleGraph.dtype_of %s)" % t, DTYPE
                fail(e, ".dtype of %r" % (ty,))
            return None
        if isinstance(e, ast.UnaryOp) and isinstance(e.op, ast.USub):
            t, ty = T.ex(e.operand, env, h, cx)
            if ty == PVAL:
                t, ty = self.hoist(e, h, cx, "py_float_of_pval %s" % t), F64
            if ty == F64:
                return "(- %s)%%float" % t, F64
            if ty == Z:
                return "(- %s)" % t, Z
            fail(e, "unary minus of %r" % (ty,))
        if isinstance(e, ast.BinOp) and isinstance(e.op, ast.Mod) and isinstance(e.left, ast.Constant) \
                and isinstance(e.left.value, str):
            args = e.right.elts if isinstance(e.right, ast.Tuple) else [e.right]
            parts = parse_format(e, e.left.value)
            if (len(parts) - 1) // 2 != len(args):
                fail(e, "number of format arguments")
            out = []
            for i, p in enumerate(parts):
                if i % 2 == 0:
                    if p:
                        if not (p.isascii() and p.isprintable()):
                            fail(e, "format text")
                        out.append(cstr(p))
                else:
                    t, ty = T.ex(args[i // 2], env, h, cx)
                    if p == "%d" and ty == Z:
                        out.append("py_dec %s" % t)
                    elif p == "%s" and ty == CSTR:
                        out.append(t)
                    else:
                        fail(e, "format %s of %r" % (p, ty))
            return "(" + " ++ ".join(out) + ")%string", CSTR
        if isinstance(e, ast.BinOp) and isinstance(e.op, ast.Pow):
            if isinstance(e.right, ast.Constant) and e.right.value == 2 and type(e.right.value) is int:
                t, ty = T.ex(e.left, env, h, cx)
                if ty == PVAL:
                    t, ty = self.hoist(e, h, cx, "py_float_of_pval %s" % t), F64
                if ty == F64:
                    if "pow2" not in self.float_funs:
                        fail(e, "float ** 2 (libm pow: no model declared)")
                    return "(%s %s)" % (self.float_funs["pow2"], t), F64
            return None
        if isinstance(e, ast.ListComp):
            if len(e.generators) != 1 or e.generators[0].ifs or e.generators[0].is_async:
                return None
            g = e.generators[0]
            it, ity = T.ex(g.iter, env, h, cx)
            if ity[0] != "list":
                return None
            pat, binds = T.pattern(g.target, ity[1], e)
            inner = dict(env)
            inner.update(binds)
            snap = cx.snapshot()
            h2 = Hoist()
            t, ty = T.ex(e.elt, inner, h2, cx)
            if not h2.pre:
                cx.restore(snap)
                return None                              # pure: List.map (core)
            body = T.wrap(h2.pre, "Ok %s" % t).replace("\n", " ")
            return self.hoist(e, h, cx, "mapM %s %s" % (T.lam(pat, body), it)), LIST(ty)
        if isinstance(e, ast.Dict) and e.keys and all(isinstance(k, ast.Constant) and type(k.value) is int for k in e.keys):
            vals = [T.ex(v, env, h, cx) for v in e.values]
            vty = vals[0][1]
            if any(ty != vty for _, ty in vals):
                fail(e, "dict literal with values of different types")
            return "[" + "; ".join("(%d, %s)" % (k.value, t) for k, (t, _) in zip(e.keys, vals)) + "]", ZDICT(vty)
        if isinstance(e, ast.Lambda):
            a = e.args
            if len(a.args) != 1 or a.vararg or a.kwarg or a.kwonlyargs or a.defaults:
                fail(e, "lambda (one positional parameter only)")
            n = T.cname(a.args[0].arg)
            inner = dict(env)
            inner[a.args[0].arg] = (n, FARR)
            h2 = Hoist()
            t, ty = T.ex(e.body, inner, h2, cx)
            if ty != FARR:
                fail(e, "lambda on arrays returning %r" % (ty,))
            return "(PwFun (fun %s => %s))" % (n, T.wrap(h2.pre, "Ok %s" % t).replace("\n", " ")), PWFUN
        return None

    # ---- binary operators --------------------------------------------------------------------------------------
    def binop(self, e, lt, lty, rt, rty, h, cx):
        op = type(e.op)
        if lty == CSTR and rty == CSTR and op is ast.Add:
            return "(%s ++ %s)%%string" % (lt, rt), CSTR
        if lty == PVAL and rty in (F64, FARR, PVAL):
            lt, lty = self.hoist(e, h, cx, "py_float_of_pval %s" % lt), F64
        if rty == PVAL and lty in (F64, FARR):
            rt, rty = self.hoist(e, h, cx, "py_float_of_pval %s" % rt), F64
        if op in FOP:
            o = FOP[op]
            if lty == F64 and rty == F64:
                return "(%s %s %s)%%float" % (lt, o, rt), F64
            if lty == FARR and rty == F64:
                return self.fmap("x__ %s %s" % (o, rt), lt), FARR
            if lty == F64 and rty == FARR:
                return self.fmap("%s %s x__" % (lt, o), rt), FARR
            if lty == FARR and rty == FARR:
                return self.hoist(e, h, cx, "np_fzip (fun x__ y__ => (x__ %s y__)%%float) %s %s" % (o, lt, rt)), FARR
            names = {ast.Add: "add", ast.Sub: "sub", ast.Mult: "mul", ast.Div: "div"}
            if lty == ARR and rty == F64:
                return self.hoist(e, h, cx, "np_%s_k %s %s" % (names[op], lt, rt)), ARR
            if lty == F64 and rty == ARR:
                return self.hoist(e, h, cx, "np_k_%s %s %s" % (names[op], lt, rt)), ARR
            if lty == ARR and rty == ARR and op in (ast.Add, ast.Sub):
                return self.hoist(e, h, cx, "np_%s %s %s" % (names[op], lt, rt)), ARR
        if op is ast.BitAnd and lty == BARR and rty == BARR:
            return self.hoist(e, h, cx, "np_bzip andb %s %s" % (lt, rt)), BARR
        fail(e, "operator on %r and %r" % (lty, rty))

    # ---- comparisons ----------------------------------------------------------------------------------------------
    def compare(self, e, env, h, cx):
        r = super().compare(e, env, h, cx)
        if r is not None or len(e.ops) != 1:
            return r
        op = e.ops[0]
        if isinstance(op, (ast.In, ast.NotIn)):
            p = self.pdict_of(e.comparators[0], env)
            if p is not None:
                k, kty = T.ex(e.left, env, h, cx)
                if kty != CSTR:
                    fail(e, "membership of %r in properties" % (kty,))
                c = "(negb (is_none (ScaleGraph.pget %s %s)))" % (k, p)
                return ("(negb %s)" % c if isinstance(op, ast.NotIn) else c), B
            if isinstance(e.comparators[0], ast.Tuple):        # x in (A, B): x == A or x == B
                parts = []
                for alt in e.comparators[0].elts:
                    c2 = ast.Compare(left=e.left, ops=[ast.Eq()], comparators=[alt])
                    ast.copy_location(c2, e)
                    parts.append(T.ex(c2, env, None, cx)[0])
                c = "(" + " || ".join(parts) + ")"
                return ("(negb %s)" % c if isinstance(op, ast.NotIn) else c), B
            return None
        a, aty = T.ex(e.left, env, h, cx)
        b, bty = T.ex(e.comparators[0], env, h, cx)

        def fconst(t, ty, node):        # an int literal compared with floats is that float
            if ty == Z and isinstance(node, ast.Constant):
                return fhex(float(node.value)), F64
            return t, ty
        if isinstance(op, (ast.Eq, ast.NotEq)):
            neg = isinstance(op, ast.NotEq)
            c = None
            if aty == PVAL and bty == CSTR:
                c = "(pval_eq_str %s %s)" % (a, b)
            elif aty == PVAL and bty == Z:
                c = "(pval_eq_int %s %s)" % (a, b)
            elif aty == PVAL and bty == F64:
                c = "(pval_eq_float %s %s)" % (a, b)
            elif aty == F64 and bty == F64:
                c = "(%s =? %s)%%float" % (a, b)
            elif aty == OPT(F64) and bty == F64:                 # None == x is False
                c = "(match %s with Some v__ => (v__ =? %s)%%float | None => false end)" % (a, b)
            elif aty == OPT(F64) and bty == NONE:                # x == None (a variable that is None so far)
                c = "(is_none %s)" % a
            if c is None:
                return None
            return ("(negb %s)" % c if neg else c), B
        if type(op) in FCMP:
            o, swap = FCMP[type(op)]
            a, aty = fconst(a, aty, e.left)
            b, bty = fconst(b, bty, e.comparators[0])
            if aty == OPT(F64) and bty in (F64, FARR):           # None < x : TypeError
                a, aty = need(a, aty, "float", "EType", h, e)
            if bty == OPT(F64) and aty in (F64, FARR):
                b, bty = need(b, bty, "float", "EType", h, e)
            if aty == PVAL and bty in (F64, FARR):
                a, aty = self.hoist(e, h, cx, "py_float_of_pval %s" % a), F64
            if bty == PVAL and aty in (F64, FARR):
                b, bty = self.hoist(e, h, cx, "py_float_of_pval %s" % b), F64
            if aty == F64 and bty == F64:
                return ("(%s %s %s)%%float" % ((b, o, a) if swap else (a, o, b))), B
            if aty == FARR and bty == F64:
                return ("(List.map (fun x__ => (%s %s %s)%%float) %s)" % ((b, o, "x__", a) if swap else ("x__", o, b, a))), BARR
            if aty == F64 and bty == FARR:
                return ("(List.map (fun x__ => (%s %s %s)%%float) %s)" % (("x__", o, a, b) if swap else (a, o, "x__", b))), BARR
            if aty == FARR and bty == FARR:
                f = "(fun x__ y__ => (%s %s %s)%%float)" % (("y__", o, "x__") if swap else ("x__", o, "y__"))
                return self.hoist(e, h, cx, "np_fzip_b %s %s %s" % (f, a, b)), BARR
        return None

    # ---- subscripts --------------------------------------------------------------------------------------------------
    def typed_read(self, node, v, h, cx):
        want = self.read_types.get(id(node), PVAL)
        if want == Z:
            return self.hoist(node, h, cx, "py_int_of_pval %s" % v), Z
        if want == F64:
            return self.hoist(node, h, cx, "py_float_of_pval %s" % v), F64
        return v, PVAL

    def subscript(self, e, env, h, cx):
        p = self.pdict_of(e.value, env)
        if p is not None:
            k, kty = T.ex(e.slice, env, h, cx)
            if kty != CSTR:
                fail(e, "properties[%r]" % (kty,))
            v = self.hoist(e, h, cx, "need EKey (ScaleGraph.pget %s %s)" % (k, p))
            return self.typed_read(e, v, h, cx)
        if isinstance(e.slice, ast.Slice):
            return super().subscript(e, env, h, cx)
        bt, bty = T.ex(e.value, env, h, cx)
        if bty[0] == "zdict":
            k = T.as_int(e.slice, env, h, cx)
            return self.hoist(e, h, cx, "need EKey (py_zdict_get %s %s)" % (bt, k)), bty[1]
        if bty == SCALERS:
            k = T.as_int(e.slice, env, h, cx)
            return self.hoist(e, h, cx, "need EKey (py_scaler_get %s %s)" % (bt, k)), ARR
        if bty == FARR:
            k = T.as_int(e.slice, env, h, cx)
            return self.hoist(e, h, cx, "py_index %s %s" % (bt, k)), F64
        return super().subscript(e, env, h, cx)

    # ---- calls -------------------------------------------------------------------------------------------------------------
    def call(self, e, env, h, cx):
        for fn in self.extra_calls:
            r = fn(e, env, h, cx)
            if r is not None:
                return r
        f = e.func
        kw = {k.arg: k.value for k in e.keywords}
        name = f.id if isinstance(f, ast.Name) else None
        # properties.get(k, default)
        if isinstance(f, ast.Attribute) and f.attr == "get" and len(e.args) == 2 and not kw and self.pdict_of(f.value, env):
            p = self.pdict_of(f.value, env)
            k, kty = T.ex(e.args[0], env, h, cx)
            d, dty = T.ex(e.args[1], env, h, cx)
            if kty != CSTR:
                fail(e, "properties.get(%r, ..)" % (kty,))
            want = self.read_types.get(id(e), PVAL)
            if want == Z and dty == Z:
                return self.hoist(e, h, cx, "py_get_int %s %s %s" % (k, p, d)), Z
            if want == PVAL and dty in (CSTR, Z):
                return "(match ScaleGraph.pget %s %s with Some v__ => v__ | None => ScaleGraph.%s %s end)" \
                    % (k, p, "PStr" if dty == CSTR else "PInt", d), PVAL
            fail(e, "properties.get with a default of type %r read as %r" % (dty, want))
        if name == "len" and len(e.args) == 1 and not kw:
            t, ty = T.ex(e.args[0], env, h, cx)
            if ty == ARR:
                return "(Z.of_nat (ScaleGraph.vlen %s))" % t, Z
            if ty in (FARR, BARR):
                return "(Z.of_nat (List.length %s))" % t, Z
            return None
        if name == "hasattr" and len(e.args) == 2 and not kw and isinstance(e.args[1], ast.Constant) \
                and isinstance(e.args[1].value, str):
            t, ty = T.ex(e.args[0], env, h, cx)
            ent = getattr(cx, "hasattr_table", {}).get((ty[1] if ty[0] == "rec" else None, e.args[1].value))
            if ent is None:
                fail(e, "hasattr test not in the table")
            return ent % t, B
        # X.astype(D[, copy=False]) / X.copy()
        if isinstance(f, ast.Attribute) and f.attr == "astype" and len(e.args) == 1 and set(kw) <= {"copy"}:
            if "copy" in kw and not (isinstance(kw["copy"], ast.Constant) and kw["copy"].value is False):
                fail(e, "astype(copy=..)")
            t, ty = T.ex(f.value, env, h, cx)
            d = self.const_dtype(e.args[0])
            if d == "Float64" and ty == ARR:
                return "(ScaleGraph.astype_f64 %s)" % t, FARR
            if d == "Float64" and ty == FARR:
                return t, FARR
            if ty == ARR:
                dt, dty = T.ex(e.args[0], env, h, cx)
                if dty != DTYPE:
                    fail(e, "astype(%r)" % (dty,))
                return self.hoist(e, h, cx, "np_astype %s %s" % (t, dt)), ARR
            fail(e, "astype of %r" % (ty,))
        if isinstance(f, ast.Attribute) and f.attr == "copy" and not e.args and not kw:
            t, ty = T.ex(f.value, env, h, cx)
            if ty in (FARR, ARR):
                return t, ty
            fail(e, ".copy() of %r" % (ty,))
        np_ = self.npname(f)
        if np_ is None:
            return None
        if np_ == "dtype" and len(e.args) == 1 and not kw and self.const_dtype(e):
            return self.const_dtype(e), DTYPE
        if np_ == "issubdtype" and len(e.args) == 2 and not kw and unp(e.args[1]) == "np.complexfloating":
            t, ty = T.ex(e.args[0], env, h, cx)
            if ty != DTYPE:
                fail(e, "np.issubdtype of %r" % (ty,))
            return "(is_complexfloating %s)" % t, B
        if np_ == "zeros" and len(e.args) == 1 and set(kw) == {"dtype"} and self.const_dtype(kw["dtype"]) == "Float64":
            n = T.as_int(e.args[0], env, h, cx)
            return "(List.repeat 0%%float (Z.to_nat %s))" % n, FARR
        if np_ == "polynomial.polyval" and len(e.args) == 2 and not kw:
            x, xty = T.ex(e.args[0], env, h, cx)
            c, cty = T.ex(e.args[1], env, h, cx)
            if xty != FARR or cty not in (LIST(F64), FARR):
                fail(e, "polyval(%r, %r)" % (xty, cty))
            return self.hoist(e, h, cx, "np_polyval %s %s" % (x, c)), FARR
        if np_ == "interp" and len(e.args) == 3 and not kw:
            x, xty = T.ex(e.args[0], env, h, cx)
            xp, xpty = T.ex(e.args[1], env, h, cx)
            fp, fpty = T.ex(e.args[2], env, h, cx)
            if xty == FARR:
                x, xty = "(ScaleGraph.VD %s)" % x, ARR
            if xty != ARR or xpty != FARR or fpty != FARR:
                fail(e, "np.interp(%r, %r, %r)" % (xty, xpty, fpty))
            return self.hoist(e, h, cx, "np_interp %s %s %s" % (x, xp, fp)), FARR
        if np_ == "array" and len(e.args) == 1 and not kw:
            t, ty = T.ex(e.args[0], env, h, cx)
            if ty != LIST(F64):
                fail(e, "np.array of %r (a list of Python floats only)" % (ty,))
            return t, FARR
        if np_ in ("diff", "flip", "all", "any", "logical_not", "reciprocal", "square", "sqrt", "exp", "log") \
                and len(e.args) == 1 and not kw:
            t, ty = T.ex(e.args[0], env, h, cx)
            if np_ == "diff" and ty == FARR:
                return "(np_diff %s)" % t, FARR
            if np_ == "flip" and ty == FARR:
                return "(List.rev %s)" % t, FARR
            if np_ == "all" and ty == BARR:
                return "(List.forallb (fun b__ => b__) %s)" % t, B
            if np_ == "any" and ty == BARR:
                return "(List.existsb (fun b__ => b__) %s)" % t, B
            if np_ == "logical_not" and ty == BARR:
                return "(List.map negb %s)" % t, BARR
            if np_ == "reciprocal" and ty == FARR:
                return self.fmap("1 / x__", t), FARR
            if np_ == "square" and ty == FARR:
                return self.fmap("x__ * x__", t), FARR
            if np_ == "sqrt" and ty == FARR:
                return "(List.map PrimFloat.sqrt %s)" % t, FARR
            if np_ in ("exp", "log") and ty == FARR and np_ in self.float_funs:
                return "(List.map %s %s)" % (self.float_funs[np_], t), FARR
            fail(e, "np.%s of %r" % (np_, ty))
        if np_ == "piecewise" and len(e.args) == 3 and not kw:
            x, xty = T.ex(e.args[0], env, h, cx)
            c, cty = T.ex(e.args[1], env, h, cx)
            fs, fty = self.funclist(e.args[2], env, h, cx)
            if xty != FARR or cty != LIST(BARR) or fty != LIST(PWFUN):
                fail(e, "np.piecewise(%r, %r, %r)" % (xty, cty, fty))
            return self.hoist(e, h, cx, "np_piecewise %s %s %s" % (x, c, fs)), FARR
        fail(e, "unsupported NumPy call")

    def funclist(self, node, env, h, cx):
        """the funclist argument of np.piecewise: a list variable, or a literal of lambdas / scalars"""
        if isinstance(node, ast.List):
            parts = []
            for x in node.elts:
                t, ty = T.ex(x, env, h, cx)
                parts.append(self.as_pwfun(x, t, ty))
            return "[" + "; ".join(parts) + "]", LIST(PWFUN)
        return T.ex(node, env, h, cx)

    @staticmethod
    def as_pwfun(node, t, ty):
        if ty == PWFUN:
            return t
        if ty == F64:
            return "(PwConst %s)" % t
        fail(node, "funclist entry of type %r" % (ty,))

    def list_literal(self, e, env, h, cx):
        # [attr, attr, 0.0, attr]: a list of numbers, the dynamically typed ones used as floats
        snap, mark = cx.snapshot(), (len(h.pre) if h is not None else 0)
        parts = [T.ex(x, env, h, cx) for x in e.elts]
        tys = {ty for _, ty in parts}
        if tys <= {PVAL, F64} and F64 in tys and PVAL in tys:
            out = [t if ty == F64 else self.hoist(x, h, cx, "py_float_of_pval %s" % t) for x, (t, ty) in zip(e.elts, parts)]
            return "[" + "; ".join(out) + "]", LIST(F64)
        cx.restore(snap)
        if h is not None:
            del h.pre[mark:]
        return None

    # ---- statements ------------------------------------------------------------------------------------------------------------
    def statement(self, s, rest, env, K, sc, cx):
        r = super().statement(s, rest, env, K, sc, cx)
        if r is not None:
            return r
        if isinstance(s, ast.Try):
            return self.try_stmt(s, rest, env, K, sc, cx)
        if isinstance(s, ast.Assign) and len(s.targets) == 1:
            tgt = s.targets[0]
            # v = [None] * n   (a list that is filled with objects later)
            if isinstance(tgt, ast.Name) and tgt.id in self.none_lists and isinstance(s.value, ast.BinOp) \
                    and isinstance(s.value.op, ast.Mult) and unp(s.value.left) == "[None]":
                h = Hoist()
                h.cx = cx
                n = T.as_int(s.value.right, env, h, cx)
                env2 = dict(env)
                env2[tgt.id] = (T.cname(tgt.id), LIST(OPT(self.none_lists[tgt.id])))
                return T.wrap(h.pre, "let %s := (List.repeat None (Z.to_nat %s)) in\n" % (T.cname(tgt.id), n)) \
                    + T.block(rest, env2, K, sc, cx)
            # l[i] = x  where l is a list of option T and x a T
            if isinstance(tgt, ast.Subscript) and T.key_of(tgt.value) in env:
                d, dty = env[T.key_of(tgt.value)]
                if dty[0] == "list" and dty[1] is not None and dty[1][0] == "opt":
                    h = Hoist()
                    h.cx = cx
                    t, ty = T.ex(s.value, env, h, cx)
                    if ty != dty[1][1]:
                        return None
                    i = T.as_int(tgt.slice, env, h, cx)
                    n = T.cname(T.key_of(tgt.value))
                    env2 = dict(env)
                    env2[T.key_of(tgt.value)] = (n, dty)
                    return T.wrap(h.pre, "do %s <- py_setitem %s %s (Some %s);\n" % (n, d, i, t)) + T.block(rest, env2, K, sc, cx)
            # v = l ; v.append(x) handled by the core.  functions.append(np.nan): coerced below
        if isinstance(s, ast.Expr) and isinstance(s.value, ast.Call) and isinstance(s.value.func, ast.Attribute) \
                and s.value.func.attr == "append" and len(s.value.args) == 1 and not s.value.keywords:
            k = T.key_of(s.value.func.value)
            if k in env and env[k][1] == LIST(PWFUN):
                h = Hoist()
                h.cx = cx
                t, ty = T.ex(s.value.args[0], env, h, cx)
                env2 = dict(env)
                env2[k] = (T.cname(k), LIST(PWFUN))
                return T.wrap(h.pre, "let %s := (%s ++ [%s])%%list in\n" % (T.cname(k), env[k][0], self.as_pwfun(s, t, ty))) \
                    + T.block(rest, env2, K, sc, cx)
        # if OBJ.attr is None: <raise/return>      (OBJ.attr is narrowed in what follows)
        if isinstance(s, ast.If) and not s.orelse and T.terminates(s.body):
            nt = T.none_test(s.test)
            if nt is not None and not nt[1] and isinstance(nt[0], ast.Attribute) and isinstance(nt[0].value, ast.Name) \
                    and nt[0].value.id in env and unp(nt[0]) not in env:
                h = Hoist()
                h.cx = cx
                t, ty = T.ex(nt[0], env, h, cx)
                if ty[0] == "opt" and not h.pre:
                    n = T.cname(unp(nt[0]))
                    env2 = dict(env)
                    env2[unp(nt[0])] = (n, ty[1])
                    return "match %s with\n| None =>\n%s\n| Some %s =>\n%s\nend" % (
                        t, T.ind(T.block(s.body, env, K, sc, cx)), n, T.ind(T.block(rest, env2, K, sc, cx)))
        # in-place float64 array statements (ownership checked by check_inplace)
        if isinstance(s, ast.AugAssign) and isinstance(s.target, ast.Name) and s.target.id in env \
                and env[s.target.id][1] == FARR and type(s.op) in FOP:
            h = Hoist()
            h.cx = cx
            x = env[s.target.id][0]
            t, ty = T.ex(s.value, env, h, cx)
            if ty == PVAL:
                t, ty = self.hoist(s, h, cx, "py_float_of_pval %s" % t), F64
            n = T.cname(s.target.id)
            env2 = dict(env)
            env2[s.target.id] = (n, FARR)
            if ty == F64:
                return T.wrap(h.pre, "let %s := %s in\n" % (n, self.fmap("x__ %s %s" % (FOP[type(s.op)], t), x))) \
                    + T.block(rest, env2, K, sc, cx)
            if ty == FARR:
                return T.wrap(h.pre, "do %s <- np_fzip (fun x__ y__ => (x__ %s y__)%%float) %s %s;\n"
                              % (n, FOP[type(s.op)], x, t)) + T.block(rest, env2, K, sc, cx)
            fail(s, "in-place operation with %r" % (ty,))
        if isinstance(s, ast.Expr) and isinstance(s.value, ast.Call) and self.npname(s.value.func) == "reciprocal" \
                and len(s.value.args) == 1 and [k.arg for k in s.value.keywords] == ["out"] \
                and isinstance(s.value.args[0], ast.Name) and unp(s.value.keywords[0].value) == s.value.args[0].id \
                and s.value.args[0].id in env and env[s.value.args[0].id][1] == FARR:
            v = s.value.args[0].id
            n = T.cname(v)
            env2 = dict(env)
            env2[v] = (n, FARR)
            return "let %s := %s in\n" % (n, self.fmap("1 / x__", env[v][0])) + T.block(rest, env2, K, sc, cx)
        return None

    def try_stmt(self, s, rest, env, K, sc, cx):
        if s.orelse or s.finalbody or len(s.handlers) != 1 or not isinstance(s.handlers[0].type, ast.Name) \
                or s.handlers[0].type.id not in T.EXC or s.handlers[0].name is not None:
            fail(s, "unsupported try statement (shape)")
        body, hd, exc = s.body, s.handlers[0].body, T.EXC[s.handlers[0].type.id]
        if T.terminates(body):
            return None             # try: .. return  except E: .. return   (core, cx.try_catch)
        if not all(isinstance(x, ast.Assign) and len(x.targets) == 1 and isinstance(x.targets[0], ast.Name) for x in body):
            fail(s, "try body (assignments to variables only)")
        keys = T.assigned_keys(body)
        jsc = T.Scope(None, nojump=True)
        leaves = []

        def k_yield(envl):
            leaves.append({k: envl[k] for k in keys})
            return "Ok " + ("(" + ", ".join(envl[k][0] for k in keys) + ")" if len(keys) > 1 else envl[keys[0]][0])
        a = T.block(body, env, k_yield, jsc, cx)
        tys = {k: leaves[0][k][1] for k in keys}
        pat = "'(" + ", ".join(T.cname(k) for k in keys) + ")" if len(keys) > 1 else T.cname(keys[0])
        env2 = dict(env)
        for k in keys:
            env2[k] = (T.cname(k), tys[k])
        if T.terminates(hd):
            # the handler leaves the block (continue / return / raise): a match on the body's result
            mpat = pat[1:] if pat.startswith("'") else pat
            return "match (%s) with\n| Ok %s =>\n%s\n| Err e__ =>\n  if err_eqb e__ %s then\n%s\n  else Err e__\nend" % (
                a.replace("\n", " "), mpat, T.ind(T.block(rest, env2, K, sc, cx)), exc, T.ind(T.ind(T.block(hd, env, K, sc, cx))))
        n0 = len(leaves)
        b = T.block(hd, env, k_yield, jsc, cx)
        for lf in leaves[n0:]:
            for k in keys:
                if lf[k][1] != tys[k]:
                    fail(s, "try body and handler give %s different types (%r, %r)" % (k, tys[k], lf[k][1]))
        return "do %s <- py_catch %s (%s) (%s);\n" % (pat, exc, a.replace("\n", " "), b.replace("\n", " ")) \
            + T.block(rest, env2, K, sc, cx)

    def try_total(self, s, env, cx):
        fail(s, "unsupported try statement")


# ---------------------------------------------------------------------------------------------------------------------------
# dataflow pass: which declared type does each read of the properties dictionary flow into?

def is_prop_read(n, pname):
    if isinstance(n, ast.Subscript) and isinstance(n.value, ast.Name) and n.value.id == pname:
        return True
    return isinstance(n, ast.Call) and isinstance(n.func, ast.Attribute) and n.func.attr == "get" \
        and isinstance(n.func.value, ast.Name) and n.func.value.id == pname


def infer_reads(fn, pname, ctor_param_types):
    """{id(read node): Z | F64 | PVAL}.  ctor_param_types: class name -> list of the declared types of its
    constructor's parameters."""
    src = {}        # variable -> list of read nodes whose value (or whose elements) it holds

    def reads_of(v):
        """read nodes an expression evaluates to: a read, a comprehension of reads, np.array of one, a variable"""
        if is_prop_read(v, pname):
            return [v]
        if isinstance(v, ast.ListComp) and is_prop_read(v.elt, pname):
            return [v.elt]
        if isinstance(v, ast.Call) and unp(v.func) == "np.array" and len(v.args) == 1:
            return reads_of(v.args[0])
        if isinstance(v, ast.Name):
            return src.get(v.id, [])
        return []
    for n in ast.walk(fn):
        if isinstance(n, ast.Assign) and len(n.targets) == 1 and isinstance(n.targets[0], ast.Name):
            src.setdefault(n.targets[0].id, []).extend(reads_of(n.value))
    out = {}

    def mark(nodes, ty):
        for nd in nodes:
            if id(nd) in out and out[id(nd)] != ty:
                fail(nd, "a properties read is used both as %r and as %r" % (out[id(nd)], ty))
            out[id(nd)] = ty

    def elem(t):
        return t[1] if t[0] == "list" else (F64 if t == FARR else t)
    for n in ast.walk(fn):
        if isinstance(n, ast.Call) and isinstance(n.func, ast.Name) and n.func.id in ctor_param_types:
            ptys = ctor_param_types[n.func.id]
            if len(n.args) == len(ptys) and not n.keywords:
                for a, t in zip(n.args, ptys):
                    t = elem(t)
                    if t in (Z, F64):
                        mark(reads_of(a), t)
        if isinstance(n, ast.Call) and isinstance(n.func, ast.Name) and n.func.id == "range":
            for a in n.args:
                mark(reads_of(a), Z)
    # a comparison between two variables one of which is an int makes the other an int (table sizes)
    for n in ast.walk(fn):
        if isinstance(n, ast.Compare) and len(n.ops) == 1 and isinstance(n.ops[0], (ast.Eq, ast.NotEq)):
            a, b = reads_of(n.left), reads_of(n.comparators[0])
            if a and b:
                ta = {out.get(id(x)) for x in a}
                tb = {out.get(id(x)) for x in b}
                if ta == {Z} or tb == {Z}:
                    mark(a, Z)
                    mark(b, Z)
    return out


# ---------------------------------------------------------------------------------------------------------------------------
# in-place statements: only on a variable that owns a fresh buffer; its aliases die

def check_inplace(fn, where):
    """fail closed unless every in-place array statement of the function works on a fresh buffer that no live
    name aliases.  States: group id per variable; fresh[group]; dead variables."""
    params = {a.arg for a in fn.args.args}

    def fresh_expr(v):
        if isinstance(v, ast.Call) and isinstance(v.func, ast.Attribute) and v.func.attr == "copy" and not v.args:
            return True
        if isinstance(v, ast.Call) and isinstance(v.func, ast.Attribute) and v.func.attr == "astype":
            return not any(k.arg == "copy" for k in v.keywords)          # astype copies unless copy=False
        return isinstance(v, (ast.BinOp, ast.UnaryOp)) or (isinstance(v, ast.Call) and not (
            isinstance(v.func, ast.Attribute) and v.func.attr == "astype"))

    def alias_src(v):
        if isinstance(v, ast.Name):
            return v.id
        if isinstance(v, ast.Call) and isinstance(v.func, ast.Attribute) and v.func.attr == "astype" \
                and isinstance(v.func.value, ast.Name):
            return v.func.value.id                                       # astype(copy=False) may return its input
        return None

    def run(stmts, st):
        grp, fresh, dead, cnt = st
        for s in stmts:
            for n in ast.walk(s) if not isinstance(s, (ast.If, ast.For, ast.Try)) else ast.walk(getattr(s, "test", ast.Pass())):
                if isinstance(n, ast.Name) and isinstance(n.ctx, ast.Load) and n.id in dead:
                    fail(n, "%s: %s is read after an alias of it was modified in place" % (where, n.id))
            if isinstance(s, ast.Assign) and len(s.targets) == 1 and isinstance(s.targets[0], ast.Name):
                t = s.targets[0].id
                dead.discard(t)
                a = alias_src(s.value)
                if fresh_expr(s.value):
                    cnt[0] += 1
                    grp[t] = cnt[0]
                    fresh.add(cnt[0])
                elif a is not None and a in grp:
                    grp[t] = grp[a]
                else:
                    grp.pop(t, None)
            elif isinstance(s, ast.AugAssign) or (isinstance(s, ast.Expr) and isinstance(s.value, ast.Call)
                                                  and any(k.arg == "out" for k in s.value.keywords)):
                if isinstance(s, ast.AugAssign):
                    tg = s.target
                else:
                    tg = [k.value for k in s.value.keywords if k.arg == "out"][0]
                if not isinstance(tg, ast.Name):
                    if isinstance(s, ast.AugAssign) and isinstance(tg, ast.Subscript):
                        continue
                    fail(s, "%s: in-place statement on something that is not a variable" % where)
                t = tg.id
                if t in params and t not in grp:
                    fail(s, "%s: in-place operation on the parameter %s (the caller's array)" % (where, t))
                if t not in grp:
                    continue                    # not an array the pass follows (integers, lists)
                if grp[t] not in fresh:
                    fail(s, "%s: in-place operation on %s, which may be (a view of) the caller's array" % (where, t))
                for o, g in grp.items():
                    if o != t and g == grp[t]:
                        dead.add(o)
            elif isinstance(s, ast.If):
                st1 = run(s.body, (dict(grp), set(fresh), set(dead), cnt))
                st2 = run(s.orelse, (dict(grp), set(fresh), set(dead), cnt))
                live = []
                if not T.terminates(s.body):
                    live.append(st1)
                if not T.terminates(s.orelse):
                    live.append(st2)
                if not live:
                    return st
                grp = {k: v for k, v in live[0][0].items() if all(l[0].get(k) == v for l in live)}
                fresh = set.intersection(*[l[1] for l in live])
                dead = set.union(*[l[2] for l in live])
            elif isinstance(s, (ast.For, ast.Try, ast.While, ast.With)):
                for n in ast.walk(s):
                    if isinstance(n, ast.AugAssign) and isinstance(n.target, ast.Name) and n.target.id in grp:
                        fail(n, "%s: in-place array statement inside a loop / try" % where)
        return grp, fresh, dead, cnt
    grp0 = {}
    run(fn.body, (grp0, set(), set(), [0]))


# ---------------------------------------------------------------------------------------------------------------------------
# fixed Gallina text shared by the drivers

PRELUDE_COMMON = """\
(* ---- Python / NumPy primitives shared by the scaling and thermocouple translations (fixed text; exercised
        against the real Python / NumPy by the self-tests) ---- *)
(* "%d" % z *)
Definition py_dec (z : Z) : string :=
  if z <? 0 then ("-" ++ ScaleGraph.dec (Z.to_nat (- z)))%string else ScaleGraph.dec (Z.to_nat z).
(* range(a, b) *)
Definition py_range (a b : Z) : list Z := List.map (fun k => a + Z.of_nat k) (List.seq 0 (Z.to_nat (b - a))).
(* elementwise binary operation of two float64 arrays of one length (another length: ValueError, broadcasting of
   unequal lengths is not modelled) *)
Definition np_fzip (f : float -> float -> float) (a b : list float) : res (list float) :=
  if Nat.eqb (List.length a) (List.length b) then Ok (List.map (fun p => f (fst p) (snd p)) (List.combine a b))
  else Err EValue.
Definition np_fzip_b (f : float -> float -> bool) (a b : list float) : res (list bool) :=
  if Nat.eqb (List.length a) (List.length b) then Ok (List.map (fun p => f (fst p) (snd p)) (List.combine a b))
  else Err EValue.
Definition np_bzip (f : bool -> bool -> bool) (a b : list bool) : res (list bool) :=
  if Nat.eqb (List.length a) (List.length b) then Ok (List.map (fun p => f (fst p) (snd p)) (List.combine a b))
  else Err EValue.
(* numpy.polynomial.polynomial.polyval(x, c) for a float64 array x and a 1-D c:
     c0 = c[-1] + x*0 ; for i in range(2, len(c) + 1): c0 = c[-i] + c0*x        (IndexError for an empty c) *)
Definition np_polyval (x : list float) (c : list float) : res (list float) :=
  match List.rev c with
  | [] => Err EIndex
  | clast :: rest => Ok (List.map (ScaleGraph.horner clast rest) x)
  end.
"""
