#!/venv/bin/python
"""Fail-closed translator: the PROPERTY VIEWS of nptdms/tdms.py (C12) -> coq/theories/Gen/PyFuncsPropView.v
(+ the self-test coq/theories/Gen/PyFuncsPropViewTest.v)

Translated with Python `ast` (py2gallina.py + scale_sem.py + timetrack_sem.py; nptdms is imported for the self-test
only):

  TdmsFile._convert_properties with its inner convert_prop  (a TdmsTimestamp value becomes
      val.as_datetime64() -- default resolution, checked to be 'us' in nptdms/timestamp.py, through the TRANSLATED
      TdmsTimestamp.as_datetime64 of Gen.PyFuncsTime -- unless raw_timestamps; every other value, every key and the
      order are kept)
  TdmsFile.properties (returns self._properties)
  TdmsGroup.__init__ / TdmsChannel.__init__: `self.properties = properties` (checked; which dictionaries
      _read_file hands them is translated by gen_pyfuncs_hier.py, where _convert_properties is a parameter)

A property dictionary is Gen.PyFuncsTimeTrack's list (string * tpval).
Anything unrecognised: message on stderr, exit 1, nothing written.
"""
import ast
import os
import sys

HERE = os.path.dirname(os.path.abspath(__file__))
sys.path.insert(0, HERE)
import py2gallina as T                                             # noqa: E402
from py2gallina import B                                            # noqa: E402
import timetrack_sem as TS                                         # noqa: E402
from timetrack_sem import TPROPS, TPVAL                             # noqa: E402
from scale_sem import CSTR                                          # noqa: E402

VERIF = os.path.dirname(os.path.dirname(HERE))
REPO = os.environ.get("NPTDMS_REPO", "/repo")
OUT = os.path.join(VERIF, "coq", "theories", "Gen", "PyFuncsPropView.v")
OUT_TEST = os.path.join(VERIF, "coq", "theories", "Gen", "PyFuncsPropViewTest.v")
ME = "gen_pyfuncs_propview"


def die(msg):
    sys.stderr.write("%s: UNSUPPORTED / unrecognised source, nothing written: %s\n" % (ME, msg))
    sys.exit(1)


def unp(n):
    return ast.unparse(n)


def comment(where, f, stmts=None):
    stmts = f.body if stmts is None else stmts
    txt = "\n".join(unp(s) for s in stmts if not T.is_skip(s)).replace("(*", "( *").replace("*)", "* )")
    return "nptdms/tdms.py: %s (line %d)\n%s\n" % (where, f.lineno, "\n".join("     " + l for l in txt.split("\n")))


PRELUDE = """\
(* isinstance(v, TdmsTimestamp) *)
Definition tp_is_timestamp (v : tpval) : bool := match v with TVTimestamp _ _ => true | _ => false end.
(* v.as_datetime64() with the default resolution 'us': the translated TdmsTimestamp.as_datetime64; a value of
   another class has no such method (AttributeError) *)
Definition tp_as_datetime64_us (v : tpval) : res tpval :=
  match v with
  | TVTimestamp s f => do t <- scalar_as_datetime64_gen Rus s f; Ok (TVDatetime t)
  | _ => Err EOther
  end.
"""


def translate():
    TS.install()
    try:
        tree = ast.parse(open(os.path.join(REPO, "nptdms", "tdms.py")).read())
        tree_ts = ast.parse(open(os.path.join(REPO, "nptdms", "timestamp.py")).read())
    except (OSError, SyntaxError) as e:
        die("cannot read/parse the sources: %s" % e)

    def klass(tr, name):
        cs = [n for n in tr.body if isinstance(n, ast.ClassDef) and n.name == name]
        if len(cs) != 1:
            die("expected exactly one class %s" % name)
        return cs[0]

    def method(cls, name, decos=()):
        fs = [n for n in cls.body if isinstance(n, ast.FunctionDef) and n.name == name]
        if len(fs) != 1 or [unp(d) for d in fs[0].decorator_list] != list(decos):
            die("expected exactly one def %s.%s with decorators %r" % (cls.name, name, decos))
        return fs[0]
    # TdmsTimestamp.as_datetime64(self, resolution='us')
    adt = method(klass(tree_ts, "TdmsTimestamp"), "as_datetime64")
    if [a.arg for a in adt.args.args] != ["self", "resolution"] or [unp(d) for d in adt.args.defaults] != ["'us'"]:
        die("TdmsTimestamp.as_datetime64 no longer has the signature (self, resolution='us')")
    tf = klass(tree, "TdmsFile")
    finit = method(tf, "__init__")
    got = {unp(s.targets[0]): unp(s.value) for s in finit.body if isinstance(s, ast.Assign) and len(s.targets) == 1}
    if got.get("self._raw_timestamps") != "raw_timestamps":
        die("TdmsFile.__init__ no longer stores raw_timestamps")
    for cn in ("TdmsGroup", "TdmsChannel"):
        init = method(klass(tree, cn), "__init__")
        got = {unp(s.targets[0]): unp(s.value) for s in init.body if isinstance(s, ast.Assign) and len(s.targets) == 1}
        if got.get("self.properties") != "properties":
            die("%s.__init__ no longer stores its properties argument as self.properties" % cn)

    cx = T.Cx({}, {}, {}, {})
    cx.kwcalls = True
    cx.str_consts = True
    cx.try_catch = True
    sem = TS.TimeTrackSem()
    cx.np = sem
    sigs = []

    conv = method(tf, "_convert_properties")
    if [a.arg for a in conv.args.args] != ["self", "properties"]:
        die("signature of _convert_properties")
    body = [s for s in conv.body if not T.is_skip(s)]
    if len(body) != 2 or not isinstance(body[0], ast.FunctionDef) or body[0].name != "convert_prop" \
            or [a.arg for a in body[0].args.args] != ["val"] or body[0].decorator_list or not isinstance(body[1], ast.Return):
        die("_convert_properties is no longer `def convert_prop(val): ..; return ..`")
    inner = body[0]

    def calls(e, env, h, cx_):
        fn = unp(e.func)
        if fn == "isinstance" and len(e.args) == 2 and unp(e.args[1]) == "TdmsTimestamp" and not e.keywords:
            t, ty = T.ex(e.args[0], env, h, cx_)
            if ty != TPVAL:
                T.fail(e, "isinstance(.., TdmsTimestamp) of %r" % (ty,))
            return "(tp_is_timestamp %s)" % t, B
        if isinstance(e.func, ast.Attribute) and e.func.attr == "as_datetime64" and not e.args and not e.keywords:
            t, ty = T.ex(e.func.value, env, h, cx_)
            if ty != TPVAL:
                T.fail(e, ".as_datetime64() of %r" % (ty,))
            return sem.hoist(e, h, cx_, "tp_as_datetime64_us %s" % t), TPVAL
        if fn == "convert_prop" and len(e.args) == 1 and not e.keywords and "self._raw_timestamps" in env:
            t, ty = T.ex(e.args[0], env, h, cx_)
            if ty != TPVAL:
                T.fail(e, "convert_prop(%r)" % (ty,))
            return sem.hoist(e, h, cx_, "convert_prop_gen %s %s" % (env["self._raw_timestamps"][0], t)), TPVAL
        # OrderedDict(((k, F(v)) for (k, v) in P.items())): keys are unique, order is kept
        if fn == "OrderedDict" and len(e.args) == 1 and not e.keywords and isinstance(e.args[0], ast.GeneratorExp):
            g = e.args[0]
            if len(g.generators) != 1 or g.generators[0].ifs or g.generators[0].is_async:
                T.fail(e, "OrderedDict(generator): shape")
            gen = g.generators[0]
            it = gen.iter
            if not (isinstance(it, ast.Call) and isinstance(it.func, ast.Attribute) and it.func.attr == "items" and not it.args
                    and T.key_of(it.func.value) in env and env[T.key_of(it.func.value)][1] == TPROPS):
                T.fail(e, "OrderedDict(generator): not over <properties>.items()")
            if not (isinstance(gen.target, ast.Tuple) and len(gen.target.elts) == 2
                    and all(isinstance(x, ast.Name) for x in gen.target.elts)):
                T.fail(e, "OrderedDict(generator): target")
            kn, vn = gen.target.elts[0].id, gen.target.elts[1].id
            if not (isinstance(g.elt, ast.Tuple) and len(g.elt.elts) == 2 and unp(g.elt.elts[0]) == kn):
                T.fail(e, "OrderedDict(generator): the element is not (key, f(value))")
            inner_env = dict(env)
            inner_env[kn] = (T.cname(kn), CSTR)
            inner_env[vn] = (T.cname(vn), TPVAL)
            h2 = T.Hoist()
            h2.cx = cx_
            t, ty = T.ex(g.elt.elts[1], inner_env, h2, cx_)
            if ty != TPVAL:
                T.fail(e, "OrderedDict(generator): value of type %r" % (ty,))
            body_ = T.wrap(h2.pre, "Ok (%s, %s)" % (T.cname(kn), t)).replace("\n", " ")
            return sem.hoist(e, h, cx_, "mapM (fun '(%s, %s) => %s) %s" % (T.cname(kn), T.cname(vn), body_,
                                                                            env[T.key_of(it.func.value)][0])), TPROPS
        return None
    sem.extra_calls.append(calls)

    rty = T.function(cx, "convert_prop_gen", inner.body, [("self__raw_timestamps", B), ("val", TPVAL)],
                     {"self._raw_timestamps": ("self__raw_timestamps", B), "val": ("val", TPVAL)}, [],
                     comment("TdmsFile._convert_properties.convert_prop", inner))
    if rty != TPVAL:
        die("convert_prop returns %r" % (rty,))
    sigs.append("convert_prop")
    rty = T.function(cx, "convert_properties_gen", [body[1]], [("self__raw_timestamps", B), ("properties", TPROPS)],
                     {"self._raw_timestamps": ("self__raw_timestamps", B), "properties": ("properties", TPROPS)}, [],
                     comment("TdmsFile._convert_properties", conv, [body[1]]))
    if rty != TPROPS:
        die("_convert_properties returns %r" % (rty,))
    sigs.append("_convert_properties")
    f = method(tf, "properties", decos=["property"])
    rty = T.function(cx, "TdmsFile_properties_gen", f.body, [("self__properties", TPROPS)],
                     {"self._properties": ("self__properties", TPROPS)}, [], comment("TdmsFile.properties", f))
    if rty != TPROPS:
        die("TdmsFile.properties returns %r" % (rty,))
    sigs.append("TdmsFile.properties")
    return cx, sigs


def header():
    return ("(* GENERATED by harness/gen/gen_pyfuncs_propview.py from nptdms/tdms.py -- do not edit.\n"
            "   Shallow monadic translation of the property views (C12); see the script for the conventions. *)\n"
            "From Coq Require Import String.\n"
            "From Coq Require Import ZArith List Bool PrimFloat.\n"
            "Import ListNotations.\n"
            "From NpTdms Require Import Base.Bytes Base.Res Model.Timestamp Gen.PyFuncsTime Gen.PyFuncsTimeTrack.\n"
            "Local Open Scope Z_scope.\n\n")


def write_if_changed(path, text):
    old = None
    try:
        old = open(path).read()
    except OSError:
        pass
    if old != text:
        os.makedirs(os.path.dirname(path), exist_ok=True)
        tmp = path + ".tmp.%d" % os.getpid()
        with open(tmp, "w") as fh:
            fh.write(text)
        os.replace(tmp, path)
        print("%s: wrote %s" % (ME, os.path.relpath(path, VERIF)))
    else:
        print("%s: %s up to date" % (ME, os.path.relpath(path, VERIF)))


def selftest():
    """properties of real TdmsFile / TdmsGroup / TdmsChannel objects, read with raw_timestamps on and off (eagerly,
    lazily, metadata only): the view without raw_timestamps is convert_properties_gen of the raw view"""
    sys.path.insert(0, REPO)
    import io
    import numpy as np
    import nptdms
    if os.path.realpath(os.path.dirname(nptdms.__file__)) != os.path.realpath(os.path.join(REPO, "nptdms")):
        die("nptdms imported from %s" % nptdms.__file__)
    from nptdms import TdmsFile, TdmsWriter, RootObject, GroupObject, ChannelObject
    from nptdms.timestamp import TdmsTimestamp

    def cz(v):
        return "%d" % v if v >= 0 else "(%d)" % v

    def cprops(d):
        items = []
        for k, v in d.items():
            if isinstance(v, TdmsTimestamp):
                t = "(TVTimestamp %s %s)" % (cz(int(v.seconds)), cz(int(v.second_fractions)))
            elif isinstance(v, np.datetime64):
                if v.dtype != np.dtype("<M8[us]"):
                    raise ValueError("datetime64 unit %r" % v.dtype)
                t = "(TVDatetime %s)" % cz(int(v.astype("int64")))
            elif isinstance(v, float):
                t = "(TVFloat (%s)%%float)" % v.hex()
            elif isinstance(v, bool):
                t = "(TVInt %d)" % int(v)
            elif isinstance(v, int):
                t = "(TVInt %s)" % cz(v)
            elif isinstance(v, str):
                t = '(TVStr "%s"%%string)' % v
            else:
                raise ValueError("property value %r" % (v,))
            items.append('("%s"%%string, %s)' % (k, t))
        return "[" + "; ".join(items) + "]"
    stamps = [np.datetime64(s) for s in ("2020-01-01T00:00:00.000001", "1904-01-01T00:00:00", "1850-06-01T12:00:00.5",
                                         "2262-04-11T23:47:16.854775", "1999-12-31T23:59:59.999999", "0001-01-01T00:00:00")]
    cases = []
    n_files = 0
    for i in range(len(stamps)):
        rp = {"a": 1, "t0": stamps[i], "s": "x", "t1": stamps[(i + 1) % len(stamps)]}
        gp = {"when": stamps[(i + 2) % len(stamps)], "f": 1.5}
        cp = {"wf_start_time": stamps[(i + 3) % len(stamps)], "wf_increment": 0.5, "n": 7}
        buf = io.BytesIO()
        with TdmsWriter(buf) as w:
            w.write_segment([RootObject(rp), GroupObject("g", gp), ChannelObject("g", "c", np.arange(3, dtype="int16"), cp),
                             ChannelObject("g", "d", np.array(stamps[:2]), {})])
        for opener in (TdmsFile.read, TdmsFile.open, TdmsFile.read_metadata):
            n_files += 2
            raw = opener(io.BytesIO(buf.getvalue()), raw_timestamps=True)
            cooked = opener(io.BytesIO(buf.getvalue()), raw_timestamps=False)
            for a, b in ((raw.properties, cooked.properties), (raw["g"].properties, cooked["g"].properties),
                         (raw["g"]["c"].properties, cooked["g"]["c"].properties),
                         (raw["g"]["d"].properties, cooked["g"]["d"].properties)):
                cases.append("(%s, %s)" % (cprops(a), cprops(b)))
            raw.close()
            cooked.close()
    cases = list(dict.fromkeys(cases))
    text = ("(* GENERATED by harness/gen/gen_pyfuncs_propview.py -- do not edit.\n"
            "   Self-test of Gen/PyFuncsPropView.v: properties of real TdmsFile / TdmsGroup / TdmsChannel objects read with\n"
            "   raw_timestamps=True (left) and without (right). *)\n"
            "From Coq Require Import String.\nFrom Coq Require Import ZArith List Bool PrimFloat.\nImport ListNotations.\n"
            "From NpTdms Require Import Base.Res Model.Timestamp Model.TimeTrackF Gen.PyFuncsTimeTrack Gen.PyFuncsPropView.\n"
            "Local Open Scope Z_scope.\n\n"
            "Definition st_tpval_eqb (a b : tpval) : bool :=\n  match a, b with\n"
            "  | TVFloat x, TVFloat y => fbits_eqb x y\n  | TVInt x, TVInt y => x =? y\n  | TVStr x, TVStr y => String.eqb x y\n"
            "  | TVTimestamp s f, TVTimestamp s' f' => (s =? s') && (f =? f')\n  | TVDatetime x, TVDatetime y => x =? y\n"
            "  | _, _ => false\n  end.\n"
            "Fixpoint st_props_eqb (a b : list (string * tpval)) : bool :=\n  match a, b with\n  | [], [] => true\n"
            "  | (k, v) :: a', (k', v') :: b' => String.eqb k k' && st_tpval_eqb v v' && st_props_eqb a' b'\n  | _, _ => false\n  end.\n"
            "Definition st_ok (r : res (list (string * tpval))) (b : list (string * tpval)) : bool :=\n"
            "  match r with Ok a => st_props_eqb a b | Err _ => false end.\n"
            "Definition st_view_cases : list (list (string * tpval) * list (string * tpval)) :=\n  [%s].\n"
            "Example st_view : forallb (fun c => st_ok (convert_properties_gen false (fst c)) (snd c) &&\n"
            "                                    st_ok (convert_properties_gen true (fst c)) (fst c) &&\n"
            "                                    st_ok (TdmsFile_properties_gen (snd c)) (snd c)) st_view_cases = true.\n"
            "Proof. vm_compute. reflexivity. Qed.\n" % ";\n   ".join(cases))
    return text, {"files": n_files, "views": len(cases)}


def main():
    try:
        cx, sigs = translate()
    except T.Unsupported as e:
        die(str(e))
    text = header() + PRELUDE + "\n" + "\n\n".join(cx.defs) + "\n"
    st_text, counts = selftest()
    write_if_changed(OUT, text)
    write_if_changed(OUT_TEST, st_text)
    print("%s: %d items translated; self-test cases: %s"
          % (ME, len(sigs), ", ".join("%s %d" % kv for kv in counts.items())))


if __name__ == "__main__":
    main()
