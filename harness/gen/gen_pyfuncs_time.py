#!/venv/bin/python
"""Fail-closed translator: the exact-integer timestamp arithmetic of npTDMS
-> coq/theories/Gen/PyFuncsTime.v

Translated with Python `ast` (harness/gen/py2gallina.py + np_sem.py; the modules are NOT
imported for the translation, only for the self-test):

  nptdms/types.py      TimeStamp.__init__          (value : np.datetime64[us])
  nptdms/timestamp.py  TdmsTimestamp.bytes, TdmsTimestamp.as_datetime64 (whole method and the
                       statement computing `steps`), TimestampArray.as_datetime64 (per element:
                       whole method and the statements computing `steps`),
                       the tables _steps_per_second, _fraction_tolerance, EPOCH

Conventions.
 * Every operand has a declared type (table DECL below); NumPy operations are translated per the
   operand types by np_sem.py: uint64 array arithmetic wraps (explicit `np_u64`), datetime64 /
   timedelta64 arithmetic is CHECKED (NumPy 2.x raises OverflowError; NaT propagates), Python
   ints are exact.  OverflowError -> Err EOther, ValueError -> Err EValue, struct.error ->
   Err EStruct.
 * `resolution` is restricted to the keys of _steps_per_second (which must be exactly
   's','ms','us','ns' = Model/Timestamp.v's `resolution`); under that restriction the lookup in
   _fractions_per_step is total and `resolution in _steps_per_second` is true, so the float
   path ('ps') is not part of the translation (not claimed by C12).  If the key sets change,
   generation fails.
 * TimestampArray.as_datetime64 is translated PER ELEMENT (NumPy broadcasting is the trusted
   part); `*_list_gen` maps it over a list (an exception for any element fails the call).

Self-test: the generated file ends with `Example`s carrying the results of the REAL functions
(and of the real NumPy primitives) on boundary grids, checked by vm_compute at build time.

Anything unrecognised: message on stderr, exit 1, nothing written.
"""
import ast
import datetime
import os
import struct
import sys
import warnings

HERE = os.path.dirname(os.path.abspath(__file__))
sys.path.insert(0, HERE)
import py2gallina as T                                             # noqa: E402
from py2gallina import Z, BYTES                                     # noqa: E402
import np_sem as N                                                 # noqa: E402
from np_sem import U64, I64, DT, TD, ENUM                           # noqa: E402

VERIF = os.path.dirname(os.path.dirname(HERE))
REPO = os.environ.get("NPTDMS_REPO", "/repo")
OUT = os.path.join(VERIF, "coq", "theories", "Gen", "PyFuncsTime.v")
ME = "gen_pyfuncs_time"

RES = ENUM("resolution")
# declared operand types (everything else is derived)
DECL = {
    "TimeStamp.__init__": {"value": DT("Rus")},
    "TdmsTimestamp": {"self.seconds": Z, "self.second_fractions": Z, "resolution": RES},
    "TimestampArray": {"self['seconds']": I64, "self['second_fractions']": U64, "resolution": RES},
}


def die(msg):
    sys.stderr.write("%s: UNSUPPORTED / unrecognised source, nothing written: %s\n" % (ME, msg))
    sys.exit(1)


def parse(fn):
    path = os.path.join(REPO, "nptdms", fn)
    try:
        src = open(path).read()
        return src, ast.parse(src)
    except (OSError, SyntaxError) as e:
        die("cannot read/parse %s: %s" % (path, e))


def find(tree, name, cls, prop=False):
    cs = [n for n in tree.body if isinstance(n, ast.ClassDef) and n.name == cls]
    if len(cs) != 1:
        die("class %s not found" % cls)
    fs = [n for n in cs[0].body if isinstance(n, ast.FunctionDef) and n.name == name]
    if len(fs) != 1:
        die("expected exactly one def %s.%s" % (cls, name))
    f = fs[0]
    decos = [ast.unparse(d) for d in f.decorator_list]
    if decos != (["property"] if prop else []) or f.args.vararg or f.args.kwarg or f.args.kwonlyargs:
        die("signature of %s.%s" % (cls, name))
    return cs[0], f


def assign_value(body, name, where):
    vs = [n.value for n in body if isinstance(n, ast.Assign) and len(n.targets) == 1
          and isinstance(n.targets[0], ast.Name) and n.targets[0].id == name]
    if len(vs) != 1:
        die("expected exactly one assignment %s = ... in %s" % (name, where))
    return vs[0]


def dict_literal(tree, name):
    v = assign_value(tree.body, name, "timestamp.py")
    if not isinstance(v, ast.Dict) or not all(isinstance(k, ast.Constant) and isinstance(k.value, str) for k in v.keys):
        die("%s is not a dict literal with constant str keys" % name)
    keys = [k.value for k in v.keys]
    if len(set(keys)) != len(keys):
        die("%s has a repeated key" % name)
    return list(zip(keys, v.values))


def datetime_literal(v, unit, what):
    """np.datetime64('<iso>', '<unit>') -> the int64 count, computed with Python's datetime and
    cross-checked with NumPy"""
    if not (isinstance(v, ast.Call) and N.NpSem.is_np(v.func, "datetime64") and len(v.args) == 2 and not v.keywords
            and all(isinstance(a, ast.Constant) and isinstance(a.value, str) for a in v.args)
            and v.args[1].value == unit):
        die("%s is not np.datetime64('<date>', '%s')" % (what, unit))
    try:
        d = datetime.datetime.fromisoformat(v.args[0].value)
    except ValueError as e:
        die("%s: %s" % (what, e))
    if d.tzinfo is not None or d.microsecond:
        die("%s: unexpected date literal" % what)
    delta = d - datetime.datetime(1970, 1, 1)
    n = (delta.days * 86400 + delta.seconds) * {"s": 1, "us": 10 ** 6}[unit]
    import numpy as np
    if int(np.datetime64(v.args[0].value, unit).astype(np.int64)) != n:
        die("%s: NumPy disagrees about the date literal" % what)
    return n


def check_alias(tree, fn):
    v = assign_value(tree.body, "_struct_pack", fn)
    if ast.unparse(v) != "struct.pack":
        die("%s: _struct_pack is not struct.pack" % fn)


def comment_of(fn, cls, f, stmts=None):
    stmts = f.body if stmts is None else stmts
    txt = "\n".join(ast.unparse(s) for s in stmts if not T.is_skip(s))
    txt = txt.replace("(*", "( *").replace("*)", "* )")
    return "nptdms/%s: %s.%s (line %d)\n%s\n" % (fn, cls, f.name, f.lineno, "\n".join("     " + l for l in txt.split("\n")))


def zlit(n):
    return "%d" % n if n >= 0 else "(%d)" % n


def translate():
    src_t, tree_t = parse("timestamp.py")
    src_y, tree_y = parse("types.py")
    check_alias(tree_t, "timestamp.py")
    check_alias(tree_y, "types.py")
    sps = dict_literal(tree_t, "_steps_per_second")
    fps = dict_literal(tree_t, "_fractions_per_step")
    if set(k for k, _ in sps) != set(N.UNITS):
        die("the keys of _steps_per_second are %r, expected exactly %r (the model's `resolution`)"
            % (sorted(k for k, _ in sps), sorted(N.UNITS)))
    cx = T.Cx({}, {}, {}, {})
    sem = N.NpSem(enums={"resolution": dict(N.UNITS)},
                  tables={"_steps_per_second": N.Table("_steps_per_second", [k for k, _ in sps],
                                                       "steps_per_second_tbl", "resolution", Z),
                          "_fractions_per_step": N.Table("_fractions_per_step", [k for k, _ in fps],
                                                         None, "resolution", None)},
                  struct_pack_names=["_struct_pack"])
    cx.np = sem
    # --- module-level constants
    arms = []
    for k, v in sps:
        t, ty = T.ex(v, {}, None, cx)
        if ty != Z:
            die("_steps_per_second[%r] is not an integer constant" % k)
        arms.append("  | %s => %s" % (N.UNITS[k], t))
    cx.defs.append("(* nptdms/timestamp.py: _steps_per_second = %s *)\n"
                   "Definition steps_per_second_tbl (k : resolution) : Z :=\n  match k with\n%s\n  end."
                   % (ast.unparse(assign_value(tree_t.body, "_steps_per_second", "timestamp.py")), "\n".join(arms)))
    t, ty = T.ex(assign_value(tree_t.body, "_fraction_tolerance", "timestamp.py"), {}, None, cx)
    if ty != Z:
        die("_fraction_tolerance is not an integer constant")
    cx.defs.append("(* nptdms/timestamp.py: _fraction_tolerance *)\nDefinition fraction_tolerance_const : Z := %s." % t)
    cx.globals["_fraction_tolerance"] = ("fraction_tolerance_const", Z)
    ev = assign_value(tree_t.body, "EPOCH", "timestamp.py")
    cx.defs.append("(* nptdms/timestamp.py: EPOCH = %s  (datetime64[s] count) *)\nDefinition epoch_const : Z := %s."
                   % (ast.unparse(ev), zlit(datetime_literal(ev, "s", "timestamp.EPOCH"))))
    cx.globals["EPOCH"] = ("epoch_const", DT("Rs"))
    cls, f_init = find(tree_y, "__init__", "TimeStamp")
    tv = assign_value(cls.body, "_tdms_epoch", "class TimeStamp")
    cx.defs.append("(* nptdms/types.py: TimeStamp._tdms_epoch = %s  (datetime64[us] count) *)\n"
                   "Definition tdms_epoch_const : Z := %s."
                   % (ast.unparse(tv), zlit(datetime_literal(tv, "us", "TimeStamp._tdms_epoch"))))
    sigs, frags = {}, {}

    def fun(gen, stmts, params, env0, outputs, comment):
        rty = T.function(cx, gen, stmts, params, env0, outputs, comment)
        sigs[gen] = (params, rty)

    # --- TimeStamp.__init__(self, value)
    if [a.arg for a in f_init.args.args] != ["self", "value"] or f_init.args.defaults:
        die("parameters of TimeStamp.__init__")
    d = DECL["TimeStamp.__init__"]
    fun("timestamp_init_gen", f_init.body, [("value", d["value"])],
        {"value": ("value", d["value"]), "self._tdms_epoch": ("tdms_epoch_const", DT("Rus"))},
        ["seconds", "second_fractions", "self.bytes"], comment_of("types.py", "TimeStamp", f_init))
    # --- TdmsTimestamp.bytes
    d = DECL["TdmsTimestamp"]
    params2 = [("self_seconds", d["self.seconds"]), ("self_second_fractions", d["self.second_fractions"])]
    env2 = {"self.seconds": params2[0], "self.second_fractions": params2[1]}
    _, f_b = find(tree_t, "bytes", "TdmsTimestamp", prop=True)
    fun("tdms_timestamp_bytes_gen", f_b.body, params2, dict(env2), [], comment_of("timestamp.py", "TdmsTimestamp", f_b))

    # --- the two as_datetime64 methods: whole body and the statements computing `steps`
    def as_dt(clsname, gen_all, gen_steps, params, env0):
        _, f = find(tree_t, "as_datetime64", clsname)
        if [a.arg for a in f.args.args] != ["self", "resolution"] or len(f.args.defaults) != 1:
            die("parameters of %s.as_datetime64" % clsname)
        body = [s for s in f.body if not T.is_skip(s)]
        i_try = [i for i, s in enumerate(body) if isinstance(s, ast.Try)]
        i_if = [i for i, s in enumerate(body) if isinstance(s, ast.If)]
        if i_try != [0] or len(i_if) != 1 or i_if[0] != len(body) - 2 or not isinstance(body[-1], ast.Return):
            die("%s.as_datetime64: shape of the body (try / [assignments] / if / return)" % clsname)
        frag = body[1:i_if[0] + 1]
        stores = [n.id for s in frag for n in ast.walk(s) if isinstance(n, ast.Name) and isinstance(n.ctx, ast.Store)]
        if "steps" not in stores:
            die("%s.as_datetime64: `steps` is not assigned" % clsname)
        pr = [("resolution", RES)] + params
        e0 = dict(env0, resolution=("resolution", RES))
        fun(gen_steps, frag, pr, dict(e0), ["steps"], comment_of("timestamp.py", clsname, f, frag))
        fun(gen_all, f.body, pr, dict(e0), [], comment_of("timestamp.py", clsname, f))
        frags[gen_steps] = frag
    as_dt("TdmsTimestamp", "scalar_as_datetime64_gen", "scalar_steps_gen", params2, env2)
    d = DECL["TimestampArray"]
    params3 = [("self_seconds", d["self['seconds']"]), ("self_second_fractions", d["self['second_fractions']"])]
    as_dt("TimestampArray", "array_as_datetime64_gen", "array_steps_gen", params3,
          {"self['seconds']": params3[0], "self['second_fractions']": params3[1]})
    return cx, sigs, frags


LIST_FNS = """\
(* TimestampArray.as_datetime64 on a whole array: the per-element function on every element
   (an exception for any element is the exception of the call) *)
Definition array_as_datetime64_list_gen (resolution : resolution) (l : list (Z * Z)) : res (list Z) :=
  mapM (fun sf => array_as_datetime64_gen resolution (fst sf) (snd sf)) l.
"""


def header():
    return ("(* GENERATED by harness/gen/gen_pyfuncs_time.py from nptdms/{types,timestamp}.py -- do not edit.\n"
            "   Shallow monadic translation of the exact-integer timestamp arithmetic; see the script for the\n"
            "   declared operand types and the conventions. *)\n"
            "From Coq Require Import String.\n"
            "From Coq Require Import ZArith List Bool.\n"
            "Import ListNotations.\n"
            "From NpTdms Require Import Base.Bytes Base.Res Model.Timestamp.\n"
            "Local Open Scope Z_scope.\n\n")


# ---------------------------------------------------------------------------
# self-test

def load():
    sys.path.insert(0, REPO)
    import nptdms
    here = os.path.realpath(os.path.dirname(nptdms.__file__))
    if here != os.path.realpath(os.path.join(REPO, "nptdms")):
        die("nptdms imported from %s, expected %s/nptdms" % (here, REPO))


ERR = {"OverflowError": "EOther", "ValueError": "EValue", "error": "EStruct", "TypeError": "EType"}


def observe(fn, enc):
    with warnings.catch_warnings():
        warnings.simplefilter("ignore")
        try:
            r = fn()
        except Exception as e:                       # noqa: BLE001 - every class is mapped or fatal
            n = type(e).__name__
            if n not in ERR:
                raise
            return "Err %s" % ERR[n]
    return "Ok %s" % enc(r)


def z(n):
    return zlit(int(n))


def hexs(b):
    return '(hex "%s"%%string)' % bytes(b).hex()


ST_PRELUDE = """\
(* ---- self test: results of the real Python / NumPy code on boundary grids ---- *)
Definition st_err (a b : err) : bool :=
  match a, b with
  | EEof, EEof | EValue, EValue | EKey, EKey | EStruct, EStruct | ENotImpl, ENotImpl | EIndex, EIndex
  | ERuntime, ERuntime | EType, EType | EOther, EOther | EFuel, EFuel => true
  | _, _ => false
  end.
Definition st_res {A} (eq : A -> A -> bool) (a b : res A) : bool :=
  match a, b with Ok x, Ok y => eq x y | Err x, Err y => st_err x y | _, _ => false end.
Fixpoint st_list {A} (eq : A -> A -> bool) (a b : list A) : bool :=
  match a, b with
  | [], [] => true
  | x :: a', y :: b' => eq x y && st_list eq a' b'
  | _, _ => false
  end.
Definition st_bytes (a b : bytes) : bool := st_list (fun x y => b2z x =? b2z y) a b.
Definition st_unit (k : Z) : resolution := if k =? 0 then Rs else if k =? 1 then Rms else if k =? 2 then Rus else Rns.
"""


def example(name, ctype, cases, check):
    if len(cases) < 10:
        die("self-test grid of %s is too small (%d cases)" % (name, len(cases)))
    return ("Definition st_%s_cases : list (%s) :=\n  [%s].\n"
            "Example st_%s : forallb (%s) st_%s_cases = true.\nProof. vm_compute. reflexivity. Qed.\n"
            % (name, ctype, ";\n   ".join(cases), name, check, name))


def fragment_function(frag, argnames, result, glob):
    body = list(frag) + [ast.Return(value=ast.Name(id=result, ctx=ast.Load()))]
    fn = ast.FunctionDef(name="frag", args=ast.arguments(posonlyargs=[], args=[ast.arg(a) for a in argnames],
                                                         kwonlyargs=[], kw_defaults=[], defaults=[]),
                         body=body, decorator_list=[])
    mod = ast.Module(body=[fn], type_ignores=[])
    ast.fix_missing_locations(mod)
    ns = dict(glob)
    exec(compile(mod, "<fragment>", "exec"), ns)
    return ns["frag"]


def selftest(frags):
    load()
    import numpy as np
    from nptdms import timestamp as ts_mod
    from nptdms.types import TimeStamp
    from nptdms.timestamp import TdmsTimestamp, TimestampArray
    M, W = 2 ** 63, 2 ** 64
    out, counts = [ST_PRELUDE], {}
    i64 = lambda x: int(np.asarray(x).astype(np.int64).reshape(-1)[0])       # noqa: E731
    units = ["s", "ms", "us", "ns"]

    # --- the primitives of np_sem.PRELUDE against the real NumPy
    edge = [0, 1, -1, 5, -7, 10 ** 6, 2 ** 32, -2 ** 32, M - 1, M - 2, -M + 1, -M + 2, -M, 2 ** 62, -2 ** 62, 2 ** 53 + 1,
            2 ** 53 + 3, 2 ** 62 + 1, -(2 ** 60) - 129, (M - 1) // 10 ** 6, (M - 1) // 10 ** 6 + 1, -((M - 1) // 10 ** 6) - 1,
            (M - 1) // 10 ** 9, (M - 1) // 10 ** 9 + 1, -((M - 1) // 10 ** 3) - 1]
    td = lambda v, u="us": np.timedelta64("NaT", u) if v == -M else np.timedelta64(v, u)     # noqa: E731
    dt = lambda v, u="us": np.datetime64("NaT", u) if v == -M else np.datetime64(v, u)       # noqa: E731
    prim = []
    pairs = [(a, b) for a in edge[:15] for b in edge[:15]]
    for a, b in pairs:
        prim.append("(0, %s, %s, %s)" % (z(a), z(b), observe(lambda: i64(dt(a) + td(b)), z)))
        prim.append("(1, %s, %s, %s)" % (z(a), z(b), observe(lambda: i64(dt(a) - dt(b)), z)))
        prim.append("(2, %s, %s, %s)" % (z(a), z(b), observe(lambda: i64(td(a) - td(b)), z)))
        prim.append("(3, %s, %s, %s)" % (z(a), z(b), observe(lambda: int(td(a) // td(b)), z)))
        prim.append("(4, %s, %s, %s)" % (z(a), z(b), observe(lambda: i64(np.int64(a) * td(b)), z)))
        prim.append("(5, %s, %s, %s)" % (z(a), z(b), observe(lambda: i64(int(a) * td(b)), z)))
    for a in edge:
        for k, u in enumerate(units):
            prim.append("(6, %s, %d, %s)" % (z(a), k, observe(lambda: i64(dt(a, "s") + td(0, u)), z)))
            prim.append("(6, %s, %d, %s)" % (z(a), k, observe(lambda: i64(td(a, "s") - td(0, u)), z)))
        prim.append("(7, %s, 0, %s)" % (z(a), observe(lambda: int(td(a) / np.timedelta64(1, "us")), z)))
    for a in [M, M + 1, -M - 1, W, -W]:
        prim.append("(5, %s, 1, %s)" % (z(a), observe(lambda: i64(int(a) * td(1)), z)))
        prim.append("(8, %s, 0, %s)" % (z(a), observe(lambda: i64(np.timedelta64(int(a), "s")), z)))
    for a in [0, 1, -1, W - 1, W, M]:
        prim.append("(9, %s, 0, %s)" % (z(a), observe(lambda: int(np.uint64(int(a))), z)))
    uedge = [0, 1, 3, 2 ** 12, 2 ** 32 - 1, 2 ** 32, M - 1, M, W - 1, W - 4096, 10 ** 9]
    for a in uedge:
        for b in uedge:
            A, Bv = np.array([a], dtype=np.uint64), np.uint64(b)
            prim.append("(10, %s, %s, %s)" % (z(a), z(b), observe(lambda: int((A + Bv)[0]), z)))
            prim.append("(11, %s, %s, %s)" % (z(a), z(b), observe(lambda: int((A * Bv)[0]), z)))
            prim.append("(12, %s, %s, %s)" % (z(a), z(b), observe(lambda: int((A - Bv)[0]), z)))
            prim.append("(13, %s, %s, %s)" % (z(a), z(b), observe(lambda: int((A & Bv)[0]), z)))
        for sh in (0, 1, 32, 63, 64, 65):
            prim.append("(14, %s, %d, %s)" % (z(a), sh, observe(
                lambda: int((np.array([a], dtype=np.uint64) >> np.uint64(sh))[0]), z)))
        prim.append("(15, %s, 0, %s)" % (z(a), observe(
            lambda: i64(np.array([a], dtype=np.uint64).astype("timedelta64[us]")), z)))
    out.append(example(
        "np_primitives", "Z * Z * Z * res Z", prim,
        "fun '(op, a, b, r) => st_res Z.eqb (\n"
        "    if op =? 0 then np_dt_add a b else if op =? 1 then np_dt_sub a b else if op =? 2 then np_dt_sub a b\n"
        "    else if op =? 3 then Ok (np_td_floordiv a b) else if op =? 4 then np_int_mul_td a b\n"
        "    else if op =? 5 then np_int_mul_td a b else if op =? 6 then np_cast Rs (st_unit b) a\n"
        "    else if op =? 7 then need EValue (np_td_truediv1 a) else if op =? 8 then np_timedelta64 a\n"
        "    else if op =? 9 then np_uint64 a else if op =? 10 then Ok (np_u64 (a + b))\n"
        "    else if op =? 11 then Ok (np_u64 (a * b)) else if op =? 12 then Ok (np_u64 (a - b))\n"
        "    else if op =? 13 then Ok (Z.land a b) else if op =? 14 then Ok (Z.shiftr a b)\n"
        "    else Ok (np_u64_as_i64 a)) r"))
    counts["np_primitives"] = len(prim)
    # struct.pack('<Qq', ..)
    sp = []
    for f in [0, 1, W - 1, W, -1, M]:
        for s in [0, -1, M - 1, M, -M, -M - 1]:
            sp.append("(%s, %s, %s)" % (z(f), z(s), observe(lambda: struct.pack("<Qq", f, s), hexs)))
    out.append(example("struct_pack", "Z * Z * res bytes", sp,
                       "fun '(f, s, r) => st_res st_bytes (struct_pack_le [(8%nat, false, f); (8%nat, true, s)]) r"))
    counts["struct_pack"] = len(sp)

    # --- TimeStamp.__init__ on np.datetime64[us] values
    E = -2082844800 * 10 ** 6
    vals = [0, 1, -1, E, E - 1, E + 1, E - 1500001, 1577836816000001, 999999, 1000000, -999999, -1000000, -1000001,
            M - 1, M - 2, M - 1 + E, M + E, M - 2 + E, -M, -M + 1, -M + 2, -M + 10 ** 6, -M + 10 ** 6 - 1,
            253402300799999999, -62135596800000000, 2 ** 53 + 1, -(2 ** 53) - 1, 2 ** 59 + 12345, 2 ** 62 + 999999]
    for us in (1, 2, 3, 493, 15625, 499999, 500000, 999998, 999999):
        vals += [E + 3660681616 * 10 ** 6 + us, E - 1703980800 * 10 ** 6 + us]

    def init_case(v):
        def go():
            b = TimeStamp(dt(v)).bytes
            f, s = struct.unpack("<Qq", b)
            return (s, f, b)
        return "(%s, %s)" % (z(v), observe(go, lambda r: "(%s, %s, %s)" % (z(r[0]), z(r[1]), hexs(r[2]))))
    cases = [init_case(v) for v in vals]
    out.append(example("timestamp_init", "Z * res (Z * Z * bytes)", cases,
                       "fun '(v, r) => st_res (fun x y => (fst (fst x) =? fst (fst y)) && (snd (fst x) =? snd (fst y)) "
                       "&& st_bytes (snd x) (snd y)) (timestamp_init_gen v) r"))
    counts["timestamp_init"] = len(cases)

    # --- TdmsTimestamp / TimestampArray
    ss = [0, 1, -1, 2082844800, 3524551547, 3660681616, -1703980800, 2 ** 31, 2 ** 32, -2 ** 31, M - 1, -M, -M + 1,
          M - 1 + 2082844800, M + 2082844800, -M + 2082844800 + 1, -M + 2082844800 + 2,
          (M - 1) // 10 ** 9 + 2082844800, (M - 1) // 10 ** 9 + 2082844801, (M - 1) // 10 ** 6 + 2082844800,
          (M - 1) // 10 ** 6 + 2082844801, -((M - 1) // 10 ** 6) + 2082844800, -((M - 1) // 10 ** 6) + 2082844799,
          (M - 1) // 10 ** 3 + 2082844800, (M - 1) // 10 ** 3 + 2082844801, -((M - 1) // 10 ** 9) + 2082844799]
    ff = [0, 1, 4095, 4096, 2 ** 32 - 1, 2 ** 32, 2 ** 32 + 1, M - 1, M, W - 1, W - 4096, W - 4097, W - 4095,
          12345678900000000000, 18446744073710, 18446744073709, 9223353590110702099, W // 10 ** 6 * 999999,
          -((-999999 * W) // 10 ** 6), -((-999999 * W) // 10 ** 6) - 4096, -((-999999 * W) // 10 ** 6) - 4097,
          -((-999 * W) // 10 ** 3) - 4096, -((-999999999 * W) // 10 ** 9) - 4097, 0xFFFFFFFF00000000, 0x00000000FFFFF000]
    ff_py = [W, W + 5, -1, -4096, -4097, 2 ** 70, 2 ** 127, -(2 ** 127)]        # scalar path only: Python ints

    def arr(pairs_):
        a = np.zeros(len(pairs_), dtype=[("second_fractions", "<u8"), ("seconds", "<i8")])
        for i, (s, f) in enumerate(pairs_):
            a["seconds"][i] = s
            a["second_fractions"][i] = f
        return TimestampArray(a)
    enc_dt = lambda r: z(i64(r))                                                  # noqa: E731
    glob = vars(ts_mod)
    fr_s = fragment_function(frags["scalar_steps_gen"], ["self", "resolution"], "steps", glob)
    fr_a = fragment_function(frags["array_steps_gen"], ["self", "resolution"], "steps", glob)
    conv, steps_c = [], []
    in64 = lambda s: -M <= s < M                                                  # noqa: E731
    grid = [(s, f) for s in ss[:13] for f in ff] + [(s, f) for s in ss[13:] for f in (0, 1, W - 1, W - 4096, M)]
    for k, u in enumerate(units):
        for s, f in grid:
            sc = observe(lambda: TdmsTimestamp(s, f).as_datetime64(u), enc_dt)
            ar = observe(lambda: arr([(s, f)]).as_datetime64(u)[0], enc_dt) if in64(s) else "Err EFuel"
            conv.append("(%d, %s, %s, %s, %s)" % (k, z(s), z(f), sc, ar))
        for f in ff:
            steps_c.append("(%d, %s, %s, %s)" % (k, z(f), observe(lambda: fr_s(TdmsTimestamp(0, f), u), z),
                                                 observe(lambda: int(fr_a(arr([(0, f)]), u)[0]), z)))
    out.append(example(
        "as_datetime64", "Z * Z * Z * res Z * res Z", conv,
        "fun '(k, s, f, sc, ar) => st_res Z.eqb (scalar_as_datetime64_gen (st_unit k) s f) sc &&\n"
        "    match ar with Err EFuel => true | _ => st_res Z.eqb (array_as_datetime64_gen (st_unit k) s f) ar end"))
    counts["as_datetime64"] = len(conv)
    out.append(example(
        "steps", "Z * Z * res Z * res Z", steps_c,
        "fun '(k, f, sc, ar) => st_res Z.eqb (scalar_steps_gen (st_unit k) 0 f) sc && "
        "st_res Z.eqb (array_steps_gen (st_unit k) 0 f) ar"))
    counts["steps"] = len(steps_c)
    pyc = []
    for k, u in enumerate(units):
        for s in (0, 3524551547, M, -M - 1):
            for f in ff_py + [5]:
                pyc.append("(%d, %s, %s, %s)" % (k, z(s), z(f), observe(lambda: TdmsTimestamp(s, f).as_datetime64(u), enc_dt)))
    out.append(example("scalar_python_ints", "Z * Z * Z * res Z", pyc,
                       "fun '(k, s, f, r) => st_res Z.eqb (scalar_as_datetime64_gen (st_unit k) s f) r"))
    counts["scalar_python_ints"] = len(pyc)
    # whole arrays (several elements; one failing element fails the call)
    lists = [[(0, 0)], [(3524551547, 12345678900000000000), (-1, W - 1), (2 ** 32, 2 ** 32)],
             [(1, 1), (M - 1, 0), (2, 2)], [(5, 5), (-M, 0)], [], [(-1703980800, 9223353590110702099)] * 3,
             [(3660681616, 18446744073710), (3660681616, 18446744073709)], [(0, W - 4096), (0, W - 4097)],
             [(-M + 2082844800 + 1, 0)], [(-M + 2082844800 + 2, 0), (0, 0)], [((M - 1) // 10 ** 6 + 2082844800, W - 1)]]
    lc = []
    for k, u in enumerate(units):
        for l in lists:
            lc.append("(%d, [%s], %s)" % (k, "; ".join("(%s, %s)" % (z(s), z(f)) for s, f in l), observe(
                lambda: arr(l).as_datetime64(u), lambda r: "[" + "; ".join(z(x) for x in r.astype(np.int64)) + "]")))
    out.append(example("array_lists", "Z * list (Z * Z) * res (list Z)", lc,
                       "fun '(k, l, r) => st_res (st_list Z.eqb) (array_as_datetime64_list_gen (st_unit k) l) r"))
    counts["array_lists"] = len(lc)
    # TdmsTimestamp.bytes
    bc = []
    for s in (0, -1, M - 1, M, -M, -M - 1, 3524551547):
        for f in (0, 1, W - 1, W, -1, 12345678900000000000):
            bc.append("(%s, %s, %s)" % (z(s), z(f), observe(lambda: TdmsTimestamp(s, f).bytes, hexs)))
    out.append(example("tdms_timestamp_bytes", "Z * Z * res bytes", bc,
                       "fun '(s, f, r) => st_res st_bytes (tdms_timestamp_bytes_gen s f) r"))
    counts["tdms_timestamp_bytes"] = len(bc)
    return "\n".join(out), counts


def write_if_changed(path, text):
    old = None
    try:
        old = open(path).read()
    except OSError:
        pass
    if old != text:
        os.makedirs(os.path.dirname(path), exist_ok=True)
        tmp = path + ".tmp.%d" % os.getpid()
        with open(tmp, "w") as fh:
            fh.write(text)
        os.replace(tmp, path)
        print("%s: wrote %s" % (ME, os.path.relpath(path, VERIF)))
    else:
        print("%s: %s up to date" % (ME, os.path.relpath(path, VERIF)))


def main():
    try:
        cx, sigs, frags = translate()
    except T.Unsupported as e:
        die(str(e))
    st_text, counts = selftest(frags)
    text = header() + N.PRELUDE + "\n" + "\n\n".join(cx.defs) + "\n\n" + LIST_FNS + "\n" + st_text
    write_if_changed(OUT, text)
    print("%s: %d functions translated; self-test cases: %s"
          % (ME, len(sigs), ", ".join("%s %d" % kv for kv in counts.items())))


if __name__ == "__main__":
    main()
