"""Self-test for gen_pyfuncs_daqmxread.py: the REAL DaqmxDataReader._read_data_chunk / scaler methods of nptdms are run on
real bytes (io.BytesIO) and real segment objects (built by DaqmxSegmentObject.read_raw_data_index from real index bytes);
inputs and observed results (arrays with their dtypes, the file position, the exception class) are written as Gallina
terms into `Example`s that vm_compute checks against the translated definitions whenever the file is built.
"""
import io
import random
import struct
import sys
import warnings

import decode_sem as S

ERR = {"ValueError": "EValue", "TypeError": "EType", "AttributeError": "EOther", "IndexError": "EIndex",
       "KeyError": "EKey", "NotImplementedError": "ENotImpl", "error": "EStruct", "ZeroDivisionError": "EOther",
       "Exception": "EOther", "OverflowError": "EOther"}


def z(n):
    n = int(n)
    return "%d" % n if n >= 0 else "(%d)" % n


def hx(b):
    return "[" + ";".join("x%02x" % c for c in bytes(b)) + "]"


def clist(items):
    return "[" + "; ".join(items) + "]"


def err_of(ex, die):
    for k in type(ex).__mro__:
        if k.__name__ in ERR:
            return ERR[k.__name__]
    die("self-test: unexpected exception %r" % (ex,))


ST_PRELUDE = """\
(* ---- self test: results of the REAL code (nptdms.daqmx on io.BytesIO streams, the installed NumPy) ---- *)
Definition drd_st_res {A} (eq : A -> A -> bool) (a b : res A) : bool :=
  match a, b with Ok x, Ok y => eq x y | Err x, Err y => err_eqb x y | _, _ => false end.
Fixpoint drd_st_list {A} (eq : A -> A -> bool) (a b : list A) : bool :=
  match a, b with
  | [], [] => true
  | x :: a', y :: b' => eq x y && drd_st_list eq a' b'
  | _, _ => false
  end.
Definition drd_st_pair {A B} (ea : A -> A -> bool) (eb : B -> B -> bool) (a b : A * B) : bool :=
  ea (fst a) (fst b) && eb (snd a) (snd b).
Definition drd_st_opt {A} (eq : A -> A -> bool) (a b : option A) : bool :=
  match a, b with Some x, Some y => eq x y | None, None => true | _, _ => false end.
Definition drd_endian_eqb (a b : endian) : bool := match a, b with LE, LE | BE, BE => true | _, _ => false end.
Definition drd_field_eqb (a b : string * (ascii * Z * endian)) : bool :=
  let '(n1, (k1, w1, o1)) := a in let '(n2, (k2, w2, o2)) := b in
  String.eqb n1 n2 && Ascii.eqb k1 k2 && (w1 =? w2) && drd_endian_eqb o1 o2.
Definition drd_npdtype_eqb (a b : npdtype) : bool :=
  match a, b with
  | DNum k1 w1 o1, DNum k2 w2 o2 => Ascii.eqb k1 k2 && (w1 =? w2) && drd_endian_eqb o1 o2
  | DStruct f1, DStruct f2 => drd_st_list drd_field_eqb f1 f2
  | _, _ => false
  end.
Definition drd_nparr_eqb (a b : nparr) : bool := drd_npdtype_eqb (a_dtype a) (a_dtype b) && bytes_eqb (a_raw a) (a_raw b).
Definition drd_pydata_eqb (a b : pydata) : bool :=
  match a, b with
  | DArr x, DArr y => drd_nparr_eqb x y
  | DStrs x, DStrs y => drd_st_list bytes_eqb x y
  | _, _ => false
  end.
Definition drd_rcdc_eqb (a b : rcdc) : bool :=
  drd_st_opt drd_pydata_eqb (rc_data a) (rc_data b)
  && drd_st_opt (drd_st_list (drd_st_pair Z.eqb drd_nparr_eqb)) (rc_scaler_data a) (rc_scaler_data b).
Definition drd_mapr {A B} (f : A -> B) (r : res A) : res B := match r with Ok a => Ok (f a) | Err e => Err e end.
(* a DAQmx segment object as DaqmxSegmentObject.read_raw_data_index leaves it (data_size stays 0) *)
Definition drd_obj (path : bytes) (n dt kind : Z) (scalers : list scaler) (widths : list Z) : sobj :=
  mkSobj path true n 0 (Some dt) (Some (mkDq kind scalers widths)).
"""


def example(name, ctype, cases, check, die, minimum=8, chunk=60):
    if len(cases) < minimum:
        die("self-test grid of %s is too small (%d cases)" % (name, len(cases)))
    out = []
    for k in range(0, len(cases), chunk):
        part = cases[k:k + chunk]
        nm = name if len(cases) <= chunk else "%s_%d" % (name, k // chunk)
        out.append("Definition drd_st_%s_cases : list (%s) :=\n  [%s].\n" % (nm, ctype, ";\n   ".join(part)))
        out.append("Example drd_st_%s : forallb %s drd_st_%s_cases = true.\nProof. vm_compute. reflexivity. Qed.\n" % (nm, check, nm))
    return "\n".join(out)


def arr_term(a):
    import numpy as np
    a = np.asarray(a)
    if a.ndim != 1:
        raise ValueError("not 1-D")
    return "(mkArr %s %s)" % (S.dtype_term(a.dtype), hx(np.ascontiguousarray(a).tobytes()))


def selftest(repo, die):
    sys.path.insert(0, repo)
    import numpy as np
    from nptdms import daqmx, types, tdms_segment
    import logging
    logging.disable(logging.CRITICAL)
    warnings.simplefilter("ignore")
    FC, DL = daqmx.FORMAT_CHANGING_SCALER, daqmx.DIGITAL_LINE_SCALER
    rnd = random.Random(20261002)
    T_RAW = types.DaqMxRawData.enum_value
    counts = {}

    def mkobj(path, kind, dt, nvals, scalers, widths, endian):
        b = struct.pack(endian + "L", dt) + struct.pack(endian + "LQL", 1, nvals, len(scalers))
        for (code, buf, off, fmt, sid) in scalers:
            b += struct.pack(endian + ("LLLLL" if kind == FC else "LLLBL"), code, buf, off, fmt, sid)
        b += struct.pack(endian + "L", len(widths)) + b"".join(struct.pack(endian + "L", w) for w in widths)
        o = daqmx.DaqmxSegmentObject(path)
        f = io.BytesIO(b)
        o.read_raw_data_index(f, kind, endian)
        if f.tell() != len(b):
            die("self-test: index bytes not consumed")
        o.has_data = True
        return o

    def obj_term(spec):
        if spec[0] == "plain":
            _, path, nvals, dt = spec
            return "(mkSobj %s true %s %s (Some %s) None)" % (hx(path.encode()), z(nvals), z(nvals * 4), z(dt))
        path, kind, dt, nvals, scalers, widths = spec
        sc = clist(["mkScaler %s %s %s %s %s" % tuple(z(x) for x in s) for s in scalers])
        return "(drd_obj %s %s %s %s %s %s)" % (hx(path.encode()), z(nvals), z(dt), z(kind), sc, clist([z(w) for w in widths]))

    def real_obj(spec, endian):
        if spec[0] == "plain":
            _, path, nvals, dt = spec
            o = tdms_segment.TdmsSegmentObject(path)
            o.has_data, o.number_values, o.data_type, o.data_size = True, nvals, types.tds_data_types[dt], nvals * 4
            return o
        path, kind, dt, nvals, scalers, widths = spec
        return mkobj(path, kind, dt, nvals, scalers, widths, endian)

    # ---- configurations: lists of object specs
    I16, I32, U16, U8, I8, U32, F32, F64, TS, U64, I64 = 3, 5, 2, 0, 1, 4, 8, 9, 0xFFFFFFFF, 6, 7
    configs = [
        # one raw channel, two scalers in one buffer of width 6
        [("/'g'/'a'", FC, T_RAW, 3, [(I16, 0, 0, 0, 0), (I32, 0, 2, 0, 1)], [6])],
        # two raw channels, two buffers of widths 4 and 2, different lengths
        [("/'g'/'a'", FC, T_RAW, 3, [(I32, 0, 0, 0, 7)], [4, 2]), ("/'g'/'b'", FC, T_RAW, 2, [(U16, 1, 0, 0, 7)], [4, 2])],
        # a channel with scalers in both buffers, a second channel sharing buffer 0 (overlapping columns)
        [("/'g'/'a'", FC, T_RAW, 2, [(U8, 0, 3, 0, 2), (I16, 1, 0, 0, 5)], [4, 2]),
         ("/'g'/'b'", FC, T_RAW, 2, [(U32, 0, 0, 0, 0)], [4, 2])],
        # a typed channel (Int16, one scaler of its type) beside a raw one
        [("/'g'/'t'", FC, 2, 2, [(I16, 0, 2, 0, 0)], [4]), ("/'g'/'r'", FC, T_RAW, 2, [(I16, 0, 0, 0, 1)], [4])],
        # floats, 64-bit integers and timestamps
        [("/'g'/'f'", FC, T_RAW, 2, [(F32, 0, 0, 0, 0), (F64, 0, 4, 0, 1), (U64, 0, 12, 0, 2), (I64, 0, 20, 0, 3),
                                     (TS, 0, 28, 0, 4)], [44])],
        # a column outside the row (IndexError), also with an empty buffer
        [("/'g'/'a'", FC, T_RAW, 2, [(I32, 0, 2, 0, 0)], [4])],
        [("/'g'/'a'", FC, T_RAW, 0, [(I32, 0, 2, 0, 0)], [4])],
        # the same scale id twice, the same path twice (later entries overwrite)
        [("/'g'/'a'", FC, T_RAW, 2, [(U8, 0, 0, 0, 1), (U8, 0, 1, 0, 1)], [2]),
         ("/'g'/'a'", FC, T_RAW, 2, [(U8, 0, 1, 0, 3)], [2])],
        # a typed channel listed twice
        [("/'g'/'t'", FC, 5, 2, [(U8, 0, 0, 0, 0)], [2]), ("/'g'/'t'", FC, 5, 2, [(U8, 0, 1, 0, 0)], [2])],
        # mismatching widths (ValueError), a buffer index outside the widths (IndexError)
        # (width 0 is left out: raw_data_widths holds np.int32 values, whose `//` by zero gives 0 with a warning where
        #  the translation -- Python ints -- has ZeroDivisionError; see the conventions of the driver)
        [("/'g'/'a'", FC, T_RAW, 2, [(U8, 0, 0, 0, 0)], [2]), ("/'g'/'b'", FC, T_RAW, 2, [(U8, 0, 0, 0, 0)], [3])],
        [("/'g'/'a'", FC, T_RAW, 2, [(U8, 1, 0, 0, 0)], [2])],
        # a non-DAQmx object among the data objects
        [("/'g'/'a'", FC, T_RAW, 2, [(U8, 0, 0, 0, 0)], [2]), ("plain", "/'g'/'p'", 2, 3)],
        # no objects at all
        [],
        # digital lines: bits of bytes 0 and 1, uint8 / int8 (bit 7) / uint16 / int32 / uint64
        [("/'g'/'d'", DL, T_RAW, 3, [(U8, 0, 0, 0, 0), (U8, 0, 7, 0, 1), (U8, 0, 9, 0, 2), (I8, 0, 15, 0, 3)], [2])],
        [("/'g'/'d'", DL, T_RAW, 2, [(U16, 0, 3, 0, 0), (I32, 0, 13, 0, 1), (U64, 0, 6, 0, 2), (I64, 0, 7, 0, 3)], [9])],
        # a typed digital channel (Uint8)
        [("/'g'/'d'", DL, 5, 4, [(U8, 0, 10, 0, 0)], [2])],
        # digital line scaler of a float / timestamp type: the bitwise ufuncs refuse it
        [("/'g'/'d'", DL, T_RAW, 2, [(F32, 0, 0, 0, 0)], [4])],
        [("/'g'/'d'", DL, T_RAW, 1, [(TS, 0, 0, 0, 0)], [16])],
        # digital: bit offset beyond the row
        [("/'g'/'d'", DL, T_RAW, 2, [(U8, 0, 16, 0, 0)], [2])],
    ]

    def total(cfg, endian):
        try:
            dims = daqmx.get_buffer_dimensions([real_obj(s, endian) for s in cfg if s[0] != "plain"])
        except Exception:                                               # noqa: BLE001
            return 8
        return sum(int(n) * int(w) for n, w in dims)

    cases = []
    for ci, cfg in enumerate(configs):
        for endian in "<>":
            full = total(cfg, endian)
            lens = sorted(set([0, full, full + 3] + ([full - 1, full // 2, 1] if full > 0 else [])))
            for ln in lens:
                if ln < 0:
                    continue
                data = bytes(rnd.randrange(256) for _ in range(ln))
                objs = [real_obj(s, endian) for s in cfg]
                f = io.BytesIO(data)
                reader = daqmx.DaqmxDataReader(1, None, endian)
                try:
                    chunk = reader._read_data_chunk(f, objs, 0)
                    ents = []
                    for path, c in chunk.channel_data.items():
                        dt = "None" if c.data is None else "(Some (DArr %s))" % arr_term(c.data)
                        sd = "None" if c.scaler_data is None else "(Some %s)" % clist(
                            ["(%s, %s)" % (z(k), arr_term(v)) for k, v in c.scaler_data.items()])
                        ents.append("(%s, mkRcdc %s %s)" % (hx(path.encode()), dt, sd))
                    res = "Ok (%s, %s)" % (clist(ents), hx(data[f.tell():]))
                    counts["ok"] = counts.get("ok", 0) + 1
                except Exception as ex:                                 # noqa: BLE001
                    res = "Err %s" % err_of(ex, die)
                    counts["raise"] = counts.get("raise", 0) + 1
                cases.append("(%s, %s, %s, %s)" % ("LE" if endian == "<" else "BE", clist([obj_term(s) for s in cfg]), hx(data), res))
    out = [ST_PRELUDE]
    out.append(example(
        "read_data_chunk", "endian * list sobj * bytes * res (list (bytes * rcdc) * bytes)", cases,
        "(fun '(e, objs, file, r) => drd_st_res (drd_st_pair (drd_st_list (drd_st_pair bytes_eqb drd_rcdc_eqb)) bytes_eqb)\n"
        "      (drd_mapr (fun p => (rdc_channel_data (fst p), snd p)) (daqmx_read_data_chunk_gen e file objs 0)) r)", die, minimum=100))

    # ---- the scaler methods on arrays of every integer dtype (and two that are refused)
    pcases = []
    for dts in ("u1", "i1", "<u2", ">u2", "<i2", ">i4", "<u4", "<i8", ">u8", "<f4", ">f8"):
        dt = np.dtype(dts)
        for off in (0, 1, 7, 8, 15, 31, 63, 64, 200):
            raw = bytes(rnd.randrange(256) for _ in range(dt.itemsize * 3))
            if dts == "i1" and off == 7:
                raw = bytes([0x80, 0xFF, 0x7F])
            a = np.frombuffer(raw, dtype=dt)
            for kind in (DL, FC):
                sc = (daqmx.DigitalLineScaler if kind == DL else daqmx.DaqMxScaler).__new__(
                    daqmx.DigitalLineScaler if kind == DL else daqmx.DaqMxScaler)
                if kind == DL:
                    sc.raw_bit_offset = off
                else:
                    sc.raw_byte_offset = off
                try:
                    r = "Ok (%s, %s)" % (z(sc.byte_offset()), arr_term(sc.postprocess_data(a)))
                except Exception as ex:                                 # noqa: BLE001
                    r = "Err %s" % err_of(ex, die)
                pcases.append("(%s, %s, %s, %s)" % (z(kind), z(off), arr_term(a), r))
    counts["scaler_methods"] = len(pcases)
    out.append(example(
        "scaler_methods", "Z * Z * nparr * res (Z * nparr)", pcases,
        "(fun '(kind, off, a, r) => drd_st_res (drd_st_pair Z.eqb drd_nparr_eqb)\n"
        "      (do b <- scaler_byte_offset_gen (mkPyScaler kind (mkScaler 0 0 off 0 0));\n"
        "       do p <- scaler_postprocess_data_gen (mkPyScaler kind (mkScaler 0 0 off 0 0)) a; Ok (b, p)) r)", die, minimum=100,
        chunk=100))
    return "\n".join(out), counts
