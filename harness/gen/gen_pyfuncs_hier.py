#!/venv/bin/python
"""Fail-closed translator: the HIERARCHY CONSTRUCTION of npTDMS's TdmsFile -> coq/theories/Gen/PyFuncsHier.v

Translated with Python `ast` (harness/gen/py2gallina.py + harness/gen/meta_common.py; nptdms is imported only for
the self-test, harness/gen/hier_selftest.py):

  nptdms/tdms.py   TdmsFile._read_file: the statements from `group_properties = OrderedDict()` to the last group
                   loop (the loop over tdms_reader.object_metadata in order; root / group / channel by
                   ObjectPath.from_string; which dictionary the group-level and file-level properties handed to a
                   channel come from; groups created implicitly for channels; order of first appearance),
                   TdmsChannel.__init__ and TdmsGroup.__init__ (which argument lands in which field; the channel
                   dictionary keyed by c.name), TdmsFile.groups / __getitem__, TdmsGroup.channels / __getitem__

Conventions.
 * `tdms_reader.object_metadata` is the parameter `object_metadata`: Model/SegState.v `alist ometa` (what the
   metadata pass left; Gen/PyFuncsSegState.v).  A property dictionary is `alist prop`.
 * `ObjectPath.from_string(s)` is Model/Path.v from_string on the UTF-8 bytes (the parser C16 is about), ValueError
   when it rejects (more than two components: ObjectPath.__init__'s ValueError); an ObjectPath is its
   (group, channel) pair; is_root / is_group / group_path / __str__ are checked against their one-line bodies.
   `path.group` / `path.channel` are read as b'' where Python has None (root / group paths); the translated code
   reads them only behind the is_root / is_group tests.
 * `self._convert_properties(d)` keeps keys and order and converts timestamp VALUES unless raw_timestamps is set
   (checked against its text); the value conversion is C12's, here it is the identity on typed properties.
 * A TdmsChannel / TdmsGroup is the record of the fields its __init__ assigns from its arguments (`gchan`,
   `ggroup`); tdms_reader, raw_timestamps, memmap_dir are opaque.  `name`, `path`, `group_name` are checked
   against their one-line bodies.
 * `try: X = D[k] except KeyError: X = E` (or `pass`) is a lookup with default; `D[k].append(x)` replaces the list
   stored under k; `{}` and `OrderedDict()` are the empty dictionary.

Anything unrecognised: message on stderr, exit 1, nothing written.
"""
import ast
import copy as _copy
import os
import sys

HERE = os.path.dirname(os.path.abspath(__file__))
sys.path.insert(0, HERE)
import py2gallina as T                                             # noqa: E402
from py2gallina import Z, B, NONE, BYTES, OPT, LIST, TUP, REC       # noqa: E402
import np_sem as N                                                 # noqa: E402
import meta_common as M                                            # noqa: E402
from meta_common import unp, body_of, comment_of                    # noqa: E402

VERIF = M.VERIF
REPO = M.REPO
OUT = os.path.join(VERIF, "coq", "theories", "Gen", "PyFuncsHier.v")
ME = "gen_pyfuncs_hier"
D = M.Driver(ME)
die = D.die

OMETA, PROP, OPATH, GCHAN, GGROUP = REC("ometa"), REC("prop"), REC("opath"), REC("gchan"), REC("ggroup")
CLS, ZDICT, OPAQUE = ("clsv",), ("zdict",), ("opaque",)


def ADICT(v):
    return ("adict", v)


PROPS = ADICT(PROP)

ATTR = {
    ("ometa", "properties"): ("om_props", PROPS, None),
    ("ometa", "data_type"): ("om_dtype", OPT(CLS), None),
    ("ometa", "scaler_data_types"): ("om_scalers", OPT(ZDICT), None),
    ("ometa", "num_values"): ("om_len", Z, None),
    ("opath", "is_root"): ("op_is_root", B, None),
    ("opath", "is_group"): ("op_is_group", B, None),
    ("opath", "group"): ("op_group_str", BYTES, None),
    ("opath", "channel"): ("op_channel_str", BYTES, None),
    ("gchan", "name"): ("gchan_name", BYTES, None),
    ("gchan", "path"): ("gchan_path", BYTES, None),
    ("gchan", "group_name"): ("gchan_group_name", BYTES, None),
    ("ggroup", "name"): ("ggroup_name", BYTES, None),
    ("ggroup", "path"): ("ggroup_path", BYTES, None),
}
OPATH_PROPS = {"is_root": "return self.group is None",
               "is_group": "return self.group is not None and self.channel is None"}
CHAN_PROPS = {"path": "return str(self._path)", "name": "return self._path.channel", "group_name": "return self._path.group"}
GROUP_PROPS = {"path": "return str(self._path)", "name": "return self._path.group"}
CONVERT = ["def convert_prop(val):\n    if isinstance(val, TdmsTimestamp) and (not self._raw_timestamps):\n"
           "        return val.as_datetime64()\n    return val",
           "return OrderedDict(((k, convert_prop(v)) for k, v in properties.items()))"]

PRELUDE = """\
(* ---- the Python primitives the translation relies on (fixed text) ---- *)
Definition need {A} (e : err) (o : option A) : res A :=
  match o with Some a => Ok a | None => Err e end.
Definition is_none {A} (o : option A) : bool :=
  match o with None => true | Some _ => false end.
Definition err_eqb (a b : err) : bool :=
  match a, b with
  | EEof, EEof | EValue, EValue | EKey, EKey | EStruct, EStruct | ENotImpl, ENotImpl | EIndex, EIndex
  | ERuntime, ERuntime | EType, EType | EOther, EOther | EFuel, EFuel => true
  | _, _ => false
  end.
Definition py_catch {A} (e : err) (r h : res A) : res A :=
  match r with
  | Err e' => if err_eqb e' e then h else r
  | Ok _ => r
  end.
""" + M.PRELUDE_OBJECTS + """\

(* an ObjectPath: (group, channel) *)
Definition opath := (option bytes * option bytes)%type.
(* nptdms/common.py ObjectPath.is_root / is_group (the driver checks their one-line bodies) *)
Definition op_is_root (p : opath) : bool := is_none (fst p).
Definition op_is_group (p : opath) : bool := negb (is_none (fst p)) && is_none (snd p).
(* path.group / path.channel where they are strings (read behind the is_root / is_group tests) *)
Definition op_group_str (p : opath) : bytes := match fst p with Some g => g | None => [] end.
Definition op_channel_str (p : opath) : bytes := match snd p with Some c => c | None => [] end.
(* ObjectPath.from_string: Model/Path.v from_string on the UTF-8 bytes; ValueError when rejected *)
Definition opath_from_string (s : bytes) : res opath :=
  match from_string byte Byte.eqb x27 x2f s with
  | inr p => Ok p
  | inl _ => Err EValue
  end.
(* ObjectPath(group) *)
Definition opath_group (g : bytes) : opath := (Some g, None).
(* str(path) = path._path = _components_to_path(group, channel);  path.group_path() = _components_to_path(group, None) *)
Definition opath_str (p : opath) : bytes := components_to_path byte Byte.eqb x27 x2f (fst p) (snd p).
Definition op_group_path (p : opath) : bytes := components_to_path byte Byte.eqb x27 x2f (fst p) None.

(* a TdmsChannel: the fields TdmsChannel.__init__ takes from its arguments *)
Record gchan := mkGchan {
  gc_path : opath; gc_props : alist prop; gc_length : Z; gc_dtype : option Z; gc_scalers : option (list (Z * Z));
  gc_group_props : alist prop; gc_file_props : alist prop }.
(* TdmsChannel.path / name / group_name (the driver checks their one-line bodies) *)
Definition gchan_path (c : gchan) : bytes := opath_str (gc_path c).
Definition gchan_name (c : gchan) : bytes := op_channel_str (gc_path c).
Definition gchan_group_name (c : gchan) : bytes := op_group_str (gc_path c).
(* a TdmsGroup *)
Record ggroup := mkGgroup { gg_path : opath; gg_props : alist prop; gg_chans : alist gchan }.
Definition ggroup_path (g : ggroup) : bytes := opath_str (gg_path g).
Definition ggroup_name (g : ggroup) : bytes := op_group_str (gg_path g).
"""


class Rewrite(ast.NodeTransformer):
    """str constants -> their UTF-8 bytes; `{}` -> OrderedDict(); tdms_reader.object_metadata -> object_metadata"""

    def visit_Raise(self, n):
        return n

    def visit_Constant(self, n):
        if type(n.value) is str:
            return ast.copy_location(ast.Constant(value=n.value.encode("utf-8")), n)
        return n

    def visit_Dict(self, n):
        if not n.keys:
            return ast.copy_location(M.call("OrderedDict"), n)
        return self.generic_visit(n)

    def visit_Attribute(self, n):
        if unp(n) == "tdms_reader.object_metadata":
            return ast.copy_location(M.name("object_metadata"), n)
        return self.generic_visit(n)


def translate():
    src_c, tree_c = D.parse("common.py")
    src_t, tree_t = D.parse("tdms.py")
    for nm, text in OPATH_PROPS.items():
        D.expect_body(D.find(tree_c, nm, "ObjectPath", decorators=("property",)), [text], "ObjectPath.%s" % nm)
    D.expect_body(D.find(tree_c, "group_path", "ObjectPath"), ["return _components_to_path(self.group, None)"], "ObjectPath.group_path")
    D.expect_body(D.find(tree_c, "__str__", "ObjectPath"), ["return self._path"], "ObjectPath.__str__")
    D.expect_body(D.find(tree_c, "from_string", "ObjectPath", decorators=("staticmethod",)),
                  ["components = list(_path_components(path_string))", "return ObjectPath(*components)"], "ObjectPath.from_string")
    f = D.find(tree_c, "__init__", "ObjectPath") if False else None
    init = [n for n in D.klass(tree_c, "ObjectPath").body if isinstance(n, ast.FunctionDef) and n.name == "__init__"]
    if len(init) != 1 or [unp(s) for s in body_of(init[0])] != [
            "self.group = None", "self.channel = None", "if len(path_components) > 0:\n    self.group = path_components[0]",
            "if len(path_components) > 1:\n    self.channel = path_components[1]",
            "if len(path_components) > 2:\n    raise ValueError('Object path may only have up to two components')",
            "self._path = _components_to_path(self.group, self.channel)"]:
        die("ObjectPath.__init__ is no longer the expected text")
    for nm, text in CHAN_PROPS.items():
        D.expect_body(D.find(tree_t, nm, "TdmsChannel", decorators=("property",)), [text], "TdmsChannel.%s" % nm)
    for nm, text in GROUP_PROPS.items():
        D.expect_body(D.find(tree_t, nm, "TdmsGroup", decorators=("property",)), [text], "TdmsGroup.%s" % nm)
    D.expect_body(D.find(tree_t, "_convert_properties", "TdmsFile"), CONVERT, "TdmsFile._convert_properties")
    D.no_special_methods(tree_t, "TdmsChannel", ("__eq__", "__hash__", "__setattr__", "__getattr__"))
    D.no_special_methods(tree_t, "TdmsGroup", ("__eq__", "__hash__", "__setattr__", "__getattr__"))
    finit = [unp(s) for s in body_of(D.find(tree_t, "__init__", "TdmsFile"))]
    if "self._groups = OrderedDict()" not in finit or "self._properties = OrderedDict()" not in finit:
        die("TdmsFile.__init__ no longer initialises _groups and _properties with OrderedDict()")
    for s in finit[:finit.index("self._reader = TdmsReader(file)")]:
        pass

    cx = T.Cx(dict(ATTR), {}, {}, {})
    cx.kwcalls = False
    cx.genexp_as_list = True
    cx.try_catch = True
    cx.methods = {("opath", "group_path"): ("op_group_path", [], BYTES)}
    sem = N.NpSem()
    cx.np = sem
    M.Hooks(sem, {}, cls_type=CLS)
    sigs = {}

    def fun(gen, stmts, params, env0, outputs, comment, **kw):
        rty = T.function(cx, gen, stmts, params, env0, outputs, comment, **kw)
        sigs[gen] = (params, rty)
        return rty

    def calls(e, env, h, cx_):
        fn = unp(e.func)
        if e.keywords:
            return None
        if fn == "ObjectPath.from_string" and len(e.args) == 1:
            s, sty = T.ex(e.args[0], env, h, cx_)
            if sty != BYTES:
                T.fail(e, "ObjectPath.from_string of %r" % (sty,))
            return sem.hoist(e, h, cx_, "opath_from_string %s" % s), OPATH
        if fn == "ObjectPath" and len(e.args) == 1:
            g, gty = T.ex(e.args[0], env, h, cx_)
            if gty != BYTES:
                T.fail(e, "ObjectPath of %r" % (gty,))
            return "(opath_group %s)" % g, OPATH
        if fn == "OrderedDict" and not e.args:
            return "[]", ("adict", None)
        if fn == "self._convert_properties" and len(e.args) == 1:
            t, ty = T.ex(e.args[0], env, h, cx_)
            if ty != PROPS:
                T.fail(e, "_convert_properties of %r" % (ty,))
            return t, ty
        if fn == "list" and len(e.args) == 1 and isinstance(e.args[0], ast.Call) and isinstance(e.args[0].func, ast.Attribute) \
                and e.args[0].func.attr == "values" and not e.args[0].args:
            return T.ex(e.args[0], env, h, cx_)
        if fn == "str" and len(e.args) == 1:
            t, ty = T.ex(e.args[0], env, h, cx_)
            if ty != OPATH:
                T.fail(e, "str of %r" % (ty,))
            return "(opath_str %s)" % t, BYTES
        if isinstance(e.func, ast.Attribute) and e.func.attr == "get" and len(e.args) == 2 and T.key_of(e.func.value) in env \
                and env[T.key_of(e.func.value)][1][0] == "adict":
            d, dty = env[T.key_of(e.func.value)]
            k, kty = T.ex(e.args[0], env, h, cx_)
            v, vty = T.ex(e.args[1], env, h, cx_)
            if kty != BYTES:
                T.fail(e, "dict key of type %r" % (kty,))
            if dty[1] is None:          # a still untyped empty dictionary: the default decides
                return "(match alookup %s %s with Some v__ => v__ | None => %s end)" % (k, d, v), vty
            return "(match alookup %s %s with Some v__ => v__ | None => %s end)" % (k, d, coerce_dict(v, vty, dty[1], e)), dty[1]
        return None

    def coerce_dict(t, ty, want, node):
        if ty == want:
            return t
        if ty == ("adict", None) and want[0] == "adict":
            return t
        if ty == LIST(None) and want[0] == "list":
            return t
        T.fail(node, "value of type %r where %r is expected" % (ty, want))

    def statements(s, rest, env, K, sc, cx_):
        # try: X = D[k]  except KeyError: X = E  /  pass
        if isinstance(s, ast.Try) and len(s.body) == 1 and len(s.handlers) == 1 and not s.orelse and not s.finalbody \
                and unp(s.handlers[0].type) == "KeyError" and s.handlers[0].name is None and isinstance(s.body[0], ast.Assign) \
                and len(s.body[0].targets) == 1 and isinstance(s.body[0].value, ast.Subscript) \
                and T.key_of(s.body[0].value.value) in env and env[T.key_of(s.body[0].value.value)][1][0] == "adict":
            tgt = s.body[0].targets[0]
            k = T.key_of(tgt)
            hb = [x for x in s.handlers[0].body if not T.is_skip(x)]
            if k is None or len(hb) > 1:
                T.fail(s, "try / except KeyError shape")
            d, dty = env[T.key_of(s.body[0].value.value)]
            h = T.Hoist()
            kt, kty = T.ex(s.body[0].value.slice, env, h, cx_)
            if kty != BYTES:
                T.fail(s, "dict key of type %r" % (kty,))
            if hb:
                if not (isinstance(hb[0], ast.Assign) and len(hb[0].targets) == 1 and T.key_of(hb[0].targets[0]) == k):
                    T.fail(s, "the handler does not assign the same variable")
                dt, dtyp = T.ex(hb[0].value, env, h, cx_)
                dflt = coerce_dict(dt, dtyp, dty[1], s)
            else:
                if k not in env or env[k][1] != dty[1]:
                    if k in env and env[k][1] == ("adict", None) and dty[1][0] == "adict":
                        pass
                    else:
                        T.fail(s, "`pass` in the handler, but %s has no value of type %r before" % (k, dty[1]))
                dflt = env[k][0]
            env2 = dict(env)
            env2[k] = (T.cname(k), dty[1])
            return T.wrap(h.pre, "let %s := match alookup %s %s with Some v__ => v__ | None => %s end in\n"
                          % (T.cname(k), kt, d, dflt)) + T.block(rest, env2, K, sc, cx_)
        # D[k].append(x)
        if isinstance(s, ast.Expr) and isinstance(s.value, ast.Call) and isinstance(s.value.func, ast.Attribute) \
                and s.value.func.attr == "append" and isinstance(s.value.func.value, ast.Subscript) \
                and T.key_of(s.value.func.value.value) in env and len(s.value.args) == 1 and not s.value.keywords:
            dk = T.key_of(s.value.func.value.value)
            d, dty = env[dk]
            h = T.Hoist()
            kt, kty = T.ex(s.value.func.value.slice, env, h, cx_)
            x, xty = T.ex(s.value.args[0], env, h, cx_)
            if dty == ("adict", None):
                dty = ("adict", LIST(xty))          # an empty dictionary: its items are lists of what is appended
            if dty[0] != "adict" or dty[1][0] != "list":
                T.fail(s, "append to an item of %r" % (dty,))
            if kty != BYTES or xty != dty[1][1]:
                T.fail(s, "append of %r under a key of type %r" % (xty, kty))
            v = cx_.tmp()
            env2 = dict(env)
            env2[dk] = (T.cname(dk), dty)
            return T.wrap(h.pre, "do %s <- need EKey (alookup %s %s);\nlet %s := aset %s (%s ++ [%s]) %s in\n"
                          % (v, kt, d, T.cname(dk), kt, v, x, d)) + T.block(rest, env2, K, sc, cx_)
        # X = OrderedDict() / D[k] = v where D is a still untyped empty dictionary
        if isinstance(s, ast.Assign) and len(s.targets) == 1 and isinstance(s.targets[0], ast.Subscript) \
                and T.key_of(s.targets[0].value) in env and env[T.key_of(s.targets[0].value)][1] == ("adict", None):
            dk = T.key_of(s.targets[0].value)
            h = T.Hoist()
            v, vty = T.ex(s.value, env, h, cx_)
            env2 = dict(env)
            env2[dk] = (env[dk][0], ("adict", vty))
            return T.block([s] + rest, env2, K, sc, cx_)
        return None

    sem.extra_calls.append(calls)
    sem.extra_statements.append(statements)
    old_coqty, old_join, old_coerce = T.coqty, T.join_ty, T.coerce

    def coqty2(t):
        if t == CLS:
            return "Z"
        if t == ZDICT:
            return "(list (Z * Z))"
        if t == OPAQUE:
            return "unit"
        return old_coqty(t)

    def join2(a, b):
        if a is not None and b is not None and a[0] == "adict" and b[0] == "adict" and (a[1] is None or b[1] is None):
            return a if b[1] is None else b
        return old_join(a, b)
    def coerce2(term, frm, to):
        if frm == ("adict", None) and to[0] == "adict":
            return term
        return old_coerce(term, frm, to)
    T.coqty, T.join_ty, T.coerce = coqty2, join2, coerce2
    try:
        # ---- TdmsChannel.__init__
        f = D.find(tree_t, "__init__", "TdmsChannel")
        names = ["self", "path", "data_type", "scaler_data_types", "number_values", "properties", "group_properties", "file_properties",
                 "tdms_reader", "raw_timestamps", "memmap_dir"]
        D.expect_args(f, names)
        ptys = [OPATH, OPT(CLS), OPT(ZDICT), Z, PROPS, PROPS, PROPS, OPAQUE, OPAQUE, OPAQUE]
        params = list(zip(names[1:], ptys))
        outs = ["self._path", "self.properties", "self._length", "self.data_type", "self.scaler_data_types", "self._group_properties",
                "self._file_properties"]
        rty = fun("tdms_channel_init_gen", f.body, params, {n: (n, t) for n, t in params}, outs, comment_of("tdms.py", "TdmsChannel", f))
        if rty != TUP(OPATH, PROPS, Z, OPT(CLS), OPT(ZDICT), PROPS, PROPS):
            die("TdmsChannel.__init__ leaves %r" % (rty,))
        cx.defs.append("(* TdmsChannel(..): the object whose fields __init__ has set *)\n"
                       "Definition tdms_channel_new (path : opath) (data_type : option Z) (scaler_data_types : option (list (Z * Z))) "
                       "(number_values : Z)\n    (properties group_properties file_properties : alist prop) (tdms_reader raw_timestamps memmap_dir : unit) "
                       ": res gchan :=\n  do t__ <- tdms_channel_init_gen path data_type scaler_data_types number_values properties group_properties "
                       "file_properties tdms_reader raw_timestamps memmap_dir;\n  let '(a, b, c, d, e, f, g) := t__ in Ok (mkGchan a b c d e f g).")
        cx.callees["TdmsChannel"] = ("tdms_channel_new", ptys, GCHAN, [])

        # ---- TdmsGroup.__init__
        f = D.find(tree_t, "__init__", "TdmsGroup")
        D.expect_args(f, ["self", "path", "properties", "channels"])
        params = [("path", OPATH), ("properties", PROPS), ("channels", LIST(GCHAN))]
        rty = fun("tdms_group_init_gen", f.body, params, {n: (n, t) for n, t in params}, ["self._path", "self.properties", "self._channels"],
                  comment_of("tdms.py", "TdmsGroup", f))
        if rty != TUP(OPATH, PROPS, ADICT(GCHAN)):
            die("TdmsGroup.__init__ leaves %r" % (rty,))
        cx.defs.append("(* TdmsGroup(..) *)\nDefinition tdms_group_new (path : opath) (properties : alist prop) (channels : list gchan) : res ggroup :=\n"
                       "  do t__ <- tdms_group_init_gen path properties channels;\n  let '(a, b, c) := t__ in Ok (mkGgroup a b c).")
        cx.callees["TdmsGroup"] = ("tdms_group_new", [OPATH, PROPS, LIST(GCHAN)], GGROUP, [])

        # ---- TdmsFile._read_file
        f = D.find(tree_t, "_read_file", "TdmsFile")
        D.expect_args(f, ["self", "tdms_reader", "read_metadata_only", "keep_open"])
        body = body_of(f)
        txt = [unp(s) for s in body]
        if txt[:2] != ["tdms_reader.read_metadata(require_segment_indexes=keep_open)", "self._tdms_version = tdms_reader.tdms_version"] \
                or txt[-1] != "if not read_metadata_only:\n    self._read_data(tdms_reader)" or txt[2] != "group_properties = OrderedDict()":
            die("_read_file: expected read_metadata, the version, the hierarchy construction, then the conditional _read_data")
        part = [Rewrite().visit(s) for s in _copy.deepcopy(body[2:-1])]
        ast.fix_missing_locations(ast.Module(body=part, type_ignores=[]))
        for s in part:
            for n in ast.walk(s):
                if isinstance(n, ast.Name) and n.id in ("read_metadata_only", "keep_open"):
                    die("_read_file: %s is used in the hierarchy construction" % n.id)
        params = [("object_metadata", ADICT(OMETA)), ("tdms_reader", OPAQUE), ("self__raw_timestamps", OPAQUE), ("self__memmap_dir", OPAQUE)]
        env0 = {"object_metadata": ("object_metadata", ADICT(OMETA)), "tdms_reader": ("tdms_reader", OPAQUE),
                "self._raw_timestamps": ("self__raw_timestamps", OPAQUE), "self._memmap_dir": ("self__memmap_dir", OPAQUE),
                "self._properties": ("[]", PROPS), "self._groups": ("[]", ADICT(GGROUP))}
        rty = fun("read_file_hierarchy_gen", part, params, env0, ["self._properties", "self._groups"],
                  comment_of("tdms.py", "TdmsFile", f, body[2:-1], note=": the hierarchy construction; self._properties and self._groups start as the\n"
                             "     empty OrderedDict()s of TdmsFile.__init__; the result is (self._properties, self._groups)"))
        if rty != TUP(PROPS, ADICT(GGROUP)):
            die("_read_file leaves %r" % (rty,))

        # ---- lookups
        f = D.find(tree_t, "groups", "TdmsFile")
        D.expect_args(f, ["self"])
        fun("tdms_file_groups_gen", f.body, [("self__groups", ADICT(GGROUP))], {"self._groups": ("self__groups", ADICT(GGROUP))}, [],
            comment_of("tdms.py", "TdmsFile", f))
        f = D.find(tree_t, "__getitem__", "TdmsFile")
        D.expect_args(f, ["self", "group_name"])
        params = [("self__groups", ADICT(GGROUP)), ("group_name", BYTES)]
        fun("tdms_file_getitem_gen", f.body, params, {"self._groups": ("self__groups", ADICT(GGROUP)), "group_name": ("group_name", BYTES)}, [],
            comment_of("tdms.py", "TdmsFile", f))
        f = D.find(tree_t, "channels", "TdmsGroup")
        D.expect_args(f, ["self"])
        fun("tdms_group_channels_gen", f.body, [("self", GGROUP)], {"self._channels": ("(gg_chans self)", ADICT(GCHAN))}, [],
            comment_of("tdms.py", "TdmsGroup", f))
        f = D.find(tree_t, "__getitem__", "TdmsGroup")
        D.expect_args(f, ["self", "channel_name"])
        fun("tdms_group_getitem_gen", f.body, [("self", GGROUP), ("channel_name", BYTES)],
            {"self._channels": ("(gg_chans self)", ADICT(GCHAN)), "channel_name": ("channel_name", BYTES), "self": ("self", GGROUP)}, [],
            comment_of("tdms.py", "TdmsGroup", f))
    finally:
        T.coqty, T.join_ty, T.coerce = old_coqty, old_join, old_coerce
    return cx, sigs


def header():
    return ("(* GENERATED by harness/gen/gen_pyfuncs_hier.py from nptdms/{tdms,common}.py -- do not edit.\n"
            "   Shallow monadic translation of TdmsFile._read_file's hierarchy construction; see the script for the conventions. *)\n"
            "From Coq Require Import String.\n"
            "From Coq Require Import ZArith List Bool.\n"
            "From Coq Require Import Init.Byte.\n"
            "Import ListNotations.\n"
            "From NpTdms Require Import Base.Bytes Base.Res Base.PySlice Model.Path Model.Tokens Model.SegState.\n"
            "Local Open Scope Z_scope.\n\n")


def main():
    try:
        cx, sigs = translate()
    except T.Unsupported as e:
        die(str(e))
    import hier_selftest as S
    st_text, counts = S.selftest(REPO, die)
    text = header() + PRELUDE + "\n" + "\n\n".join(cx.defs) + "\n\n" + st_text
    D.write_if_changed(OUT, text)
    print("%s: %d functions translated; self-test cases: %s"
          % (ME, len(sigs), ", ".join("%s %d" % kv for kv in counts.items())))


if __name__ == "__main__":
    main()
