#!/venv/bin/python
"""Fail-closed translator: the size / index / lead-in arithmetic of npTDMS's writer
-> coq/theories/Gen/PyFuncsWSize.v

Translated with Python `ast` (harness/gen/py2gallina.py + np_sem.py; nptdms is imported only
for the reflected class table and the self-test):

  nptdms/writer.py   _has_raw_data, object_data_size, TdmsSegment.raw_data_index,
                     TdmsSegment._data_size, TdmsSegment.metadata, TdmsSegment.leadin,
                     TdmsSegment.write up to (not including) `if not self.is_index_file:`
                     (the bytes written before the raw data)
  nptdms/common.py   toc_properties (as a match table over its keys)

Conventions (the objects are the records of Model/Writer.v, table ATTR below).
 * A TdmsType INSTANCE (Uint32(5), String(s), a property value) is represented by its `.bytes`
   (type `tval`).  Uint32 / Int32 / Uint64 are packed per their REFLECTED struct_declaration
   ('L', 'l', 'Q' ...).  struct.error for a value outside its field is NOT translated (the
   encoders are total, u_enc / s_enc of Base/Bytes.v), exactly as in Model/Writer.v, whose
   theorems exclude those inputs by [wf_file].  String(s) is the 4-byte length + the UTF-8 bytes.
 * A TdmsType CLASS (obj.data_type, String, Void) is its enum_value (reflected); obj.data_type
   is None for root and group objects.  `X.size` goes through the reflected size table.
 * Python str values are represented by their UTF-8 bytes (type pystr); `s.encode("utf-8")`
   is the identity on the representation, so the `except AttributeError` path (data already
   bytes) is not entered; `len` of a pystr is refused.
 * read_properties_dict(obj.properties) / _to_tdms_value are not translated: the properties are
   already typed values (Model/Tokens.v `prop`), `prop_value.bytes` is [prop_value_bytes].
 * `file.write(x)` appends to the byte string `file`.

Self-test: `Example`s with the results of the REAL functions on real RootObject / GroupObject /
ChannelObject / TdmsSegment instances, checked by vm_compute when the file is built.

Anything unrecognised: message on stderr, exit 1, nothing written.
"""
import ast
import os
import sys
import warnings

HERE = os.path.dirname(os.path.abspath(__file__))
sys.path.insert(0, HERE)
import py2gallina as T                                             # noqa: E402
from py2gallina import Z, B, BYTES, OPT, LIST, TUP, REC             # noqa: E402
import np_sem as N                                                 # noqa: E402
from np_sem import ENUM                                             # noqa: E402

VERIF = os.path.dirname(os.path.dirname(HERE))
REPO = os.environ.get("NPTDMS_REPO", "/repo")
OUT = os.path.join(VERIF, "coq", "theories", "Gen", "PyFuncsWSize.v")
ME = "gen_pyfuncs_wsize"

WOBJ, PROP, TVAL = REC("wobj"), REC("prop"), REC("tval")
CLS = REC("cls")
STR = ("pystr",)
TOC = ENUM("tocflag")

ATTR = {
    ("wobj", "path"): ("obj_path", STR, None),
    ("wobj", "properties"): ("obj_props", LIST(PROP), None),
    ("wobj", "data"): ("obj_values", LIST(STR), None),           # elements are inspected on the String branch only
    ("wobj", "data_type"): ("wobj_dtype", OPT(CLS), None),
    ("cls", "enum_value"): ("cls_enum_value", Z, None),
    ("cls", "size"): ("cls_size", OPT(Z), None),                 # None * int: TypeError
    ("prop", "enum_value"): ("p_type", Z, None),
    ("tval", "bytes"): ("tval_bytes", BYTES, None),
}
PACKED = ["Uint32", "Int32", "Uint64"]          # StructType subclasses the writer instantiates
CLASSES = ["String", "Void"]                    # classes compared with obj.data_type


def die(msg):
    sys.stderr.write("%s: UNSUPPORTED / unrecognised source, nothing written: %s\n" % (ME, msg))
    sys.exit(1)


def parse(fn):
    path = os.path.join(REPO, "nptdms", fn)
    try:
        src = open(path).read()
        return src, ast.parse(src)
    except (OSError, SyntaxError) as e:
        die("cannot read/parse %s: %s" % (path, e))


def find(tree, name, cls=None):
    body = tree.body
    if cls is not None:
        cs = [n for n in tree.body if isinstance(n, ast.ClassDef) and n.name == cls]
        if len(cs) != 1:
            die("class %s not found" % cls)
        body = cs[0].body
    fs = [n for n in body if isinstance(n, ast.FunctionDef) and n.name == name]
    if len(fs) != 1:
        die("expected exactly one def %s%s" % (cls + "." if cls else "", name))
    f = fs[0]
    if f.decorator_list or f.args.vararg or f.args.kwarg or f.args.kwonlyargs or f.args.defaults:
        die("signature of %s" % name)
    return f


def comment_of(fn, f, stmts=None):
    stmts = f.body if stmts is None else stmts
    txt = "\n".join(ast.unparse(s) for s in stmts if not T.is_skip(s))
    txt = txt.replace("(*", "( *").replace("*)", "* )")
    return "nptdms/%s: %s (line %d)\n%s\n" % (fn, f.name, f.lineno, "\n".join("     " + l for l in txt.split("\n")))


def load():
    sys.path.insert(0, REPO)
    import nptdms
    here = os.path.realpath(os.path.dirname(nptdms.__file__))
    if here != os.path.realpath(os.path.join(REPO, "nptdms")):
        die("nptdms imported from %s, expected %s/nptdms" % (here, REPO))


def reflect():
    """class table by reflection on nptdms.types: struct layout of the packed classes, enum values,
    sizes"""
    load()
    from nptdms import types
    packed = {}
    for n in PACKED:
        c = getattr(types, n, None)
        code = getattr(c, "struct_declaration", None)
        if c is None or code not in N.STRUCT_CODES or not issubclass(c, types.StructType) \
                or "__init__" in vars(c) or N.STRUCT_CODES[code][0] != c.size:
            die("types.%s is not a plain StructType with a known struct_declaration" % n)
        packed[n] = N.STRUCT_CODES[code]
    enums = {}
    for n in CLASSES:
        c = getattr(types, n, None)
        if c is None or type(getattr(c, "enum_value", None)) is not int:
            die("types.%s has no integer enum_value" % n)
        enums[n] = c.enum_value
    sizes = []
    for ev, c in types.tds_data_types.items():
        if type(ev) is not int or (c.size is not None and type(c.size) is not int):
            die("tds_data_types[%r]" % (ev,))
        sizes.append((ev, c.size))
    return packed, enums, sizes


def translate():
    src_w, tree_w = parse("writer.py")
    src_c, tree_c = parse("common.py")
    packed, enums, sizes = reflect()
    # toc_properties -> enum + match table
    tp = [n.value for n in tree_c.body if isinstance(n, ast.Assign) and len(n.targets) == 1
          and isinstance(n.targets[0], ast.Name) and n.targets[0].id == "toc_properties"]
    if len(tp) != 1 or not isinstance(tp[0], ast.Dict) or not all(
            isinstance(k, ast.Constant) and isinstance(k.value, str) and k.value.isidentifier() for k in tp[0].keys):
        die("toc_properties is not a dict literal with identifier-like str keys")
    keys = [k.value for k in tp[0].keys]
    ctor = {k: "F_" + k for k in keys}
    cx = T.Cx(ATTR, {}, {}, {})
    sem = N.NpSem(enums={"tocflag": ctor},
                  tables={"toc_properties": N.Table("toc_properties", keys, "toc_properties_tbl", "tocflag", Z)})
    cx.np = sem
    arms = []
    for k, v in zip(keys, tp[0].values):
        t, ty = T.ex(v, {}, None, cx)
        if ty != Z:
            die("toc_properties[%r] is not an integer constant" % k)
        arms.append("  | %s => %s" % (ctor[k], t))
    cx.defs.append("(* nptdms/common.py: the keys of toc_properties *)\nInductive tocflag := %s."
                   % " | ".join(ctor[k] for k in keys))
    cx.defs.append("(* nptdms/common.py: toc_properties = %s *)\n"
                   "Definition toc_properties_tbl (k : tocflag) : Z :=\n  match k with\n%s\n  end."
                   % (ast.unparse(tp[0]).replace("\n", " "), "\n".join(arms)))
    # reflected class table
    cx.defs.append("(* REFLECTED from nptdms.types: tds_data_types[ty].size (None: no such type or size is None) *)\n"
                   "Definition cls_size (ty : Z) : option Z :=\n%s  None."
                   % "".join("  if ty =? %d then %s else\n" % (ev, "None" if sz is None else "Some %d" % sz)
                             for ev, sz in sizes))
    for n in CLASSES:
        cx.defs.append("(* REFLECTED: nptdms.types.%s.enum_value *)\nDefinition cls_%s : Z := %d." % (n, n, enums[n]))
        cx.globals[n] = ("cls_%s" % n, CLS)
    cx.defs.append("(* REFLECTED: struct_declaration of the packed classes: %s *)\n%s"
                   % (", ".join("%s '%s'" % (n, [c for c, v in N.STRUCT_CODES.items() if v == packed[n]][0])
                                for n in PACKED),
                      "\n".join("Definition tv_%s (v : Z) : tval := %s LE %d%%nat v."
                                % (n, "s_enc" if packed[n][1] else "u_enc", packed[n][0]) for n in PACKED)))
    T.EXTRA_COERCIONS[(PROP, TVAL)] = "(prop_value_bytes %s)"

    # ---- driver-specific rules ---------------------------------------------------------
    def calls(e, env, h, cx_):
        f = e.func
        if e.keywords:
            return None
        if isinstance(f, ast.Name) and f.id in PACKED and len(e.args) == 1:
            t = T.as_int(e.args[0], env, h, cx_)
            return "(tv_%s %s)" % (f.id, t), TVAL
        if isinstance(f, ast.Name) and f.id == "String" and len(e.args) == 1:
            t, ty = T.ex(e.args[0], env, h, cx_)
            if ty != STR:
                fail_(e, "String(..) of %r" % (ty,))
            return "(tv_String %s)" % t, TVAL
        if isinstance(f, ast.Name) and f.id == "Bytes" and len(e.args) == 1:
            t, ty = T.ex(e.args[0], env, h, cx_)
            if ty != BYTES:
                fail_(e, "Bytes(..) of %r" % (ty,))
            return t, TVAL
        if isinstance(f, ast.Name) and f.id == "hasattr" and len(e.args) == 2 \
                and isinstance(e.args[1], ast.Constant) and e.args[1].value == "data":
            t, ty = T.ex(e.args[0], env, h, cx_)
            if ty != WOBJ:
                fail_(e, "hasattr(.., 'data') of %r" % (ty,))
            return "(is_chan %s)" % t, B
        if isinstance(f, ast.Name) and f.id == "read_properties_dict" and len(e.args) == 1:
            t, ty = T.ex(e.args[0], env, h, cx_)
            if ty != LIST(PROP):
                fail_(e, "read_properties_dict of %r" % (ty,))
            return t, LIST(PROP)
        if isinstance(f, ast.Attribute) and f.attr == "items" and not e.args:
            t, ty = T.ex(f.value, env, h, cx_)
            if ty == LIST(PROP):
                return "(List.map (fun p__ => (p_name p__, p__)) %s)" % t, LIST(TUP(STR, PROP))
            return None
        if isinstance(f, ast.Attribute) and f.attr == "encode" and len(e.args) == 1 \
                and isinstance(e.args[0], ast.Constant) and e.args[0].value == "utf-8":
            t, ty = T.ex(f.value, env, h, cx_)
            if ty != STR:
                fail_(e, ".encode('utf-8') of %r" % (ty,))
            return t, BYTES
        if isinstance(f, ast.Attribute) and f.attr == "join" and isinstance(f.value, ast.Constant) \
                and f.value.value == b"" and len(e.args) == 1 and isinstance(e.args[0], ast.GeneratorExp):
            it, pat, inner = T.genexp(e.args[0], env, h, cx_)
            b, bty = T.ex(e.args[0].elt, inner, None, cx_)
            if bty != BYTES:
                fail_(e, "b''.join of %r" % (bty,))
            return "(List.concat (List.map %s %s))" % (T.lam(pat, b), it), BYTES
        if isinstance(f, ast.Name) and f.id == "len" and len(e.args) == 1:
            t, ty = T.ex(e.args[0], env, h, cx_)
            t, ty = T.need(t, ty, "sized", "EType", h, e)
            if ty == STR:
                fail_(e, "len of a Python str (code points, not modelled)")
            if ty[0] != "list" and ty != BYTES:
                fail_(e, "len of %r" % (ty,))
            return "(Z.of_nat (List.length %s))" % t, Z
        return None

    def fail_(node, why):
        T.fail(node, why)

    def compare(e, env, h, cx_):
        # obj.data_type == String / is not Void ...: classes are compared by identity = by enum value
        if len(e.ops) != 1 or not isinstance(e.ops[0], (ast.Eq, ast.NotEq, ast.Is, ast.IsNot)):
            return None
        r = e.comparators[0]
        if not (isinstance(r, ast.Name) and r.id in cx_.globals and cx_.globals[r.id][1] == CLS):
            return None
        lt, lty = T.ex(e.left, env, h, cx_)
        k = cx_.globals[r.id][0]
        if lty == CLS:
            c = "(%s =? %s)" % (lt, k)
        elif lty == OPT(CLS):
            c = "(match %s with Some c__ => c__ =? %s | None => false end)" % (lt, k)
        else:
            fail_(e, "comparison of %r with a class" % (lty,))
        return ("(negb %s)" % c if isinstance(e.ops[0], (ast.NotEq, ast.IsNot)) else c), B

    def statements(s, rest, env, K, sc, cx_):
        # file.write(x): the byte string `file` grows
        if isinstance(s, ast.Expr) and isinstance(s.value, ast.Call) and isinstance(s.value.func, ast.Attribute) \
                and s.value.func.attr == "write" and isinstance(s.value.func.value, ast.Name) \
                and s.value.func.value.id == "file" and len(s.value.args) == 1 and not s.value.keywords \
                and env.get("file", (None, None))[1] == BYTES:
            h = T.Hoist()
            t, ty = T.ex(s.value.args[0], env, h, cx_)
            if ty != BYTES:
                fail_(s, "file.write of %r" % (ty,))
            env2 = dict(env)
            env2["file"] = ("file", BYTES)
            return T.wrap(h.pre, "let file := (%s ++ %s) in\n" % (env["file"][0], t)) + T.block(rest, env2, K, sc, cx_)
        return None

    def try_ok(s, env, cx_):
        # try: encoded = [s.encode("utf-8") for s in <list of pystr>]  except AttributeError: ...
        if s.orelse or s.finalbody or len(s.handlers) != 1 or len(s.body) != 1:
            return False
        hd = s.handlers[0]
        a = s.body[0]
        if not (isinstance(hd.type, ast.Name) and hd.type.id == "AttributeError"):
            return False
        if not (isinstance(a, ast.Assign) and isinstance(a.value, ast.ListComp) and len(a.value.generators) == 1):
            return False
        g = a.value.generators[0]
        k = T.key_of(g.iter)
        el = a.value.elt
        return (k in env and env[k][1] == LIST(STR) and not g.ifs and isinstance(g.target, ast.Name)
                and isinstance(el, ast.Call) and isinstance(el.func, ast.Attribute) and el.func.attr == "encode"
                and isinstance(el.func.value, ast.Name) and el.func.value.id == g.target.id)

    sem.extra_calls.append(calls)
    sem.extra_compare.append(compare)
    sem.extra_statements.append(statements)
    sem.extra_try.append(try_ok)
    sigs, frags = {}, {}

    def plain(name, gen, ptys):
        f = find(tree_w, name)
        args = [a.arg for a in f.args.args]
        if len(args) != len(ptys):
            die("parameters of %s" % name)
        params = [(T.cname(a), t) for a, t in zip(args, ptys)]
        rty = T.function(cx, gen, f.body, params, {a: (T.cname(a), t) for a, t in zip(args, ptys)}, [],
                         comment_of("writer.py", f))
        cx.callees[name] = (gen, ptys, rty, [])
        sigs[gen] = (params, rty)

    SELF = [("objects", LIST(WOBJ)), ("is_index_file", B), ("_tdms_version", Z)]

    def method(name, gen, ptys, fields, stmts=None, extra_env=None, outputs=()):
        f = find(tree_w, name, "TdmsSegment")
        args = [a.arg for a in f.args.args]
        if args[:1] != ["self"] or len(args) - 1 != len(ptys):
            die("parameters of TdmsSegment.%s" % name)
        params, env0 = [], {}
        for attr, ty in SELF:
            if attr in fields:
                params.append((T.cname("self." + attr), ty))
                env0["self." + attr] = (T.cname("self." + attr), ty)
        for a, t in zip(args[1:], ptys):
            if t is not None:
                params.append((T.cname(a), t))
                env0[a] = (T.cname(a), t)
        env0.update(extra_env or {})
        body = f.body if stmts is None else stmts(f)
        rty = T.function(cx, gen, body, params, env0, list(outputs), comment_of("writer.py", f, body))
        cx.callees["self." + name] = (gen, [t for t in ptys if t is not None], rty, ["self." + a for a in fields])
        sigs[gen] = (params, rty)
        return body

    plain("_has_raw_data", "has_raw_data_gen", [WOBJ])
    plain("object_data_size", "object_data_size_gen", [CLS, LIST(STR)])
    method("raw_data_index", "raw_data_index_gen", [WOBJ], [])
    method("_data_size", "data_size_gen", [], ["objects"])
    method("metadata", "metadata_gen", [], ["objects"])
    method("leadin", "leadin_gen", [LIST(TOC), Z], ["objects", "is_index_file", "_tdms_version"])

    def head(f):
        k = [i for i, s in enumerate(f.body) if isinstance(s, ast.If)]
        if len(k) != 1 or k[0] != len(f.body) - 1 or ast.unparse(f.body[-1].test) != "not self.is_index_file":
            die("TdmsSegment.write: expected the statements to end with `if not self.is_index_file:`")
        return f.body[:-1]
    frags["write_head_gen"] = method("write", "write_head_gen", [None], ["objects", "is_index_file", "_tdms_version"],
                                     stmts=head, extra_env={"file": ('(hex ""%string)', BYTES)}, outputs=["file"])
    return cx, sigs, frags


PRELUDE = """\
(* ---- the primitives the translation relies on (fixed text) ---- *)
Definition need {A} (e : err) (o : option A) : res A :=
  match o with Some a => Ok a | None => Err e end.
Definition is_none {A} (o : option A) : bool :=
  match o with None => true | Some _ => false end.
(* l[i] = x on a Python list: negative indices wrap once, IndexError outside *)
Definition py_setitem {A} (l : list A) (i : Z) (x : A) : res (list A) :=
  let len := zlen l in
  let i' := if i <? 0 then i + len else i in
  if (0 <=? i') && (i' <? len) then Ok (replace_nth (Z.to_nat i') x l) else Err EIndex.
(* a TdmsType class is represented by its enum_value *)
Definition cls := Z.
Definition cls_enum_value (c : cls) : Z := c.
(* a TdmsType instance is represented by its .bytes *)
Definition tval := bytes.
Definition tval_bytes (v : tval) : bytes := v.
(* String(s): 4-byte little-endian length of the UTF-8 bytes, then the bytes (types.py String.__init__) *)
Definition tv_String (s : bytes) : tval := u_enc LE 4 (blen s) ++ s.
(* the .bytes of an already typed property value (Model/Tokens.v: strings are kept as their UTF-8 bytes) *)
Definition prop_value_bytes (p : prop) : tval := ser_prop_value LE (p_type p) (p_val p).
(* obj.data_type: None for root / group objects (TdmsObject.data_type) *)
Definition wobj_dtype (o : wobj) : option Z :=
  match o with WChan _ _ dt _ _ => Some dt | _ => None end.
"""


def header():
    return ("(* GENERATED by harness/gen/gen_pyfuncs_wsize.py from nptdms/{writer,common}.py -- do not edit.\n"
            "   Shallow monadic translation of the writer's size / index / lead-in logic; see the script for\n"
            "   the representation of objects and values and the conventions. *)\n"
            "From Coq Require Import String.\n"
            "From Coq Require Import ZArith List Bool.\n"
            "Import ListNotations.\n"
            "From NpTdms Require Import Base.Bytes Base.Res Base.PySlice Model.Tokens Model.SegState Model.Writer.\n"
            "Local Open Scope Z_scope.\n\n")


# ---------------------------------------------------------------------------
# self-test

def z(n):
    n = int(n)
    return "%d" % n if n >= 0 else "(%d)" % n


def hexs(b):
    return '(hex "%s"%%string)' % bytes(b).hex()


def clist(items):
    return "[" + "; ".join(items) + "]"


ERR = {"ValueError": "EValue", "TypeError": "EType", "AttributeError": "EOther", "IndexError": "EIndex",
       "KeyError": "EKey"}


def observe(fn, enc):
    with warnings.catch_warnings():
        warnings.simplefilter("ignore")
        try:
            r = fn()
        except Exception as e:                       # noqa: BLE001 - every class is mapped or fatal
            n = type(e).__name__
            if n not in ERR:
                raise
            return "Err %s" % ERR[n]
    return "Ok %s" % enc(r)


ST_PRELUDE = """\
(* ---- self test: results of the real writer code on real objects ---- *)
Definition st_err (a b : err) : bool :=
  match a, b with
  | EEof, EEof | EValue, EValue | EKey, EKey | EStruct, EStruct | ENotImpl, ENotImpl | EIndex, EIndex
  | ERuntime, ERuntime | EType, EType | EOther, EOther | EFuel, EFuel => true
  | _, _ => false
  end.
Definition st_res {A} (eq : A -> A -> bool) (a b : res A) : bool :=
  match a, b with Ok x, Ok y => eq x y | Err x, Err y => st_err x y | _, _ => false end.
Fixpoint st_list {A} (eq : A -> A -> bool) (a b : list A) : bool :=
  match a, b with
  | [], [] => true
  | x :: a', y :: b' => eq x y && st_list eq a' b'
  | _, _ => false
  end.
Definition st_bytes (a b : bytes) : bool := st_list (fun x y => b2z x =? b2z y) a b.
"""


def example(name, ctype, cases, check):
    if len(cases) < 8:
        die("self-test grid of %s is too small (%d cases)" % (name, len(cases)))
    return ("Definition st_%s_cases : list (%s) :=\n  [%s].\n"
            "Example st_%s : forallb (%s) st_%s_cases = true.\nProof. vm_compute. reflexivity. Qed.\n"
            % (name, ctype, ";\n   ".join(cases), name, check, name))


class Recorder:
    def __init__(self):
        self.data = b""

    def write(self, b):
        self.data += bytes(b)


def fragment_function(frag, argnames, result, glob):
    body = list(frag) + [ast.Return(value=ast.Name(id=result, ctx=ast.Load()))]
    fn = ast.FunctionDef(name="frag", args=ast.arguments(posonlyargs=[], args=[ast.arg(a) for a in argnames],
                                                         kwonlyargs=[], kw_defaults=[], defaults=[]),
                         body=body, decorator_list=[])
    mod = ast.Module(body=[fn], type_ignores=[])
    ast.fix_missing_locations(mod)
    ns = dict(glob)
    exec(compile(mod, "<fragment>", "exec"), ns)
    return ns["frag"]


def selftest(frags):
    load()
    import datetime
    import numpy as np
    from nptdms import writer as W, types
    from nptdms import RootObject, GroupObject, ChannelObject
    names = {}

    def describe(o):
        """the Model/Writer.v term of a real writer object (its path, typed properties, typed values)"""
        props = []
        for k, v in (o.properties or {}).items():
            tv = W._to_tdms_value(v)
            val = tv.value.encode("utf-8") if tv.enum_value == 0x20 else tv.bytes
            props.append("mkProp %s %d %s" % (hexs(k.encode("utf-8")), tv.enum_value, hexs(val)))
        ps = clist(props)
        if isinstance(o, RootObject):
            t = "(WRoot %s)" % ps
        elif isinstance(o, GroupObject):
            t = "(WGroup %s %s)" % (hexs(o.group.encode("utf-8")), ps)
        else:
            dt = o.data_type
            if dt == types.String:
                vals = [s.encode("utf-8") for s in o.data]
            elif dt in (types.TimeStamp,):
                vals = [types.TimeStamp(v).bytes for v in o.data]
            elif dt is types.Void:
                vals = []
            else:
                raw = np.ascontiguousarray(o.data).tobytes()
                sz = o.data.dtype.itemsize
                vals = [raw[i * sz:(i + 1) * sz] for i in range(len(o.data))]
            t = "(WChan %s %s %d %s %s)" % (hexs(o.group.encode("utf-8")), hexs(o.channel.encode("utf-8")),
                                           dt.enum_value, clist([hexs(v) for v in vals]), ps)
        if t not in names:
            names[t] = "st_w%d" % (len(names) + 1)
        return names[t]

    root0 = RootObject()
    root1 = RootObject({"a": 5, "s": "héllo", "f": 1.5, "big": 2 ** 40, "t": True})
    g1 = GroupObject("g")
    g2 = GroupObject("gr'p", {"n": np.int64(-3), "e": ""})
    c_i32 = ChannelObject("g", "i32", np.array([1, -2, 3], dtype=np.int32))
    c_f64e = ChannelObject("g", "f64", np.array([], dtype=np.float64), {"u": "V"})
    c_str = ChannelObject("g", "str", ["a", "bcd", "é€", ""])
    c_str1 = ChannelObject("gr'p", "one", ["x" * 300])
    c_void = ChannelObject("g", "void", np.array([], dtype=object))
    c_u8 = ChannelObject("g", "u8", np.arange(7, dtype=np.uint8), {"k": np.float32(2.5)})
    c_ts = ChannelObject("g", "ts", np.array([0, 1577836816000001], dtype="datetime64[us]"))
    c_bool = ChannelObject("gr'p", "b", np.array([True, False]))
    c_c128 = ChannelObject("g", "c", np.array([1 + 2j], dtype=np.complex128))
    c_i64 = ChannelObject("g", "i64", [2 ** 40, -1])
    objs = [root0, root1, g1, g2, c_i32, c_f64e, c_str, c_str1, c_void, c_u8, c_ts, c_bool, c_c128, c_i64]
    lists = [[]] + [[o] for o in objs] + [[root1, g1, c_i32, c_str], [root0, g1, g2, c_str, c_str1, c_void, c_u8],
                                          [g1, c_f64e, c_ts, c_bool, c_c128, c_i64], [c_void], [c_str, c_i32],
                                          [root1, g2, c_bool, c_str1]]
    out, counts = [], {}
    tvals = lambda l: clist([hexs(v.bytes) for v in l])                       # noqa: E731

    def run(name, ctype, cases, check):
        out.append(example(name, ctype, cases, check))
        counts[name] = len(cases)

    run("has_raw_data", "wobj * res bool",
        ["(%s, %s)" % (describe(o), observe(lambda: W._has_raw_data(o), lambda v: "true" if v else "false")) for o in objs],
        "fun '(o, r) => st_res Bool.eqb (has_raw_data_gen o) r")
    chans = [o for o in objs if isinstance(o, ChannelObject)]
    run("object_data_size", "wobj * res Z",
        ["(%s, %s)" % (describe(o), observe(lambda: W.object_data_size(o.data_type, o.data), z)) for o in chans]
        + ["(%s, %s)" % (describe(c_void), observe(lambda: W.object_data_size(types.Void, [1, 2]), z))],
        "fun '(o, r) => match o with WChan _ _ dt vals _ => st_res Z.eqb (object_data_size_gen dt "
        "(if dt =? 0 then [[]; []] else vals)) r | _ => false end")
    seg = lambda l, idx=False, v=4712: W.TdmsSegment(l, idx, v)                # noqa: E731
    run("raw_data_index", "wobj * res (list bytes)",
        ["(%s, %s)" % (describe(o), observe(lambda: seg([o]).raw_data_index(o), tvals)) for o in objs],
        "fun '(o, r) => st_res (st_list st_bytes) (raw_data_index_gen o) r")
    run("data_size", "list wobj * res Z",
        ["(%s, %s)" % (clist([describe(o) for o in l]), observe(lambda: seg(l)._data_size(), z)) for l in lists],
        "fun '(l, r) => st_res Z.eqb (data_size_gen l) r")
    run("metadata", "list wobj * res (list bytes)",
        ["(%s, %s)" % (clist([describe(o) for o in l]), observe(lambda: seg(l).metadata(), tvals)) for l in lists],
        "fun '(l, r) => st_res (st_list st_bytes) (metadata_gen l) r")
    tocs = [[], ["kTocMetaData"], ["kTocMetaData", "kTocRawData", "kTocNewObjList"], ["kTocBigEndian", "kTocBigEndian"],
            ["kTocDAQmxRawData", "kTocInterleavedData", "kTocRawData"]]
    lead = []
    for l in lists[:6] + lists[-6:]:
        for idx, v in ((False, 4712), (True, 4713)):
            for toc in tocs:
                for ms in (0, 20, 2 ** 33):
                    lead.append("(%s, %s, %s, %s, %s, %s)" % (
                        clist([describe(o) for o in l]), "true" if idx else "false", z(v),
                        clist(["F_" + k for k in toc]), z(ms), observe(lambda: seg(l, idx, v).leadin(toc, ms), tvals)))
    run("leadin", "list wobj * bool * Z * list tocflag * Z * res (list bytes)", lead,
        "fun '(l, idx, v, toc, ms, r) => st_res (st_list st_bytes) (leadin_gen l idx v toc ms) r")
    fr = fragment_function(frags["write_head_gen"], ["self", "file"], "file", vars(W))
    run("write_head", "list wobj * bool * Z * res bytes",
        ["(%s, %s, %s, %s)" % (clist([describe(o) for o in l]), "true" if idx else "false", z(v),
                               observe(lambda: fr(seg(l, idx, v), Recorder()).data, hexs))
         for l in lists for idx, v in ((False, 4712), (True, 4713))],
        "fun '(l, idx, v, r) => st_res st_bytes (write_head_gen l idx v) r")
    defs = "".join("Definition %s : wobj := %s.\n" % (n, t) for t, n in names.items())
    return ST_PRELUDE + "\n" + defs + "\n" + "\n".join(out), counts


def write_if_changed(path, text):
    old = None
    try:
        old = open(path).read()
    except OSError:
        pass
    if old != text:
        os.makedirs(os.path.dirname(path), exist_ok=True)
        tmp = path + ".tmp.%d" % os.getpid()
        with open(tmp, "w") as fh:
            fh.write(text)
        os.replace(tmp, path)
        print("%s: wrote %s" % (ME, os.path.relpath(path, VERIF)))
    else:
        print("%s: %s up to date" % (ME, os.path.relpath(path, VERIF)))


def main():
    try:
        cx, sigs, frags = translate()
    except T.Unsupported as e:
        die(str(e))
    st_text, counts = selftest(frags)
    text = header() + PRELUDE + "\n" + "\n\n".join(cx.defs) + "\n\n" + st_text
    write_if_changed(OUT, text)
    print("%s: %d functions translated; self-test cases: %s"
          % (ME, len(sigs), ", ".join("%s %d" % kv for kv in counts.items())))


if __name__ == "__main__":
    main()
