#!/venv/bin/python
"""Fail-closed translator: the integer decision logic of npTDMS's reader
-> coq/theories/Gen/PyFuncsReader.v, and the type table by reflection
-> coq/theories/Gen/TypeTable.v.

Translated with Python `ast` (harness/gen/py2gallina.py; the modules are NOT imported for
the translation, only for the self-test and the type table):

  nptdms/daqmx.py         _lists_are_equal, get_buffer_dimensions, get_daqmx_chunk_size,
                          get_daqmx_final_chunk_lengths
  nptdms/tdms_segment.py  TdmsSegment._have_daqmx_objects, _get_chunk_size,
                          _compute_final_chunk_lengths, _calculate_chunks,
                          ContiguousDataReader._get_channel_number_values
  nptdms/reader.py        _number_of_segment_values, the position arithmetic of
                          TdmsReader._read_lead_in (from `lead_size = ...` to the return),
                          the per-segment chunk arithmetic of
                          TdmsReader.read_raw_data_for_channel (body of the loop over segments,
                          `continue` = None)
  (not translated: _trim_channel_chunk -- it builds result objects with a dict comprehension)

Object attributes map to fields of the model's records (Model/SegState.v) through the
explicit table ATTR below.  Memo caches (chunk_size_cached, has_daqmx_objects_cached) are
read as cold.  `//` and `%` are Z.div / Z.modulo (DESIGN.md section 4: equal to Python for
non-zero divisors; inputs that make Python raise ZeroDivisionError are left out of the
self-test grid).  Arguments of log.* calls are not evaluated.

Self-test: the generated file ends with `Example`s whose cases carry the results of the
REAL Python functions (real TdmsSegment / segment-object / reader instances) on a boundary
grid; they are checked by vm_compute whenever the file is built, so a translator error is
a build failure.

Anything unrecognised: message on stderr, exit 1, nothing written.
"""
import ast
import io
import itertools
import os
import struct
import sys

HERE = os.path.dirname(os.path.abspath(__file__))
sys.path.insert(0, HERE)
import py2gallina as T                                             # noqa: E402
from py2gallina import Z, B, NONE, DICT, BYTES, OPT, LIST, TUP, REC  # noqa: E402

VERIF = os.path.dirname(os.path.dirname(HERE))
REPO = os.environ.get("NPTDMS_REPO", "/repo")
OUT = os.path.join(VERIF, "coq", "theories", "Gen", "PyFuncsReader.v")
OUT_TT = os.path.join(VERIF, "coq", "theories", "Gen", "TypeTable.v")

SOBJ, DQ, SCALER, SEGMENT = REC("sobj"), REC("dq"), REC("scaler"), REC("segment")

# Python attribute -> (projection of the model record, type, error raised when the value is None)
ATTR = {
    ("sobj", "number_values"): ("so_nvals", Z, None),
    ("sobj", "data_size"): ("so_dsize", Z, None),
    ("sobj", "has_data"): ("so_has_data", B, None),
    ("sobj", "path"): ("so_path", BYTES, None),
    ("sobj", "data_type.size"): ("gsized", OPT(Z), None),          # through Gen/TypeTable.v
    ("sobj", "daqmx_metadata"): ("so_daqmx", OPT(DQ), "EOther"),    # AttributeError when absent
    ("dq", "raw_data_widths"): ("dq_widths", LIST(Z), None),
    ("dq", "scalers"): ("dq_scalers", LIST(SCALER), None),
    ("scaler", "raw_buffer_index"): ("sc_buf", Z, None),
    ("segment", "ordered_objects"): ("sg_objs", LIST(SOBJ), None),
    ("segment", "next_segment_pos"): ("sg_next", Z, None),
    ("segment", "data_position"): ("sg_data", Z, None),
    ("segment", "position"): ("sg_pos", Z, None),
    ("segment", "toc_mask"): ("sg_toc", Z, None),
    ("segment", "segment_incomplete"): ("sg_incomplete", B, None),
    ("segment", "num_chunks"): ("sg_nchunks", Z, None),
    ("segment", "final_chunk_lengths_override"): ("sg_final", OPT(DICT), None),
}
# obj.method(args) -> (Gallina function applied to the object and the arguments, argument types, result type)
METHODS = {("segment", "get_segment_object"): ("segment_object", [BYTES], OPT(SOBJ))}
ISINST = {("sobj", "DaqmxSegmentObject"): "(negb (is_none (so_daqmx %s)))"}
MEMO = ("chunk_size_cached", "has_daqmx_objects_cached", "data_objects_cached")


def die(msg):
    sys.stderr.write("gen_pyfuncs_reader: UNSUPPORTED / unrecognised source, nothing written: %s\n" % msg)
    sys.exit(1)


def parse(fn):
    path = os.path.join(REPO, "nptdms", fn)
    try:
        src = open(path).read()
        return src, ast.parse(src)
    except (OSError, SyntaxError) as e:
        die("cannot read/parse %s: %s" % (path, e))


def find(tree, name, cls=None):
    body = tree.body
    if cls is not None:
        cs = [n for n in tree.body if isinstance(n, ast.ClassDef) and n.name == cls]
        if len(cs) != 1:
            die("class %s not found" % cls)
        body = cs[0].body
    fs = [n for n in body if isinstance(n, ast.FunctionDef) and n.name == name]
    if len(fs) != 1:
        die("expected exactly one def %s%s" % (cls + "." if cls else "", name))
    f = fs[0]
    if f.decorator_list or f.args.vararg or f.args.kwarg or f.args.kwonlyargs:
        die("signature of %s" % name)
    return f


def init_consts(tree, cls):
    """self.X = <constant> assignments of cls.__init__ -> {X: python constant}"""
    f = find(tree, "__init__", cls)
    out = {}
    for s in f.body:
        if isinstance(s, ast.Assign) and len(s.targets) == 1:
            k = T.key_of(s.targets[0])
            if k and k.startswith("self.") and isinstance(s.value, ast.Constant):
                out[k[5:]] = s.value.value
    return out


def const_term(v):
    if v is None:
        return ("None", NONE)
    if v is True or v is False:
        return ("true" if v else "false", B)
    if type(v) is int:
        return ("%d" % v, Z)
    die("initial value %r" % (v,))


def comment_of(fn, f, a=None, b=None):
    stmts = f.body if a is None else f.body[a:b]
    txt = "\n".join(ast.unparse(s) for s in stmts)
    txt = txt.replace("(*", "( *").replace("*)", "* )")
    return "nptdms/%s: %s (line %d)\n%s\n" % (fn, f.name, f.lineno, "\n".join("     " + l for l in txt.split("\n")))


def toc_constants(tree):
    out = {}
    for n in tree.body:
        if isinstance(n, ast.Assign) and len(n.targets) == 1 and isinstance(n.targets[0], ast.Name) \
                and n.targets[0].id == "toc_properties" and isinstance(n.value, ast.Dict):
            for k, v in zip(n.value.keys, n.value.values):
                try:
                    val = eval(compile(ast.Expression(v), "<toc>", "eval"), {"__builtins__": {}})
                except Exception as e:
                    die("toc_properties value: %s" % e)
                if not (isinstance(k, ast.Constant) and isinstance(k.value, str) and type(val) is int):
                    die("toc_properties entry")
                out[("toc_properties", k.value)] = val
    if not out:
        die("toc_properties not found in common.py")
    return out


PRELUDE = """\
(* ---- the Python primitives the translation relies on (fixed text) ---- *)

(* use of a possibly-None value where a concrete one is required *)
Definition need {A} (e : err) (o : option A) : res A :=
  match o with Some a => Ok a | None => Err e end.
Definition is_none {A} (o : option A) : bool :=
  match o with None => true | Some _ => false end.
(* l[i] = x on a Python list: negative indices wrap once, IndexError outside *)
Definition py_setitem {A} (l : list A) (i : Z) (x : A) : res (list A) :=
  let len := zlen l in
  let i' := if i <? 0 then i + len else i in
  if (0 <=? i') && (i' <? len) then Ok (replace_nth (Z.to_nat i') x l) else Err EIndex.
(* segment.get_segment_object(path): object_index lookup, KeyError -> None *)
Definition segment_object (s : segment) (path : bytes) : option sobj :=
  match alookup path (sg_index s) with
  | Some i => nth_error (sg_objs s) i
  | None => None
  end.
(* obj.data_type.size through the REFLECTED type table (Gen/TypeTable.v) *)
Definition gsized (o : sobj) : option Z :=
  match so_dtype o with
  | Some dt => match tt_size dt with Some (Some s) => Some s | _ => None end
  | None => None
  end.
"""


def translate():
    src_c, tree_c = parse("common.py")
    src_d, tree_d = parse("daqmx.py")
    src_s, tree_s = parse("tdms_segment.py")
    src_r, tree_r = parse("reader.py")
    cx = T.Cx(ATTR, toc_constants(tree_c), {}, ISINST, MEMO)
    cx.methods = METHODS
    sigs = {}

    def plain(fn, tree, name, gen, ptys):
        f = find(tree, name)
        args = [a.arg for a in f.args.args]
        if len(args) != len(ptys) or f.args.defaults:
            die("parameters of %s" % name)
        params = [(T.cname(a), t) for a, t in zip(args, ptys)]
        env0 = {a: (T.cname(a), t) for a, t in zip(args, ptys)}
        rty = T.function(cx, gen, f.body, params, env0, [], comment_of(fn, f))
        cx.callees[name] = (gen, ptys, rty, [])
        sigs[gen] = (params, rty)

    def method(fn, tree, cls, name, gen, ptys, self_ty=None, self_fields=(), outputs=()):
        f = find(tree, name, cls)
        args = [a.arg for a in f.args.args]
        if args[:1] != ["self"] or len(args) - 1 != len(ptys) or f.args.defaults:
            die("parameters of %s.%s" % (cls, name))
        params, env0 = [], {}
        if self_ty is not None:
            params.append(("self", self_ty))
            env0["self"] = ("self", self_ty)
        for attr, ty in self_fields:
            params.append((T.cname("self." + attr), ty))
            env0["self." + attr] = (T.cname("self." + attr), ty)
        for a, t in zip(args[1:], ptys):
            params.append((T.cname(a), t))
            env0[a] = (T.cname(a), t)
        inits = init_consts(tree, cls)
        for m in MEMO:
            if m in inits and inits[m] is not None:
                die("memo attribute %s is not initialised to None in __init__" % m)
            env0["self." + m] = ("None", NONE)      # caches are read as cold
        outs = []
        for o in outputs:
            if o not in inits:
                die("%s.__init__ does not initialise %s with a constant" % (cls, o))
            env0["self." + o] = const_term(inits[o])
            outs.append("self." + o)
        rty = T.function(cx, gen, f.body, params, env0, outs, comment_of(fn, f))
        cx.callees["self." + name] = (gen, ptys, rty, ["self"] if self_ty is not None else
                                      ["self." + a for a, _ in self_fields])
        sigs[gen] = (params, rty)

    # --- nptdms/daqmx.py
    plain("daqmx.py", tree_d, "_lists_are_equal", "lists_are_equal_gen", [LIST(Z), LIST(Z)])
    plain("daqmx.py", tree_d, "get_buffer_dimensions", "get_buffer_dimensions_gen", [LIST(SOBJ)])
    plain("daqmx.py", tree_d, "get_daqmx_chunk_size", "get_daqmx_chunk_size_gen", [LIST(SOBJ)])
    plain("daqmx.py", tree_d, "get_daqmx_final_chunk_lengths", "get_daqmx_final_chunk_lengths_gen",
          [LIST(SOBJ), Z])
    # --- nptdms/tdms_segment.py
    method("tdms_segment.py", tree_s, "TdmsSegment", "_have_daqmx_objects", "have_daqmx_objects_gen", [],
           self_ty=SEGMENT)
    method("tdms_segment.py", tree_s, "TdmsSegment", "_get_chunk_size", "get_chunk_size_gen", [], self_ty=SEGMENT)
    method("tdms_segment.py", tree_s, "TdmsSegment", "_compute_final_chunk_lengths",
           "compute_final_chunk_lengths_gen", [Z, Z], self_ty=SEGMENT)
    method("tdms_segment.py", tree_s, "TdmsSegment", "_calculate_chunks", "calculate_chunks_gen", [],
           self_ty=SEGMENT, outputs=["num_chunks", "final_chunk_lengths_override"])
    # ContiguousDataReader: attributes set by BaseDataReader.__init__(num_chunks, final_chunk_lengths_override, ..)
    f = find(tree_s, "_get_channel_number_values", "ContiguousDataReader")
    env0 = {"self.num_chunks": ("self_num_chunks", Z),
            "self.final_chunk_lengths_override": ("self_final_chunk_lengths_override", OPT(DICT)),
            "obj": ("obj", SOBJ), "chunk_index": ("chunk_index", Z)}
    if [a.arg for a in f.args.args] != ["self", "obj", "chunk_index"]:
        die("parameters of _get_channel_number_values")
    params = [("self_num_chunks", Z), ("self_final_chunk_lengths_override", OPT(DICT)), ("obj", SOBJ),
              ("chunk_index", Z)]
    rty = T.function(cx, "get_channel_number_values_gen", f.body, params, env0, [],
                     comment_of("tdms_segment.py", f))
    sigs["get_channel_number_values_gen"] = (params, rty)
    # --- nptdms/reader.py
    plain("reader.py", tree_r, "_number_of_segment_values", "number_of_segment_values_gen", [SOBJ, SEGMENT])
    # _read_lead_in: the statements from `lead_size = ...` to the end
    f = find(tree_r, "_read_lead_in", "TdmsReader")
    k = [i for i, s in enumerate(f.body) if isinstance(s, ast.Assign) and len(s.targets) == 1
         and isinstance(s.targets[0], ast.Name) and s.targets[0].id == "lead_size"]
    if len(k) != 1:
        die("_read_lead_in: the statement `lead_size = ...` was not found")
    free = ["segment_position", "toc_mask", "next_segment_offset", "raw_data_offset"]
    for s in f.body[k[0]:]:
        for n in ast.walk(s):
            if isinstance(n, ast.Name) and isinstance(n.ctx, ast.Store) and n.id in free:
                die("_read_lead_in: %s is reassigned in the position arithmetic" % n.id)
    params = [("self__data_file_size", OPT(Z))] + [(v, Z) for v in free]
    env0 = {"self._data_file_size": ("self__data_file_size", OPT(Z))}
    env0.update({v: (v, Z) for v in free})
    rty = T.function(cx, "read_lead_in_gen", f.body[k[0]:], params, env0, [],
                     comment_of("reader.py", f, k[0], None))
    sigs["read_lead_in_gen"] = (params, rty)
    # read_raw_data_for_channel: the per-segment chunk arithmetic, from `chunk_offset = 0` to the inner
    # `for i, chunk in enumerate(segment.read_raw_data_for_channel(...))` of the loop over segments
    f = find(tree_r, "read_raw_data_for_channel", "TdmsReader")
    loops = [s for s in f.body if isinstance(s, ast.For) and isinstance(s.target, ast.Tuple)
             and [getattr(e, "id", None) for e in s.target.elts] == ["segment_index", "segment"]]
    if len(loops) != 1:
        die("read_raw_data_for_channel: the loop `for segment_index, segment in enumerate(...)` was not found")
    lb = loops[0].body
    a = [i for i, s in enumerate(lb) if isinstance(s, ast.Assign) and T.key_of(s.targets[0]) == "chunk_offset"]
    z_ = [i for i, s in enumerate(lb) if isinstance(s, ast.For)]
    if len(a) != 1 or len(z_) != 1 or z_[0] != len(lb) - 1 or a[0] >= z_[0]:
        die("read_raw_data_for_channel: shape of the segment loop body")
    inner = lb[z_[0]]
    want = "segment.read_raw_data_for_channel(self._file, channel_path, chunk_offset, num_chunks)"
    if want not in ast.unparse(inner.iter):
        die("read_raw_data_for_channel: the inner loop no longer reads (chunk_offset, num_chunks)")
    skipvar = [n.id for n in ast.walk(inner) if isinstance(n, ast.Name)]
    if "remaining_values_to_skip" not in skipvar:
        die("read_raw_data_for_channel: remaining_values_to_skip is not used by the inner loop")
    frag = lb[a[0]:z_[0]]
    zs = ["first_segment", "start_segment", "end_segment", "offset", "end_index", "segment_index"]
    params = [("segment", SEGMENT), ("channel_path", BYTES), ("segment_offsets", LIST(Z))] + [(v, Z) for v in zs]
    env0 = {n: (n, t) for n, t in params}
    rty = T.function(cx, "read_chunk_range_gen", frag, params, env0,
                     ["chunk_offset", "num_chunks", "remaining_values_to_skip"],
                     "nptdms/reader.py: TdmsReader.read_raw_data_for_channel, body of the segment loop (line %d)\n%s\n"
                     % (frag[0].lineno, "\n".join("     " + l for s_ in frag for l in
                                                   ast.unparse(s_).replace("(*", "( *").replace("*)", "* )").split("\n"))),
                     cont_none=True)
    sigs["read_chunk_range_gen"] = (params, rty)
    cx.fragments = {"read_chunk_range": (frag, [n for n, _ in params])}
    return cx, sigs, (src_c + src_d + src_s + src_r)


def header():
    return ("(* GENERATED by harness/gen/gen_pyfuncs_reader.py from nptdms/{daqmx,tdms_segment,reader,common}.py\n"
            "   -- do not edit.  Shallow monadic translation of the reader's integer decision logic;\n"
            "   see the script for the subset and the conventions. *)\n"
            "From Coq Require Import String.\n"
            "From Coq Require Import ZArith List Bool.\n"
            "Import ListNotations.\n"
            "From NpTdms Require Import Base.Bytes Base.Res Base.PySlice Model.Tokens Model.SegState Gen.TypeTable.\n"
            "Local Open Scope Z_scope.\n\n")


def write_if_changed(path, text):
    old = None
    try:
        old = open(path).read()
    except OSError:
        pass
    if old != text:
        os.makedirs(os.path.dirname(path), exist_ok=True)
        tmp = path + ".tmp.%d" % os.getpid()
        with open(tmp, "w") as fh:
            fh.write(text)
        os.replace(tmp, path)
        print("gen_pyfuncs_reader: wrote %s" % os.path.relpath(path, VERIF))
    else:
        print("gen_pyfuncs_reader: %s up to date" % os.path.relpath(path, VERIF))


def main():
    try:
        cx, sigs, _ = translate()
    except T.Unsupported as e:
        die(str(e))
    import reader_selftest as S
    tt_text = S.type_table(REPO, die)
    st_text, counts = S.selftest(REPO, sigs, die, cx.fragments)
    text = header() + PRELUDE + "\n" + "\n\n".join(cx.defs) + "\n\n" + st_text
    write_if_changed(OUT_TT, tt_text)
    write_if_changed(OUT, text)
    print("gen_pyfuncs_reader: %d functions translated; self-test cases (skipped: ZeroDivisionError): %s"
          % (len(sigs), ", ".join("%s %d (%d)" % (k, v[0], v[1]) for k, v in counts.items())))


if __name__ == "__main__":
    main()
