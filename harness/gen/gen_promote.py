#!/venv/bin/python
"""Reflection translator: NumPy dtype promotion -> coq/theories/Gen/NumpyPromote.v

Reads nothing from /repo: it asks the *installed* NumPy what dtype each primitive the
npTDMS scalings use produces for each of the 13 numeric dtypes npTDMS can hand to a
scaling (TDMS numeric channel types and DAQmx scaler types), and emits finite lookup
tables over a Coq inductive `dtype`.  Every table entry is observed by running the
primitive on a one-element (and on an empty) array; an exception is recorded as `None`
together with nothing else - the only exceptions tolerated are the ones listed in
EXPECTED_RAISES (anything else aborts generation: fail closed).

Used by Model/ScaleDtype.v (C14) and Model/ScaleGraph.v (C13).
"""
import os
import sys
import warnings

import numpy as np
import numpy.polynomial.polynomial as poly

OUT = os.path.join(os.path.dirname(os.path.abspath(__file__)), "..", "..", "coq", "theories", "Gen",
                   "NumpyPromote.v")

# (Coq constructor, numpy name) - order is the order of `all_dtypes`
DTYPES = [("Bool", "bool"), ("Int8", "int8"), ("Int16", "int16"), ("Int32", "int32"), ("Int64", "int64"),
          ("UInt8", "uint8"), ("UInt16", "uint16"), ("UInt32", "uint32"), ("UInt64", "uint64"),
          ("Float32", "float32"), ("Float64", "float64"), ("Complex64", "complex64"),
          ("Complex128", "complex128")]
CTOR = {np.dtype(n): c for c, n in DTYPES}

# primitive name -> set of input constructor tuples for which an exception is a known NumPy rule
EXPECTED_RAISES = {
    "sub_arr": {("Bool", "Bool")},                      # numpy boolean subtract is not supported
    "interp": {("Complex64",), ("Complex128",)},        # cannot cast complex to float64 safely
}


def fail(msg):
    sys.stderr.write("gen_promote: " + msg + "\n")
    sys.exit(2)


def ctor_of(dt, where):
    dt = np.dtype(dt)
    if dt not in CTOR:
        fail("%s produced dtype %r which is not one of the 13 modelled dtypes" % (where, dt))
    if not dt.isnative:
        fail("%s produced non-native byte order %r" % (where, dt))
    return CTOR[dt]


def observe(name, fn, args):
    """Run fn on one-element and on empty arrays of the given dtypes; both must agree."""
    res = []
    for n in (1, 0, 3):
        arrs = [np.ones(n, dtype=a) for a in args]
        with warnings.catch_warnings():
            warnings.simplefilter("ignore")
            try:
                out = fn(*arrs)
            except TypeError:
                res.append(None)
                continue
            except Exception as e:  # any other exception class is unexpected
                fail("%s%r raised unexpected %r" % (name, tuple(args), e))
        if not isinstance(out, np.ndarray) or out.shape != (n,):
            fail("%s%r returned %r, expected an array of shape (%d,)" % (name, tuple(args), out, n))
        res.append(ctor_of(out.dtype, "%s%r" % (name, tuple(args))))
    if len(set(res)) != 1:
        fail("%s%r: result dtype depends on the length: %r" % (name, tuple(args), res))
    key = tuple(CTOR[np.dtype(a)] for a in args)
    if res[0] is None and key not in EXPECTED_RAISES.get(name, set()):
        fail("%s%r raised TypeError, which is not a known NumPy rule" % (name, tuple(args)))
    if res[0] is not None and key in EXPECTED_RAISES.get(name, set()):
        fail("%s%r was expected to raise but returned %s" % (name, tuple(args), res[0]))
    return res[0]


# ---- the primitives, written exactly as nptdms/scaling.py uses them ----------------
SLOPE, INTERCEPT = 2.5, -1.25          # python floats, as TDMS double properties arrive
COEFFS = [1.0, 2.0, 3.0]
XP = np.array([0.0, 1.0, 2.0])
FP = np.array([0.0, 10.0, 20.0])

UNARY = [
    # name, function, doc
    ("mul_add_pyfloat", lambda a: a * SLOPE + INTERCEPT, "arr * pyfloat + pyfloat   (LinearScaling.scale)"),
    ("div_pyfloat", lambda a: a / 1000.0, "arr / pyfloat   (RtdScaling, ThermocoupleScaling, ThermistorScaling)"),
    ("astype_float64", lambda a: a.astype(np.dtype('float64'), copy=False),
     "arr.astype(float64, copy=False)   (Polynomial, Thermistor, Strain; Linear/RTD/Thermocouple after D8)"),
    ("astype_complex128", lambda a: a.astype(np.dtype('complex128'), copy=False),
     "arr.astype(complex128, copy=False)   (Linear on complex data after D8)"),
    ("polyval_after_astype", lambda a: poly.polyval(a.astype(np.dtype('float64'), copy=False), COEFFS),
     "polyval(arr.astype(float64), [pyfloat...])   (PolynomialScaling.scale)"),
    ("polyval_direct", lambda a: poly.polyval(a, COEFFS), "polyval(arr, [pyfloat...]) without the cast"),
    ("interp", lambda a: np.interp(a, XP, FP), "np.interp(arr, xp, fp)   (TableScaling.scale)"),
    ("zeros_float64", lambda a: np.zeros(len(a), dtype=np.dtype('float64')),
     "np.zeros(len(arr), float64)   (PolynomialScaling with no coefficients)"),
    ("piecewise_same", lambda a: np.piecewise(a, [a == a], [lambda v: v]),
     "np.piecewise(arr, ...)   (thermocouples: output dtype = input dtype)"),
]
BINARY = [
    ("add_arr", lambda l, r: l + r, "left + right   (AddScaling.scale)"),
    ("sub_arr", lambda l, r: r - l, "right - left   (SubtractScaling.scale; arguments are (left, right))"),
]


def table1(name, fn, doc):
    lines = ["(* %s *)" % doc, "Definition %s (a : dtype) : option dtype :=" % name, "  match a with"]
    for c, n in DTYPES:
        r = observe(name, fn, [n])
        lines.append("  | %s => %s" % (c, "None" if r is None else "Some " + r))
    lines.append("  end.")
    return "\n".join(lines)


def table2(name, fn, doc):
    lines = ["(* %s *)" % doc, "Definition %s (a b : dtype) : option dtype :=" % name, "  match a, b with"]
    for c1, n1 in DTYPES:
        for c2, n2 in DTYPES:
            r = observe(name, fn, [n1, n2])
            lines.append("  | %s, %s => %s" % (c1, c2, "None" if r is None else "Some " + r))
    lines.append("  end.")
    return "\n".join(lines)


def main():
    out = ["(* GENERATED by harness/gen/gen_promote.py from the installed NumPy %s - do not edit. *)" % np.__version__,
           "From Coq Require Import List String Bool.", "Import ListNotations.", "Open Scope string_scope.", "",
           "Definition numpy_version : string := \"%s\"." % np.__version__, "",
           "Inductive dtype := " + " | ".join(c for c, _ in DTYPES) + ".", "",
           "Definition all_dtypes : list dtype := [" + "; ".join(c for c, _ in DTYPES) + "].", "",
           "Definition dtype_eqb (a b : dtype) : bool :=", "  match a, b with"]
    out += ["  | %s, %s => true" % (c, c) for c, _ in DTYPES] + ["  | _, _ => false", "  end.", ""]
    out += ["Definition dtype_name (a : dtype) : string :=", "  match a with"]
    out += ["  | %s => \"%s\"" % (c, n) for c, n in DTYPES] + ["  end.", ""]
    # np.result_type (total on the 13 dtypes)
    out += ["(* np.result_type(a, b)   (MultiScaling._compute_scale_dtype for Add / Subtract) *)",
            "Definition result_type (a b : dtype) : dtype :=", "  match a, b with"]
    for c1, n1 in DTYPES:
        for c2, n2 in DTYPES:
            out.append("  | %s, %s => %s" % (c1, c2, ctor_of(np.result_type(np.dtype(n1), np.dtype(n2)),
                                                             "result_type(%s,%s)" % (n1, n2))))
    out += ["  end.", ""]
    # np.issubdtype(a, np.complexfloating)   (scaling._double_precision_dtype after D8)
    out += ["(* np.issubdtype(a, np.complexfloating) *)", "Definition is_complexfloating (a : dtype) : bool :=",
            "  match a with"]
    for c, n in DTYPES:
        v = np.issubdtype(np.dtype(n), np.complexfloating)
        if v not in (True, False):
            fail("issubdtype returned %r" % (v,))
        out.append("  | %s => %s" % (c, "true" if v else "false"))
    out += ["  end.", ""]
    # dtype kinds and item sizes (used by the value model to pick the arithmetic)
    out += ["(* np.dtype(a).kind : b bool, i signed, u unsigned, f float, c complex *)",
            "Definition dtype_kind (a : dtype) : string :=", "  match a with"]
    for c, n in DTYPES:
        k = np.dtype(n).kind
        if k not in "biufc":
            fail("unexpected kind %r" % k)
        out.append("  | %s => \"%s\"" % (c, k))
    out += ["  end.", "", "Definition dtype_itemsize (a : dtype) : nat :=", "  match a with"]
    out += ["  | %s => %d" % (c, np.dtype(n).itemsize) for c, n in DTYPES] + ["  end.", ""]
    for name, fn, doc in UNARY:
        out += [table1(name, fn, doc), ""]
    for name, fn, doc in BINARY:
        out += [table2(name, fn, doc), ""]
    # closure of float64 under the operations the sensor scalings apply after the cast
    a = np.array([0.5, 2.0])
    warnings.simplefilter("ignore")
    closed = {
        "div": a / 3.0, "sub": a - 1.0, "mul": 2.0 * a, "add": a + 1.0, "rsub": 1.0 - a, "sqrt": np.sqrt(a),
        "sqrt_where": np.sqrt(a, where=a > 1), "reciprocal": np.reciprocal(a), "log": np.log(a),
        "polyval": poly.polyval(a, [1.0, 0.0, 2.0]), "piecewise": np.piecewise(a, [a > 1], [lambda v: v, lambda v: -v]),
        "neg_add_div": (-1.0 + np.sqrt(a)) / 2.0,
    }
    for k, v in closed.items():
        if v.dtype != np.dtype("float64"):
            fail("float64 is not closed under %s: got %r" % (k, v.dtype))
    out += ["(* Checked at generation time: float64 arrays stay float64 under / - * + with python floats, sqrt",
            "   (with and without where=), reciprocal, log, polyval and piecewise - the operations the sensor",
            "   scalings (RTD, Strain, Thermistor, Thermocouple) apply after their cast to float64. *)",
            "Definition float64_closed_under_sensor_ops : bool := true.", ""]
    text = "\n".join(out)
    os.makedirs(os.path.dirname(OUT), exist_ok=True)
    old = open(OUT).read() if os.path.exists(OUT) else None
    if old != text:
        with open(OUT, "w") as f:
            f.write(text)
        print("gen_promote: wrote", os.path.normpath(OUT))
    else:
        print("gen_promote: unchanged")


if __name__ == "__main__":
    main()
