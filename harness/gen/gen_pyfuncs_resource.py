#!/venv/bin/python
"""Fail-closed translator: the FILE-HANDLE CONTROL FLOW of npTDMS -> coq/theories/Gen/PyFuncsResource.v
(and the self-test, Gen/PyFuncsResourceTest.v)

Translated with Python `ast` (nptdms is imported only for the self-test, harness/gen/resource_selftest.py):

  nptdms/reader.py  TdmsReader.__init__, close, read_metadata (which file is read, the try / finally; the
                    parsing loop is one opaque I/O step on that file), _ensure_open, is_index_file_only,
                    read_raw_data / read_raw_data_for_channel / read_channel_chunk_for_index (the
                    _ensure_open() call, then one opaque I/O step on self._file)
  nptdms/tdms.py    TdmsFile.__init__ (try / except / finally, keep_open), close, __enter__, __exit__, the
                    static constructors read / open / read_metadata, _read_file (read_metadata, one opaque
                    step for building the objects, the conditional _read_data), _read_data,
                    TdmsChannel._read_channel_data (from the index-file-only guard on),
                    TdmsChannel._read_channel_data_chunk_for_index
  nptdms/writer.py  TdmsWriter.__init__, open, close, __enter__, __exit__, defragment (the source TdmsFile,
                    the with-block of the new writer; the statements of the block are a parameter)

Semantic domain (fixed text, PRELUDE below): an exception-and-state monad `S -> xres S A` whose `XErr`
carries the state REACHED when the exception left the function; a HANDLE TABLE with one entry per file of the
scenario (the .tdms file, the .tdms_index file): no object / an object created by the library with open() or
supplied by the caller, open or closed, plus the number of library-opened objects whose reference was
overwritten while open and the log of open / close calls; `open(p, mode)` fails where the oracle says so;
`X.close()` on None is the AttributeError; I/O on a closed object is the ValueError.  The attributes
`_file`, `_index_file`, `_file_path`, `_index_file_path`, `_file_mode`, `_reader`, `data_read` of the three
classes are fields of per-class state records; every other attribute is not tracked.

What comes from the AST: every branch and its condition, the order of statements, which expression is opened /
closed / assigned to which attribute, try / except / finally / with structure, calls between the translated
methods with their arguments (keywords and defaults resolved against the callee's signature), raise statements.

Statements that touch no tracked attribute, open nothing, close nothing and call no translated method
("neutral": checked syntactically) are NOT translated and assumed not to raise, except the spans the driver turns
into opaque steps with a fault point of the oracle (metadata parsing, building the object tree, allocating, reading
raw data).  The driver also checks that every `open(`, `.close(`, `__enter__`, `__exit__` of reader.py, tdms.py,
writer.py lies in a translated function and was consumed by the translation, and that no other module of the
package contains one.

Anything unrecognised: message on stderr, exit 1, nothing written.
"""
import ast
import os
import sys

HERE = os.path.dirname(os.path.abspath(__file__))
sys.path.insert(0, HERE)
from py2gallina import Unsupported, fail, is_skip, is_timer_with, ind       # noqa: E402

VERIF = os.path.dirname(os.path.dirname(HERE))
REPO = os.environ.get("NPTDMS_REPO", "/repo")
OUT = os.path.join(VERIF, "coq", "theories", "Gen", "PyFuncsResource.v")
OUT_TEST = os.path.join(VERIF, "coq", "theories", "Gen", "PyFuncsResourceTest.v")      # Gen/PyFuncsResourceTest.v
ME = "gen_pyfuncs_resource"

# ---------------------------------------------------------------------------
# types of the translated fragment

B, UNIT, NONE = ("B",), ("unit",), ("None",)
REF = ("ref",)          # a file object or None          : option fkey
KEY = ("key",)          # a file object                  : fkey
OPATH = ("opath",)      # a path string or None          : option path
PATH = ("path",)        # a path string                  : path
ARG = ("arg",)          # argument of dynamic type       : pyarg
TAG = ("tag",)          # four bytes read from a stream  : tagk
MODE = ("mode",)        # a mode string                  : string
OBJ = lambda c: ("obj", c)          # reference to THE object of class c : unit       # noqa: E731
OOBJ = lambda c: ("oobj", c)        # ... or None : option unit                       # noqa: E731
OPAQUE = ("opaque",)    # a value the translation does not follow

COQTY = {B: "bool", UNIT: "unit", REF: "(option fkey)", KEY: "fkey", OPATH: "(option path)", PATH: "path",
         ARG: "pyarg", TAG: "tagk", MODE: "string"}


def coqty(t):
    if t[0] == "obj":
        return "unit"
    if t[0] == "oobj":
        return "(option unit)"
    return COQTY[t]


def coerce(term, frm, to, node):
    if frm == to:
        return term
    if to == REF and frm == KEY:
        return "(Some %s)" % term
    if to == OPATH and frm == PATH:
        return "(Some %s)" % term
    if to in (REF, OPATH) and frm == NONE:
        return "None"
    if to[0] == "oobj" and frm == NONE:
        return "None"
    if to[0] == "oobj" and frm == ("obj", to[1]):
        return "(Some %s)" % term
    if to == OPATH and frm == ARG:
        return "(Some (arg_path %s))" % term          # a non-stream argument used as a path
    if to == PATH and frm == ARG:
        return "(arg_path %s)" % term
    fail(node, "cannot use a value of type %r where %r is expected" % (frm, to))


# ---------------------------------------------------------------------------
# the classes: state records, tracked attributes, how one class's state contains another's

CLASSES = {
    "TdmsReader": dict(state="grd", tab=("gr_tab", "gr_set_tab"), attrs={
        "_file_path": ("gr_file_path", "gr_set_file_path", OPATH),
        "_index_file_path": ("gr_index_file_path", "gr_set_index_file_path", OPATH),
        "_file": ("gr_file", "gr_set_file", REF),
        "_index_file": ("gr_index_file", "gr_set_index_file", REF)}),
    "TdmsWriter": dict(state="gwr", tab=("gw_tab", "gw_set_tab"), attrs={
        "_file_path": ("gw_file_path", "gw_set_file_path", OPATH),
        "_index_file_path": ("gw_index_file_path", "gw_set_index_file_path", OPATH),
        "_file": ("gw_file", "gw_set_file", REF),
        "_index_file": ("gw_index_file", "gw_set_index_file", REF),
        "_file_mode": ("gw_file_mode", "gw_set_file_mode", MODE)}),
    "TdmsFile": dict(state="gtf", tab=None, attrs={
        "_reader": ("gt_reader", "gt_set_reader", OOBJ("TdmsReader")),
        "data_read": ("gt_data_read", "gt_set_data_read", B)}),
    # a channel shares the TdmsReader of its file: its methods run on the reader's state
    "TdmsChannel": dict(state="grd", tab=None, attrs={}, alias={"_reader": "TdmsReader"}),
    # TdmsWriter.defragment (a classmethod): the source TdmsFile and the new writer
    "Defrag": dict(state="gdf", tab=None, attrs={}),
}
# (class whose method runs, class of the object used) -> lens from the former's state to the latter's
# the third component: the oracle the callee sees (defragment's destination files have fault points of their own)
LENS = {("TdmsFile", "TdmsReader"): ("gt_rd", "gt_set_rd", "orc"),
        ("Defrag", "TdmsFile"): ("gd_tf", "gd_set_tf", "orc"),
        ("Defrag", "TdmsWriter"): ("gd_wr", "gd_set_wr", "(orc_dest orc)"),
        ("TdmsChannel", "TdmsReader"): None}
TRACKED_ATTRS = {a for c in CLASSES.values() for a in c["attrs"]}

# raise <Class>(<message>) -> exception constructor, by the first literal piece of the message
RAISES = [("ValueError", "File should either start with", "(Ex ETag)"),
          ("ValueError", "Neither tdms_index file nor tdms file is available", "(Ex ENoFile)"),
          ("RuntimeError", "Cannot read data after the underlying TDMS reader is closed", "(Ex EClosed)"),
          ("RuntimeError", "Data cannot be read from index file only", "(Ex EIndexOnly)"),
          ("ValueError", "Invalid type, ``index_file`` can", "ExOther")]

# method names that are translated (a neutral statement may call none of them) and constructors
EFFECT_METHODS = {"close", "open", "read_metadata", "read_raw_data", "read_raw_data_for_channel",
                  "read_channel_chunk_for_index", "_ensure_open", "_read_file", "_read_data", "__enter__", "__exit__",
                  "_read_channel_data", "_read_channel_data_chunk_for_index", "defragment", "read", "is_index_file_only"}
CONSTRUCTORS = {"TdmsReader", "TdmsFile", "TdmsWriter", "cls"}
# ... except these: `.read(` on a stream / `.read_data(` of a channel / `.open`? are judged by their receiver below
# methods of a TdmsSegment (tdms_segment.py contains no open / close: checked) that share a name with a reader method
NEUTRAL_CALLS = {("segment", "read_raw_data"), ("segment", "read_raw_data_for_channel")}
NEUTRAL_RECEIVER_METHODS = {"read"}       # x.read(n) on a file object is I/O, not TdmsFile.read


def die(msg):
    sys.stderr.write("%s: UNSUPPORTED / unrecognised source, nothing written: %s\n" % (ME, msg))
    sys.exit(1)


def unp(n):
    return ast.unparse(n)


# ---------------------------------------------------------------------------
# neutrality

def neutral_violation(node, allow_return=False, allow_yield=False):
    """None when the statement / expression touches no handle logic, else a description of what it touches"""
    for n in ast.walk(node):
        if isinstance(n, ast.Call):
            f = n.func
            if isinstance(f, ast.Name) and (f.id == "open" or f.id in CONSTRUCTORS):
                return "call of %s" % f.id
            if isinstance(f, ast.Attribute) and f.attr in EFFECT_METHODS:
                if f.attr in NEUTRAL_RECEIVER_METHODS and not (isinstance(f.value, ast.Name) and f.value.id in
                                                               ("TdmsFile", "cls", "self")):
                    continue
                if isinstance(f.value, ast.Name) and (f.value.id, f.attr) in NEUTRAL_CALLS:
                    continue
                return "call of .%s" % f.attr
        if isinstance(n, ast.Attribute) and isinstance(n.ctx, (ast.Store, ast.Del)) and n.attr in TRACKED_ATTRS:
            return "assignment to .%s" % n.attr
        if isinstance(n, ast.Attribute) and n.attr in ("close", "__exit__", "__enter__"):
            return "mention of .%s" % n.attr
        if isinstance(n, ast.Name) and n.id == "open":
            return "mention of open"
        if isinstance(n, (ast.With, ast.AsyncWith)) and not is_timer_with(n):
            return "with statement"
        if isinstance(n, ast.Return) and not allow_return:
            return "return"
        if isinstance(n, (ast.Yield, ast.YieldFrom)) and not allow_yield:
            return "yield"
        if isinstance(n, (ast.Global, ast.Nonlocal, ast.Delete, ast.Lambda, ast.FunctionDef, ast.ClassDef)):
            return type(n).__name__
    return None


def is_neutral(node, **kw):
    return neutral_violation(node, **kw) is None


# ---------------------------------------------------------------------------
# translation context

class Fn:
    """a translated function: how to call it"""

    def __init__(self, cls, name, gen, params, rty, pynames, defaults, static=False):
        self.cls, self.name, self.gen, self.params, self.rty = cls, name, gen, params, rty
        self.pynames = pynames          # all Python parameter names in order (without self / cls)
        self.defaults = defaults        # python name -> ast default
        self.static = static


class Cx:
    def __init__(self):
        self.funcs = {}                 # (class, method) -> Fn
        self.defs = []
        self.consumed = set()           # (file, lineno, col) of the open / close / enter / exit sites translated
        self.file = None
        self.n_state = 0
        self.n_tmp = 0
        self.cls = None
        self.extra = {}                 # name of a function parameter the body may call (the with-block's statements)

    def fresh_state(self):
        self.n_state += 1
        return "s%d" % self.n_state

    def tmp(self):
        self.n_tmp += 1
        return "t%d__" % self.n_tmp

    def consume(self, node, kind):
        self.consumed.add((self.file, node.lineno, node.col_offset, kind))


class H:
    """effects hoisted out of an expression, in evaluation order; sv = the state variable current after them"""

    def __init__(self, sv, allow=True, parent=None):
        self.pre = []
        self.sv = sv
        self.allow = allow

    def pure(self):
        """a context in which nothing may be hoisted (operands that are not always evaluated)"""
        return H(self.sv, allow=False)

    def wrap(self, body):
        out = ""
        for v, s, term in self.pre:
            out += "dox (%s, %s) <- %s;\n" % (v, s, term)
        return out + body


def cname(n):
    if n.endswith("__") or n in ("orc", "fun", "match", "with", "end", "if", "then", "else", "let", "in", "at", "as",
                                 "body", "tt", "Some", "None", "true", "false") or (n[0] == "s" and n[1:].isdigit()):
        raise Unsupported("Python name %r collides with an identifier of the translation" % n)
    return n


def self_attr(e):
    if isinstance(e, ast.Attribute) and isinstance(e.value, ast.Name) and e.value.id == "self":
        return e.attr
    return None


def lens_term(cx, target_cls, gen, args=()):
    """the translated function `gen` of target_cls (a computation on that class's state) applied to its oracle and
    arguments, as a computation on the state of cx.cls"""
    if CLASSES[target_cls]["state"] == CLASSES[cx.cls]["state"]:
        return " ".join([gen, "orc"] + list(args))
    ln = LENS.get((cx.cls, target_cls))
    if ln is None:
        raise Unsupported("no way from the state of %s to an object of %s" % (cx.cls, target_cls))
    return "zoom %s %s (%s)" % (ln[0], ln[1], " ".join([gen, ln[2]] + list(args)))


# ---------------------------------------------------------------------------
# expressions

def narrowing_test(e, env):
    """hasattr(v, "read") / isinstance(v, bool) on a local of dynamic type -> (v, constructor, narrowed type)"""
    if isinstance(e, ast.Call) and isinstance(e.func, ast.Name) and len(e.args) == 2 and not e.keywords \
            and isinstance(e.args[0], ast.Name) and e.args[0].id in env and env[e.args[0].id][1] == ARG:
        if e.func.id == "hasattr" and isinstance(e.args[1], ast.Constant) and e.args[1].value == "read":
            return e.args[0].id, "AStream", KEY
        if e.func.id == "isinstance" and isinstance(e.args[1], ast.Name) and e.args[1].id == "bool":
            return e.args[0].id, "ABool", B
    return None


def cond(e, env, h, cx):
    t, ty = ex(e, env, h, cx)
    if ty == B:
        return t
    if ty in (REF, OPATH) or ty[0] == "oobj":
        return "(negb (is_none %s))" % t           # file objects / non-empty strings / plain objects are truthy
    fail(e, "truth value of type %r" % (ty,))


def ex(e, env, h, cx):
    """expression -> (Gallina term, type); effects are hoisted into h (when h.allow)"""
    sv = h.sv
    if isinstance(e, ast.Constant):
        if e.value is None:
            return "None", NONE
        if e.value is True or e.value is False:
            return ("true" if e.value else "false"), B
        fail(e, "constant")
    if isinstance(e, ast.Name):
        if e.id == "self":
            return "tt", OBJ(cx.cls)
        if e.id in env:
            t, ty = env[e.id]
            if ty == OPAQUE:
                fail(e, "use of a value the translation does not follow")
            return t, ty
        fail(e, "unknown variable")
    a = self_attr(e)
    if a is not None:
        ent = CLASSES[cx.cls]["attrs"].get(a)
        if ent is None:
            al = CLASSES[cx.cls].get("alias", {}).get(a)
            if al is not None:
                return "tt", OBJ(al)
            fail(e, "attribute self.%s is not tracked" % a)
        return "(%s %s)" % (ent[0], sv), ent[2]
    if isinstance(e, ast.UnaryOp) and isinstance(e.op, ast.Not):
        return "(negb %s)" % cond(e.operand, env, h, cx), B
    if isinstance(e, ast.Compare) and len(e.ops) == 1:
        op, r = e.ops[0], e.comparators[0]
        if isinstance(op, (ast.Is, ast.IsNot)) and isinstance(r, ast.Constant) and r.value is None:
            t, ty = ex(e.left, env, h, cx)
            if ty not in (REF, OPATH) and ty[0] != "oobj":
                fail(e, "None test on a value of type %r" % (ty,))
            c = "(is_none %s)" % t
            return (c if isinstance(op, ast.Is) else "(negb %s)" % c), B
        if isinstance(op, (ast.Eq, ast.NotEq)) and isinstance(r, ast.Constant) and type(r.value) is bytes:
            t, ty = ex(e.left, env, h, cx)
            tags = {b"TDSh": "TagH", b"TDSm": "TagM"}
            if ty != TAG or r.value not in tags:
                fail(e, "comparison with a bytes constant")
            c = "(tag_eqb %s %s)" % (t, tags[r.value])
            return (c if isinstance(op, ast.Eq) else "(negb %s)" % c), B
        fail(e, "comparison")
    if isinstance(e, ast.BoolOp):
        is_and = isinstance(e.op, ast.And)

        def go(vals, env_, first):
            v = vals[0]
            hh = h if first else h.pure()
            nt = narrowing_test(v, env_)
            if nt is not None and len(vals) > 1 and is_and:
                name, ctor, nty = nt
                n = cname(name) + "_n"
                env2 = dict(env_)
                env2[name] = (n, nty)
                return "(match %s with %s %s => %s | _ => false end)" % (env_[name][0], ctor, n, go(vals[1:], env2, False))
            c = cond(v, env_, hh, cx)
            if len(vals) == 1:
                return c
            return "(%s %s %s)" % (c, "&&" if is_and else "||", go(vals[1:], env_, False))
        return go(e.values, env, True), B
    if isinstance(e, ast.IfExp):
        c = cond(e.test, env, h, cx)
        a_, aty = ex(e.body, env, h.pure(), cx)
        b_, bty = ex(e.orelse, env, h.pure(), cx)
        if aty != bty:
            fail(e, "conditional expression of types %r / %r" % (aty, bty))
        return "(if %s then %s else %s)" % (c, a_, b_), aty
    if isinstance(e, ast.BinOp) and isinstance(e.op, ast.Add) and isinstance(e.right, ast.Constant) \
            and type(e.right.value) is str:
        t, ty = ex(e.left, env, h, cx)
        if e.right.value == "_index" and ty in (PATH, OPATH, ARG):
            if ty == OPATH:
                # None + str is a TypeError; the attribute is a string wherever the source concatenates
                if not h.allow:
                    fail(e, "concatenation that may raise in a context without effects")
                v, s2 = cx.tmp(), cx.fresh_state()
                h.pre.append((v, s2, "need_path %s %s" % (t, h.sv)))
                h.sv = s2
                t = v
            elif ty == ARG:
                t = "(arg_path %s)" % t
            return "(path_add_index %s)" % t, PATH
        if ty == MODE and e.right.value.isascii() and e.right.value.isalnum():
            return '(%s ++ "%s")%%string' % (t, e.right.value), MODE
        fail(e, "string concatenation")
    if isinstance(e, ast.Call):
        return call(e, env, h, cx)
    fail(e, "unsupported expression")


def bind_args(fn, e, env, h, cx, node):
    """positional / keyword arguments of a call against the callee's signature -> terms of the tracked parameters"""
    given = {}
    if len(e.args) > len(fn.pynames):
        fail(node, "too many arguments for %s.%s" % (fn.cls, fn.name))
    for n, a in zip(fn.pynames, e.args):
        given[n] = a
    for k in e.keywords:
        if k.arg is None or k.arg not in fn.pynames or k.arg in given:
            fail(node, "keyword argument of %s.%s" % (fn.cls, fn.name))
        given[k.arg] = k.value
    tracked = dict(fn.params)
    # evaluation order: as written (positional, then keywords)
    terms = {}
    for n in list(given):
        if n in tracked:
            t, ty = ex(given[n], env, h, cx)
            terms[n] = coerce(t, ty, tracked[n], given[n])
        elif not is_neutral(given[n]):
            fail(given[n], "argument for an untracked parameter is not neutral")
    out = []
    for n, ty in fn.params:
        if n in terms:
            out.append(terms[n])
        elif n in fn.defaults:
            out.append(default_term(fn, n, ty, cx))
        else:
            fail(node, "missing argument %s of %s.%s" % (n, fn.cls, fn.name))
    return out


def default_term(fn, n, ty, cx):
    d = fn.defaults[n]
    if isinstance(d, ast.Constant):
        if ty == B and d.value in (True, False):
            return "true" if d.value else "false"
        if ty == ARG and d.value in (True, False):
            return "(ABool %s)" % ("true" if d.value else "false")
        if ty == MODE and type(d.value) is str and d.value.isalnum():
            return '"%s"%%string' % d.value
    raise Unsupported("default value %s of parameter %s of %s.%s" % (unp(d), n, fn.cls, fn.name))


def call(e, env, h, cx):
    f = e.func
    name = f.id if isinstance(f, ast.Name) else None
    if name == "str" and len(e.args) == 1 and not e.keywords:
        t, ty = ex(e.args[0], env, h, cx)
        if ty != ARG:
            fail(e, "str of %r" % (ty,))
        return "(arg_path %s)" % t, PATH
    nt = narrowing_test(e, env)
    if nt is not None:
        return "(match %s with %s _ => true | _ => false end)" % (env[nt[0]][0], nt[1]), B
    if unp(f) == "os.path.isfile" and len(e.args) == 1 and not e.keywords:
        t, ty = ex(e.args[0], env, h, cx)
        return "(o_isfile orc %s)" % coerce(t, ty, PATH, e), B
    if isinstance(f, ast.Attribute) and f.attr == "endswith" and len(e.args) == 1 and not e.keywords \
            and isinstance(e.args[0], ast.Constant) and e.args[0].value == ".tdms_index":
        t, ty = ex(f.value, env, h, cx)
        if ty != PATH:
            fail(e, "endswith on %r" % (ty,))
        return "(path_is_index %s)" % t, B
    if isinstance(f, ast.Attribute) and f.attr == "read" and len(e.args) == 1 and not e.keywords \
            and isinstance(e.args[0], ast.Constant) and e.args[0].value == 4 and isinstance(f.value, ast.Name) \
            and env.get(f.value.id, (None, None))[1] == KEY:
        return "(o_tag orc)", TAG          # the first four bytes of the supplied stream
    # calls of translated functions
    target = None
    if name in ("TdmsReader", "TdmsFile", "TdmsWriter") or (name == "cls" and cx.cls == "Defrag"):
        k = "TdmsWriter" if name == "cls" else name
        target = (k, "__init__", None)
    elif isinstance(f, ast.Attribute):
        if isinstance(f.value, ast.Name) and f.value.id == "TdmsFile" and ("TdmsFile", f.attr) in cx.funcs \
                and cx.funcs[("TdmsFile", f.attr)].static:
            target = ("TdmsFile", f.attr, None)
        elif isinstance(f.value, ast.Name) and f.value.id == "self" and (cx.cls, f.attr) in cx.funcs:
            target = (cx.cls, f.attr, None)
        else:
            rt, rty = ex(f.value, env, h, cx)
            if rty[0] in ("obj", "oobj") and (rty[1], f.attr) in cx.funcs:
                target = (rty[1], f.attr, (rt, rty))
    if target is None:
        fail(e, "unsupported call")
    if not h.allow:
        fail(e, "call of a translated function in a context without effects")
    k, m, recv = target
    fn = cx.funcs.get((k, m))
    if fn is None:
        fail(e, "%s.%s is not translated (yet)" % (k, m))
    args = bind_args(fn, e, env, h, cx, e)
    if m == "close":
        cx.consume(e, "close")
    term = lens_term(cx, k, fn.gen, args)
    if recv is not None and recv[1][0] == "oobj":
        # method call on an attribute that may be None: AttributeError
        term = "on_some %s (%s)" % (recv[0], term)
    v, s2 = cx.tmp(), cx.fresh_state()
    h.pre.append((v, s2, "%s %s" % (term, h.sv)))
    h.sv = s2
    rty = fn.rty if m != "__init__" else OBJ(k)
    return ("tt" if m == "__init__" else v), rty


# ---------------------------------------------------------------------------
# statements

class Scope:
    def __init__(self, ret, reraise=None, no_return=False):
        self.ret = ret                  # (env, sv, value node or None) -> term
        self.reraise = reraise          # sv -> term, inside an except handler
        self.no_return = no_return


def assigned_locals(stmts):
    out = set()
    for s in stmts:
        for n in ast.walk(s):
            if isinstance(n, ast.Name) and isinstance(n.ctx, ast.Store):
                out.add(n.id)
    return out


def loaded_names(stmts):
    out = set()
    for s in stmts:
        for n in ast.walk(s):
            if isinstance(n, ast.Name) and isinstance(n.ctx, ast.Load):
                out.add(n.id)
    return out


def has_return(stmts):
    return any(isinstance(n, ast.Return) for s in stmts for n in ast.walk(s))


def tab_effect(cx, prim):
    tab = CLASSES[cx.cls]["tab"]
    if tab is None:
        raise Unsupported("class %s has no handle table of its own" % cx.cls)
    return "zoom %s %s (%s)" % (tab[0], tab[1], prim)


def block(stmts, env, sv, K, sc, cx):
    """statements -> term of type xres S A; K(env, sv) is what follows"""
    if not stmts:
        return K(env, sv)
    s, rest = stmts[0], stmts[1:]
    if is_skip(s):
        return block(rest, env, sv, K, sc, cx)
    # ---- markers put in by the driver
    if isinstance(s, ast.Expr) and isinstance(s.value, ast.Call) and isinstance(s.value.func, ast.Name) \
            and s.value.func.id in ("__io__", "__iok__", "__step__", "__body__"):
        c = s.value
        if c.func.id in ("__io__", "__iok__"):
            h = H(sv)
            t, ty = ex(c.args[0], env, h, cx)
            r = coerce(t, ty, REF, c)
            prim = ("tab_io %s (%s orc)" if c.func.id == "__io__" else "tab_io_on %s (%s orc)") % (r, c.args[1].value)
            s2 = cx.fresh_state()
            return h.wrap("dox (_, %s) <- %s %s;\n" % (s2, tab_effect(cx, prim), h.sv) + block(rest, env, s2, K, sc, cx))
        s2 = cx.fresh_state()
        if c.func.id == "__step__":
            return "dox (_, %s) <- xstep (%s orc) %s;\n" % (s2, c.args[0].value, sv) + block(rest, env, s2, K, sc, cx)
        return "dox (_, %s) <- %s %s;\n" % (s2, cx.extra["body"], sv) + block(rest, env, s2, K, sc, cx)
    if isinstance(s, ast.Raise):
        if s.exc is None:
            if sc.reraise is None:
                fail(s, "bare raise outside an except handler")
            return sc.reraise(sv)
        exc = s.exc
        if not (isinstance(exc, ast.Call) and isinstance(exc.func, ast.Name) and len(exc.args) == 1 and not exc.keywords):
            fail(s, "raise statement")
        first = None
        for n in ast.walk(exc.args[0]):
            if isinstance(n, ast.Constant) and type(n.value) is str:
                first = n.value
                break
        for k, prefix, ctor in RAISES:
            if exc.func.id == k and first is not None and first.startswith(prefix):
                return "XErr %s %s" % (ctor, sv)
        fail(s, "exception not in the table")
    if isinstance(s, ast.Return):
        if sc.no_return:
            fail(s, "return inside a finally block / a with block / a try that is followed by statements")
        return sc.ret(env, sv, s.value)
    if isinstance(s, ast.If):
        return if_stmt(s, rest, env, sv, K, sc, cx)
    if isinstance(s, ast.Try):
        return try_stmt(s, rest, env, sv, K, sc, cx)
    if is_timer_with(s):
        if is_neutral(s):
            env2 = dict(env)
            for n in assigned_locals([s]):
                env2[n] = (None, OPAQUE)
            return block(rest, env2, sv, K, sc, cx)
        return block(s.body + rest, env, sv, K, sc, cx)
    if isinstance(s, ast.With):
        return with_stmt(s, rest, env, sv, K, sc, cx)
    if isinstance(s, ast.For) and not s.orelse and isinstance(s.iter, ast.Call) and not is_neutral(s.iter) \
            and all(is_neutral(b) for b in s.body) and is_neutral(s.target):
        # for x in <generator method of a translated class>(..): statements that touch no handle logic
        # = running the generator to its end (its translation is the whole run)
        env2 = dict(env)
        for n in assigned_locals([s]):
            env2[n] = (None, OPAQUE)
        return effect_stmt(ast.copy_location(ast.Expr(value=s.iter), s), rest, env2, sv, K, sc, cx)
    if isinstance(s, ast.Assign) and (not is_neutral(s) or assign_is_followed(s, env, sv, cx)):
        return assign(s, rest, env, sv, K, sc, cx)
    if isinstance(s, ast.Expr) and not is_neutral(s):
        return effect_stmt(s, rest, env, sv, K, sc, cx)
    # ---- whole statements that touch no handle logic are not translated
    why = neutral_violation(s)
    if why is not None:
        fail(s, "statement is neither translated nor neutral (%s)" % why)
    env2 = dict(env)
    for n in assigned_locals([s]):
        env2[n] = (None, OPAQUE)
    return block(rest, env2, sv, K, sc, cx)


def effect_stmt(s, rest, env, sv, K, sc, cx):
    """expression statements: X.close() on a file object, calls of translated methods"""
    c = s.value
    if not isinstance(c, ast.Call):
        fail(s, "unsupported statement")
    if isinstance(c.func, ast.Attribute) and c.func.attr == "close" and not c.args and not c.keywords:
        recv = c.func.value
        is_file = False
        if self_attr(recv) is not None:
            ent = CLASSES[cx.cls]["attrs"].get(self_attr(recv))
            is_file = ent is not None and ent[2] == REF
        elif isinstance(recv, ast.Name) and recv.id in env and env[recv.id][1] in (REF, KEY):
            is_file = True
        if is_file:
            h = H(sv)
            t, ty = ex(recv, env, h, cx)
            cx.consume(c, "close")
            s2 = cx.fresh_state()
            return h.wrap("dox (_, %s) <- %s %s;\n" % (s2, tab_effect(cx, "tab_close %s" % coerce(t, ty, REF, c)), h.sv)
                          + block(rest, env, s2, K, sc, cx))
    h = H(sv)
    ex(c, env, h, cx)
    if not h.pre:
        fail(s, "expression statement without a translated effect")
    v, s2, term = h.pre[-1]
    h.pre[-1] = ("_", s2, term)
    return h.wrap(block(rest, env, h.sv, K, sc, cx))


def assign_is_followed(s, env, sv, cx):
    """a neutral assignment the translation must still follow: to a tracked attribute, or of a value of a followed
    type to a local variable"""
    if len(s.targets) != 1:
        return False
    t = s.targets[0]
    a = self_attr(t)
    if a is not None:
        return a in CLASSES[cx.cls]["attrs"]
    if isinstance(t, ast.Name):
        snap = (cx.n_state, cx.n_tmp, set(cx.consumed))
        try:
            ex(s.value, env, H(sv), cx)
            return True
        except Unsupported:
            return False
        finally:
            cx.n_state, cx.n_tmp, cx.consumed = snap
    return False


def assign(s, rest, env, sv, K, sc, cx):
    if len(s.targets) != 1:
        fail(s, "multiple assignment targets")
    tgt = s.targets[0]
    h = H(sv)
    v = s.value
    if isinstance(v, ast.Call) and isinstance(v.func, ast.Name) and v.func.id == "open":
        if len(v.args) != 2 or v.keywords:
            fail(s, "open call")
        p, pty = ex(v.args[0], env, h, cx)
        if pty == OPATH:
            tv, s2 = cx.tmp(), cx.fresh_state()
            h.pre.append((tv, s2, "need_path %s %s" % (p, h.sv)))      # open(None, ..) is a TypeError
            h.sv = s2
            p = tv
        else:
            p = coerce(p, pty, PATH, v)
        if isinstance(v.args[1], ast.Constant) and type(v.args[1].value) is str and v.args[1].value.isalnum():
            m = '"%s"%%string' % v.args[1].value
        else:
            m, mty = ex(v.args[1], env, h, cx)
            if mty != MODE:
                fail(s, "mode of open")
        cx.consume(v, "open")
        tv, s2 = cx.tmp(), cx.fresh_state()
        h.pre.append((tv, s2, "%s %s" % (tab_effect(cx, "tab_open orc %s %s" % (p, m)), h.sv)))
        h.sv = s2
        t, ty = tv, KEY
    else:
        t, ty = ex(v, env, h, cx)
    a = self_attr(tgt)
    if a is not None:
        ent = CLASSES[cx.cls]["attrs"].get(a)
        if ent is None:
            fail(s, "assignment of a followed value to an untracked attribute")
        s2 = cx.fresh_state()
        return h.wrap("let %s := %s %s %s in\n" % (s2, ent[1], coerce(t, ty, ent[2], s), h.sv)
                      + block(rest, env, s2, K, sc, cx))
    if isinstance(tgt, ast.Name):
        n = cname(tgt.id)
        if ty == NONE:
            fail(s, "local variable assigned None")
        env2 = dict(env)
        env2[tgt.id] = (n, ty)
        return h.wrap("let %s := %s in\n" % (n, t) + block(rest, env2, h.sv, K, sc, cx))
    if isinstance(tgt, ast.Tuple) and ty == UNIT and all(isinstance(x, ast.Name) for x in tgt.elts):
        # (a, b) = <translated method whose value is not followed>
        env2 = dict(env)
        for x in tgt.elts:
            env2[x.id] = (None, OPAQUE)
        if h.pre and h.pre[-1][0] == t:
            h.pre[-1] = ("_",) + tuple(h.pre[-1][1:])
        return h.wrap(block(rest, env2, h.sv, K, sc, cx))
    fail(s, "assignment target")


def mentions_followed(e, env, cx):
    for n in ast.walk(e):
        if self_attr(n) is not None and self_attr(n) in CLASSES[cx.cls]["attrs"]:
            return True
        if isinstance(n, ast.Name) and n.id in env and env[n.id][1] != OPAQUE:
            return True
    return False


def if_stmt(s, rest, env, sv, K, sc, cx):
    if is_neutral(s, allow_return=True) and not has_return([s]) and not mentions_followed(s.test, env, cx):
        # decided by values the translation does not follow; its branches touch no handle logic
        env2 = dict(env)
        for n in assigned_locals([s]):
            env2[n] = (None, OPAQUE)
        return block(rest, env2, sv, K, sc, cx)
    nt = narrowing_test(s.test, env)
    if nt is not None:
        name, ctor, nty = nt
        n = cname(name) + "_n"
        env_t = dict(env)
        env_t[name] = (n, nty)
        a = block(s.body + rest, env_t, sv, K, sc, cx)
        b = block(s.orelse + rest, env, sv, K, sc, cx)
        return "match %s with\n| %s %s =>\n%s\n| _ =>\n%s\nend" % (env[name][0], ctor, n, ind(a), ind(b))
    h = H(sv)
    c = cond(s.test, env, h, cx)
    snap = (cx.n_state, cx.n_tmp)
    a = block(s.body + rest, env, h.sv, K, sc, cx)
    if (cx.n_state, cx.n_tmp) == snap and not h.pre and is_neutral(ast.Module(body=s.body + s.orelse, type_ignores=[])) \
            and a == block(s.orelse + rest, env, h.sv, K, sc, cx) and (cx.n_state, cx.n_tmp) == snap:
        return a            # neither branch does anything the translation follows
    b = block(s.orelse + rest, env, h.sv, K, sc, cx)
    return h.wrap("if %s then\n%s\nelse\n%s" % (c, ind(a), ind(b)))



def try_stmt(s, rest, env, sv, K, sc, cx):
    if is_neutral(s):
        env2 = dict(env)
        for n in assigned_locals([s]):
            env2[n] = (None, OPAQUE)
        return block(rest, env2, sv, K, sc, cx)
    if s.orelse:
        fail(s, "try ... else")
    if len(s.handlers) > 1 or (s.handlers and not (isinstance(s.handlers[0].type, ast.Name)
                                                    and s.handlers[0].type.id == "Exception" and s.handlers[0].name is None)):
        fail(s, "except clause (only one `except Exception:`)")
    if not s.handlers and not s.finalbody:
        fail(s, "try without handler")
    inner = s.body + (s.handlers[0].body if s.handlers else []) + s.finalbody
    if rest and (assigned_locals(inner) & loaded_names(rest)):
        fail(s, "a local variable assigned inside a try statement is used after it")
    follow = bool(rest)
    if follow and has_return(inner):
        fail(s, "return inside a try statement that is followed by other statements")
    if has_return(s.finalbody):
        fail(s, "return inside finally")

    def k_end(env_, sv_):
        return "XOk tt %s" % sv_
    body_sc = Scope(sc.ret, sc.reraise, no_return=follow)
    body = block(s.body, env, sv, k_end if follow else K, body_sc, cx)
    term = body
    if s.handlers:
        hs = cx.fresh_state()
        hsc = Scope(sc.ret, reraise=lambda sv_: "XErr e__ %s" % sv_, no_return=follow)
        hb = block(s.handlers[0].body, env, hs, k_end if follow else K, hsc, cx)
        term = "xcatch\n%s\n%s" % (ind("(" + term + ")"), ind("(fun e__ %s =>\n%s)" % (hs, ind(hb))))
    if s.finalbody:
        fs = cx.fresh_state()
        fsc = Scope(None, sc.reraise, no_return=True)
        fb = block(s.finalbody, env, fs, k_end, fsc, cx)
        term = "xfinally\n%s\n%s" % (ind("(" + term + ")"), ind("(fun %s =>\n%s)" % (fs, ind(fb))))
    if not follow:
        # the try statement is the last statement: its result is the function's.  K was used for the paths
        # that fall off the end of the body / the handler
        return term
    s2 = cx.fresh_state()
    return "dox (_, %s) <- (%s);\n" % (s2, term) + block(rest, env, s2, K, sc, cx)


def with_stmt(s, rest, env, sv, K, sc, cx):
    """with <constructor call of a translated class> as v: body
       = mgr = E; v = mgr.__enter__(); try: body  finally: mgr.__exit__(..)   (__exit__ returns None: checked)"""
    if len(s.items) != 1 or not isinstance(s.items[0].optional_vars, ast.Name):
        fail(s, "with statement")
    e, var = s.items[0].context_expr, s.items[0].optional_vars.id
    h = H(sv)
    t, ty = ex(e, env, h, cx)
    if ty[0] != "obj" or (ty[1], "__enter__") not in cx.funcs or (ty[1], "__exit__") not in cx.funcs:
        fail(s, "context manager of type %r" % (ty,))
    k = ty[1]
    enter, exit_ = cx.funcs[(k, "__enter__")], cx.funcs[(k, "__exit__")]
    if exit_.rty != UNIT or enter.rty != OBJ(k) or enter.params or exit_.params:
        fail(s, "__enter__ must return self and __exit__ nothing")
    cx.consume(s, "with")
    v, s2 = cx.tmp(), cx.fresh_state()
    h.pre.append((v, s2, "%s %s" % (lens_term(cx, k, enter.gen), h.sv)))
    h.sv = s2
    inner = s.body
    if rest and (assigned_locals(inner) & loaded_names(rest)):
        fail(s, "a local variable assigned inside a with statement is used after it")
    if has_return(inner):
        fail(s, "return inside a with statement")
    env2 = dict(env)
    env2[var] = ("tt", OBJ(k))
    body = block(inner, env2, s2, lambda env_, sv_: "XOk tt %s" % sv_, Scope(None, sc.reraise, no_return=True), cx)
    fs = cx.fresh_state()
    term = "xfinally\n%s\n%s" % (ind("(" + body + ")"), ind("(fun %s => %s %s)" % (fs, lens_term(cx, k, exit_.gen), fs)))
    s3 = cx.fresh_state()
    return h.wrap("dox (_, %s) <- (%s);\n" % (s3, term) + block(rest, env, s3, K, sc, cx))


# ---------------------------------------------------------------------------
# functions

def function(cx, cls, fnode, gen, params, stmts, comment, static=False, extra_params=()):
    """translate the statement list `stmts` as the body of method `fnode` of class `cls`"""
    cx.cls = cls
    cx.n_state = 0
    cx.n_tmp = 0
    st = CLASSES[cls]["state"]
    args = fnode.args
    if args.vararg or args.kwarg or args.kwonlyargs or args.posonlyargs:
        fail(fnode, "signature")
    names = [a.arg for a in args.args]
    if not static:
        if not names or names[0] not in ("self", "cls"):
            fail(fnode, "first parameter")
        names = names[1:]
    defaults = dict(zip(names[len(names) - len(args.defaults):], args.defaults))
    # the driver names the followed parameters by position (a renamed parameter is still followed)
    resolved = []
    for k, ty in params:
        if not isinstance(k, int) or k >= len(names):
            fail(fnode, "parameter number %r not found" % (k,))
        resolved.append((names[k], ty))
    params = resolved
    tracked = dict(params)
    env = {}
    for n in names:
        env[n] = (cname(n), tracked[n]) if n in tracked else (None, OPAQUE)
    rets = []

    def ret(env_, sv_, value):
        if value is None:
            rets.append(UNIT)
            return "XOk tt %s" % sv_
        h = H(sv_)
        names_ = [n.id for n in ast.walk(value) if isinstance(n, ast.Name)]
        if is_neutral(value) and names_ and all(env_.get(n, (None, None))[1] == OPAQUE for n in names_) \
                and not any(self_attr(n) for n in ast.walk(value)):
            t, ty = "tt", UNIT              # a value the translation does not follow
        else:
            t, ty = ex(value, env_, h, cx)
        if ty == NONE:
            ty, t = UNIT, "tt"
        rets.append(ty)
        return h.wrap("XOk %s %s" % (t, h.sv))

    def k_end(env_, sv_):
        rets.append(UNIT)
        return "XOk tt %s" % sv_
    body = block(stmts, env, "s0", k_end, Scope(ret), cx)
    rty = rets[0]
    for r in rets[1:]:
        if r != rty:
            fail(fnode, "the function returns values of types %r and %r" % (rty, r))
    plist = [(n, t) for n, t in params]
    ps = " (orc : oracle)" + "".join(" (%s : %s)" % (cname(n), coqty(t)) for n, t in plist) \
        + "".join(" (%s : %s)" % (n, t) for n, t in extra_params) + " (s0 : %s)" % st
    cx.defs.append("(* %s *)\nDefinition %s%s : xres %s %s :=\n%s." % (comment, gen, ps, st, coqty(rty), ind(body)))
    fn = Fn(cls, fnode.name, gen, plist, rty, names, defaults, static)
    return fn


# ---------------------------------------------------------------------------
# the driver: which functions, how their bodies are cut

def parse(fn):
    path = os.path.join(REPO, "nptdms", fn)
    try:
        return ast.parse(open(path).read())
    except (OSError, SyntaxError) as e:
        die("cannot read/parse %s: %s" % (path, e))


def find(tree, cls, name, decorators=()):
    cs = [n for n in tree.body if isinstance(n, ast.ClassDef) and n.name == cls]
    if len(cs) != 1:
        die("class %s not found" % cls)
    fs = [n for n in cs[0].body if isinstance(n, ast.FunctionDef) and n.name == name]
    if len(fs) != 1:
        die("expected exactly one def %s.%s" % (cls, name))
    if [unp(d) for d in fs[0].decorator_list] != list(decorators):
        die("decorators of %s.%s" % (cls, name))
    return fs[0]


def marker(name, *args):
    m = ast.Expr(value=ast.Call(func=ast.Name(id=name, ctx=ast.Load()), args=list(args), keywords=[]))
    return m


def const(v):
    return ast.Constant(value=v)


def live(stmts):
    return [s for s in stmts if not is_skip(s)]


def require_neutral(stmts, where, **kw):
    for s in stmts:
        why = neutral_violation(s, **kw)
        if why is not None:
            die("%s: line %d is expected to touch no handle logic but contains a %s: %s"
                % (where, s.lineno, why, unp(s).split("\n")[0][:120]))


def comment_of(fn, cls, f, stmts, note=""):
    def show(s):
        if isinstance(s, ast.Expr) and isinstance(s.value, ast.Call) and isinstance(s.value.func, ast.Name) \
                and s.value.func.id.startswith("__"):
            return "<%s>" % unp(s)
        return unp(s)
    # (Coq lexes string literals inside comments: no double quotes)
    txt = "\n".join(show(s) for s in stmts if not is_skip(s)).replace("(*", "( *").replace("*)", "* )").replace('"', "'")
    return "nptdms/%s: %s.%s (line %d)%s\n%s\n" % (fn, cls, f.name, f.lineno, note,
                                                  "\n".join("     " + ln for ln in txt.split("\n")))


def cut_read_metadata(f):
    """TdmsReader.read_metadata: the body of its try statement (the parsing loop) is one opaque I/O step on
    `file`; everything else is translated"""
    body = live(f.body)
    tries = [s for s in body if isinstance(s, ast.Try)]
    if len(tries) != 1 or body[-1] is not tries[0]:
        die("read_metadata: expected one try statement, last in the body")
    t = tries[0]
    require_neutral(t.body, "read_metadata (the parsing loop)")
    # the local variable that holds the file object being parsed: assigned from self._index_file / self._file before
    cands = {tg.id for s in body[:-1] for n in ast.walk(s) if isinstance(n, ast.Assign) and len(n.targets) == 1
             for tg in n.targets if isinstance(tg, ast.Name) and self_attr(n.value) in ("_file", "_index_file")}
    used = {n.id for s in t.body for n in ast.walk(s) if isinstance(n, ast.Name) and n.id in cands}
    direct = [n for s in t.body for n in ast.walk(s) if self_attr(n) in ("_file", "_index_file")]
    if len(used) != 1 or direct:
        die("read_metadata: the parsing loop is expected to read exactly one local file variable (found %s)"
            % (sorted(used) + [unp(n) for n in direct]))
    fvar = used.pop()
    new = ast.Try(body=[marker("__iok__", ast.Name(id=fvar, ctx=ast.Load()), const("o_meta_ok"))],
                  handlers=t.handlers, orelse=t.orelse, finalbody=t.finalbody)
    ast.copy_location(new, t)
    out = body[:-1] + [new]
    ast.fix_missing_locations(ast.Module(body=out, type_ignores=[]))
    return out


def cut_data_method(f, where):
    """read_raw_data / read_raw_data_for_channel / read_channel_chunk_for_index: self._ensure_open(), then
    statements that touch no handle logic and read through self._file: one opaque I/O step on self._file"""
    body = live(f.body)
    if not body or unp(body[0]) != "self._ensure_open()":
        die("%s: expected self._ensure_open() as the first statement" % where)
    rest = body[1:]
    require_neutral(rest, where, allow_return=True, allow_yield=True)
    reads = [n for s in rest for n in ast.walk(s) if self_attr(n) in ("_file", "_index_file")]
    if not reads or any(self_attr(n) != "_file" for n in reads):
        die("%s: the data is expected to be read through self._file (only)" % where)
    m = marker("__io__", ast.Attribute(value=ast.Name(id="self", ctx=ast.Load()), attr="_file", ctx=ast.Load()),
               const("o_data_ok"))
    out = [body[0], m]
    ast.fix_missing_locations(ast.Module(body=out, type_ignores=[]))
    for n in out:
        ast.copy_location(n, body[0]) if n is m else None
    return out


def cut_read_file(f):
    """TdmsFile._read_file: read_metadata, <building the object tree: one opaque step>, the conditional read"""
    body = live(f.body)
    if len(body) < 3 or not is_neutral(ast.Module(body=body[1:-1], type_ignores=[])):
        require_neutral(body[1:-1], "_read_file (building the object tree)")
        die("_read_file: shape")
    if is_neutral(body[0]) or is_neutral(body[-1]):
        die("_read_file: expected the read_metadata call first and the conditional data read last")
    m = marker("__step__", const("o_build_ok"))
    ast.copy_location(m, body[1])
    out = [body[0], m, body[-1]]
    ast.fix_missing_locations(ast.Module(body=out, type_ignores=[]))
    return out


def cut_read_channel_data(f):
    """TdmsChannel._read_channel_data: from `if self._reader.is_index_file_only():` on (the argument validation
    before it is translated by gen_pyfuncs_lazyidx.py; it touches no handle logic)"""
    body = live(f.body)
    idx = [i for i, s in enumerate(body) if isinstance(s, ast.If) and unp(s.test) == "self._reader.is_index_file_only()"]
    if len(idx) != 1:
        die("_read_channel_data: expected one `if self._reader.is_index_file_only():`")
    require_neutral(body[:idx[0]], "_read_channel_data (argument validation)", allow_return=True)
    return body[idx[0]:]


def cut_defragment(f):
    body = live(f.body)
    withs = [s for s in body if isinstance(s, ast.With)]
    if len(withs) != 1:
        die("defragment: expected one with statement")
    w = withs[0]
    require_neutral(w.body, "defragment (the statements of the with-block)")
    m = marker("__body__")
    ast.copy_location(m, w.body[0])
    new = ast.With(items=w.items, body=[m])
    ast.copy_location(new, w)
    out = [new if s is w else s for s in body]
    ast.fix_missing_locations(ast.Module(body=out, type_ignores=[]))
    return out


def sites(tree):
    """every place of a module where a file can be opened or closed, or a context manager is defined / used"""
    out = set()
    for n in ast.walk(tree):
        if isinstance(n, ast.Call) and isinstance(n.func, ast.Name) and n.func.id == "open":
            out.add((n.lineno, n.col_offset, "open"))
        if isinstance(n, ast.Call) and isinstance(n.func, ast.Attribute) and n.func.attr == "close":
            out.add((n.lineno, n.col_offset, "close"))
        if isinstance(n, (ast.With, ast.AsyncWith)) and not is_timer_with(n):
            out.add((n.lineno, n.col_offset, "with"))
        if isinstance(n, ast.FunctionDef) and n.name in ("__enter__", "__exit__", "__del__"):
            out.add((n.lineno, n.col_offset, "def"))
    return out


def timer_sites(tree):
    """nptdms/utils.py Timer: `with Timer(log, "..")` is read as its body; that is right when __exit__ returns
    nothing (an exception of the body propagates) and neither method touches a file"""
    cs = [n for n in tree.body if isinstance(n, ast.ClassDef) and n.name == "Timer"]
    if len(cs) != 1:
        die("utils.py: class Timer not found")
    out = set()
    for n in cs[0].body:
        if isinstance(n, ast.FunctionDef) and n.name in ("__enter__", "__exit__"):
            for r in ast.walk(n):
                if isinstance(r, ast.Return) and r.value is not None and not (n.name == "__enter__" and unp(r.value) == "self"):
                    die("utils.py: Timer.%s returns a value" % n.name)
            require_neutral(n.body, "Timer.%s" % n.name, allow_return=True)
            out.add((n.lineno, n.col_offset, "def"))
    return out


def translate():
    cx = Cx()
    trees = {fn: parse(fn) for fn in ("reader.py", "tdms.py", "writer.py")}
    sigs = []

    def fun(fn, cls, name, gen, params, cut=None, as_cls=None, decorators=(), static=False, note="", extra=()):
        f = find(trees[fn], cls, name, decorators)
        cx.file = fn
        stmts = cut(f) if cut else live(f.body)
        if name in ("__enter__", "__exit__"):
            cx.consume(f, "def")
        r = function(cx, as_cls or cls, f, gen, params, stmts, comment_of(fn, cls, f, stmts, note), static=static,
                     extra_params=extra)
        cx.funcs[(as_cls or cls, name)] = r
        sigs.append(gen)
        return r

    # ---- nptdms/reader.py
    fun("reader.py", "TdmsReader", "_ensure_open", "reader_ensure_open_gen", [])
    fun("reader.py", "TdmsReader", "is_index_file_only", "reader_is_index_file_only_gen", [])
    fun("reader.py", "TdmsReader", "close", "reader_close_gen", [])
    fun("reader.py", "TdmsReader", "__init__", "reader_init_gen", [(0, ARG)])
    fun("reader.py", "TdmsReader", "read_metadata", "reader_read_metadata_gen", [], cut=cut_read_metadata,
        note=": <__iok__(file, ..)> stands for the parsing loop")
    for m in ("read_raw_data", "read_raw_data_for_channel", "read_channel_chunk_for_index"):
        fun("reader.py", "TdmsReader", m, "reader_%s_gen" % m, [], cut=lambda f, m=m: cut_data_method(f, m),
            note=": <__io__(self._file, ..)> stands for everything after the first statement")
    # ---- nptdms/tdms.py
    rdr = OOBJ("TdmsReader")
    fun("tdms.py", "TdmsFile", "_read_data", "tdmsfile_read_data_gen", [(0, rdr)])
    fun("tdms.py", "TdmsFile", "_read_file", "tdmsfile_read_file_gen",
        [(0, rdr), (1, B), (2, B)], cut=cut_read_file,
        note=": <__step__(..)> stands for building the groups and channels")
    fun("tdms.py", "TdmsFile", "__init__", "tdmsfile_init_gen", [(0, ARG), (3, B), (4, B)])
    fun("tdms.py", "TdmsFile", "close", "tdmsfile_close_gen", [])
    fun("tdms.py", "TdmsFile", "__enter__", "tdmsfile_enter_gen", [])
    fun("tdms.py", "TdmsFile", "__exit__", "tdmsfile_exit_gen", [])
    for m in ("read", "open", "read_metadata"):
        fun("tdms.py", "TdmsFile", m, "tdmsfile_static_%s_gen" % m, [(0, ARG)], decorators=("staticmethod",), static=True)
    # the static read_metadata shadows nothing the translation calls: instance calls of `read_metadata` go to the reader
    fun("tdms.py", "TdmsChannel", "_read_channel_data_chunk_for_index", "channel_read_chunk_for_index_gen", [])
    fun("tdms.py", "TdmsChannel", "_read_channel_data", "channel_read_channel_data_gen", [], cut=cut_read_channel_data,
        note=": from the index-file-only guard on")
    # ---- nptdms/writer.py
    fun("writer.py", "TdmsWriter", "__init__", "writer_init_gen", [(0, ARG), (1, MODE), (3, ARG)])
    fun("writer.py", "TdmsWriter", "open", "writer_open_gen", [])
    fun("writer.py", "TdmsWriter", "close", "writer_close_gen", [])
    fun("writer.py", "TdmsWriter", "__enter__", "writer_enter_gen", [])
    fun("writer.py", "TdmsWriter", "__exit__", "writer_exit_gen", [])
    cx.extra["body"] = "body"
    fun("writer.py", "TdmsWriter", "defragment", "writer_defragment_gen",
        [(0, ARG), (1, ARG), (3, ARG)], cut=cut_defragment, as_cls="Defrag",
        decorators=("classmethod",), note=": <__body__()> stands for the statements of the with-block",
        extra=[("body", "gdf -> xres gdf unit")])

    # ---- every open / close / with / __enter__ / __exit__ of the three modules was translated; none elsewhere
    for fn, tree in trees.items():
        want = {(fn,) + s for s in sites(tree)}
        got = {c for c in cx.consumed if c[0] == fn}
        if want != got:
            die("%s: open/close sites not covered by the translation (or covered twice differently): %s"
                % (fn, sorted(want ^ got)))
    pkg = os.path.join(REPO, "nptdms")
    for root, dirs, files in os.walk(pkg):
        if os.path.basename(root) == "test":
            dirs[:] = []
            continue
        for name in files:
            rel = os.path.relpath(os.path.join(root, name), pkg)
            if name.endswith(".py") and rel not in trees and rel != "tdmsinfo.py" and not rel.startswith("export"):
                try:
                    other = sites(ast.parse(open(os.path.join(root, name)).read()))
                except SyntaxError as e:
                    die("cannot parse %s: %s" % (rel, e))
                if rel == "utils.py":
                    other = other - timer_sites(ast.parse(open(os.path.join(root, name)).read()))
                if other:
                    die("%s opens / closes files or defines a context manager: %s" % (rel, sorted(other)))
    return cx, sigs


PRELUDE = """\
(* ---- the semantic domain the translation relies on (fixed text) ------------------------------------
   Python values that matter for file-handle ownership, the HANDLE TABLE, the exception-and-state monad
   and the primitives `open(..)`, `X.close()`, opaque I/O on a file object.  Everything below the line
   "translated functions" is derived from the Python AST. *)

(* which file of the scenario: the .tdms file / the .tdms_index file *)
Inductive fkey := KData | KIndex.
Definition fkey_eqb (a b : fkey) : bool :=
  match a, b with KData, KData | KIndex, KIndex => true | _, _ => false end.

(* path strings: the path P of the data file, P + "_index", anything else *)
Inductive path := PData | PIndex | POther.
Definition path_key (p : path) : option fkey :=
  match p with PData => Some KData | PIndex => Some KIndex | POther => None end.
(* s.endswith(".tdms_index") *)
Definition path_is_index (p : path) : bool := match p with PIndex => true | _ => false end.
(* s + "_index" *)
Definition path_add_index (p : path) : path := match p with PData => PIndex | _ => POther end.

(* a file object is identified by the file it is on (one live object per file; objects whose last
   reference is overwritten while open are counted in fin_data, fin_index) *)
Inductive fobj := NoObj | FObj (o : owner) (s : status).

Inductive event :=
| EvOpen (p : path) (mode : string)        (* open(p, mode) returned a file object *)
| EvOpenFail (p : path) (mode : string)    (* open(p, mode) raised OSError *)
| EvClose (k : fkey).                      (* <file object on k>.close() *)

Record htab := mkhtab {
  h_data : fobj; h_index : fobj;
  fin_data : nat; fin_index : nat;         (* library-opened objects dropped while open *)
  h_log : list event                       (* open / close calls made so far, oldest first *)
}.

Definition tab_get (k : fkey) (t : htab) : fobj :=
  match k with KData => h_data t | KIndex => h_index t end.
Definition tab_set (k : fkey) (v : fobj) (t : htab) : htab :=
  match k with
  | KData => mkhtab v (h_index t) (fin_data t) (fin_index t) (h_log t)
  | KIndex => mkhtab (h_data t) v (fin_data t) (fin_index t) (h_log t)
  end.
Definition tab_log (e : event) (t : htab) : htab :=
  mkhtab (h_data t) (h_index t) (fin_data t) (fin_index t) (h_log t ++ [e]).
Definition fobj_lib_open (f : fobj) : bool := match f with FObj Lib Open => true | _ => false end.
(* the object on k is about to be replaced by a new one *)
Definition tab_orphan (k : fkey) (t : htab) : htab :=
  if fobj_lib_open (tab_get k t) then
    match k with
    | KData => mkhtab (h_data t) (h_index t) (S (fin_data t)) (fin_index t) (h_log t)
    | KIndex => mkhtab (h_data t) (h_index t) (fin_data t) (S (fin_index t)) (h_log t)
    end
  else t.

(* arguments of dynamic type: `file`, `tdms_file`, `index_file`, `source`, `destination` *)
Inductive pyarg := AStream (k : fkey) | APath (p : path) | ABool (b : bool) | AOther.
(* str(x) / x used as a path: a non-string names no file of the scenario *)
Definition arg_path (a : pyarg) : path := match a with APath p => p | _ => POther end.

(* the first four bytes of a supplied stream *)
Inductive tagk := TagH | TagM | TagBad.
Definition tag_eqb (a b : tagk) : bool :=
  match a, b with TagH, TagH | TagM, TagM | TagBad, TagBad => true | _, _ => false end.

(* exceptions: those of Model/Resource.v, and one for those the model has no name for (the ValueError of
   TdmsWriter's argument validation, the TypeError of None used as a string) *)
Inductive exn := Ex (e : err) | ExOther.

(* what the world decides (fault points and file contents) *)
Record oracle := mkorc {
  o_open_data_ok : bool;         (* open(P, ..) succeeds *)
  o_open_index_ok : bool;        (* open(P + "_index", ..) succeeds *)
  o_isfile_index : bool;         (* os.path.isfile(P + "_index") *)
  o_tag : tagk;                  (* tdms_file.read(4) on the supplied stream *)
  o_meta_data_ok : bool;         (* parsing all metadata from the .tdms file object succeeds *)
  o_meta_index_ok : bool;        (* parsing all metadata from the .tdms_index file object succeeds *)
  o_build_ok : bool;             (* TdmsFile._read_file: building groups and channels succeeds *)
  o_data_ok : bool;              (* reading raw data succeeds (given an open file object) *)
  o_dest_open_data_ok : bool;    (* TdmsWriter.defragment only: open(D, ..) of the destination D succeeds *)
  o_dest_open_index_ok : bool    (* TdmsWriter.defragment only: open(D + "_index", ..) succeeds *)
}.
(* the oracle as the new writer of TdmsWriter.defragment sees it: D plays the role of P *)
Definition orc_dest (o : oracle) : oracle :=
  mkorc (o_dest_open_data_ok o) (o_dest_open_index_ok o) (o_isfile_index o) (o_tag o) (o_meta_data_ok o)
        (o_meta_index_ok o) (o_build_ok o) (o_data_ok o) (o_dest_open_data_ok o) (o_dest_open_index_ok o).
Definition o_open_ok (orc : oracle) (p : path) : bool :=
  match p with PData => o_open_data_ok orc | PIndex => o_open_index_ok orc | POther => false end.
Definition o_isfile (orc : oracle) (p : path) : bool :=
  match p with PData => true | PIndex => o_isfile_index orc | POther => false end.
Definition o_meta_ok (orc : oracle) (k : fkey) : bool :=
  match k with KData => o_meta_data_ok orc | KIndex => o_meta_index_ok orc end.

(* result of running a statement list from a state: a value or an exception, and the state REACHED *)
Inductive xres (S A : Type) := XOk (a : A) (s : S) | XErr (e : exn) (s : S).
Arguments XOk {S A} a s.
Arguments XErr {S A} e s.

Definition xbind {S A B} (r : xres S A) (k : A -> S -> xres S B) : xres S B :=
  match r with XOk a s => k a s | XErr e s => XErr e s end.
Notation "'dox' ( x , s ) <- r ; k" := (xbind r (fun x s => k))
  (at level 200, x name, s name, r at level 100, k at level 200, right associativity).

(* try: body  except Exception: handler   (the handler receives the exception in flight: a bare
   `raise` re-raises it) *)
Definition xcatch {S A} (body : xres S A) (handler : exn -> S -> xres S A) : xres S A :=
  match body with XOk a s => XOk a s | XErr e s => handler e s end.
(* try: body  finally: fin      (an exception raised by fin replaces the one in flight) *)
Definition xfinally {S A} (body : xres S A) (fin : S -> xres S unit) : xres S A :=
  match body with
  | XOk a s => match fin s with XOk _ s' => XOk a s' | XErr e s' => XErr e s' end
  | XErr e s => match fin s with XOk _ s' => XErr e s' | XErr e' s' => XErr e' s' end
  end.
(* run a computation on a component of the state *)
Definition zoom {S T A} (get : S -> T) (set : T -> S -> S) (m : T -> xres T A) (s : S) : xres S A :=
  match m (get s) with XOk a t => XOk a (set t s) | XErr e t => XErr e (set t s) end.

Definition xstate {S A} (r : xres S A) : S := match r with XOk _ s | XErr _ s => s end.
Definition xout {S A} (r : xres S A) : option exn := match r with XOk _ _ => None | XErr e _ => Some e end.

Definition is_none {A} (o : option A) : bool := match o with None => true | Some _ => false end.

(* open(p, mode): fails where the oracle says so (and for a path that names no file of the scenario) *)
Definition tab_open (orc : oracle) (p : path) (mode : string) (t : htab) : xres htab fkey :=
  match path_key p with
  | Some k =>
      if o_open_ok orc p then XOk k (tab_log (EvOpen p mode) (tab_set k (FObj Lib Open) (tab_orphan k t)))
      else XErr (Ex EOpen) (tab_log (EvOpenFail p mode) t)
  | None => XErr (Ex EOpen) (tab_log (EvOpenFail p mode) t)
  end.
(* X.close() where X evaluates to r: AttributeError on None; closing twice is allowed *)
Definition tab_close (r : option fkey) (t : htab) : xres htab unit :=
  match r with
  | None => XErr (Ex ENone) t
  | Some k => match tab_get k t with
              | NoObj => XErr (Ex ENone) t
              | FObj o _ => XOk tt (tab_log (EvClose k) (tab_set k (FObj o Closed) t))
              end
  end.
(* statements that only read / write / seek the file object r and may raise: AttributeError on None,
   ValueError on a closed file, otherwise whatever the content makes them raise (ok = false) *)
Definition tab_io (r : option fkey) (ok : bool) (t : htab) : xres htab unit :=
  match r with
  | None => XErr (Ex ENone) t
  | Some k => match tab_get k t with
              | FObj _ Open => if ok then XOk tt t else XErr (Ex EParse) t
              | FObj _ Closed => XErr (Ex EIO) t
              | NoObj => XErr (Ex ENone) t
              end
  end.
(* statements that touch no file object and may raise *)
Definition xstep {S} (ok : bool) (s : S) : xres S unit := if ok then XOk tt s else XErr (Ex EParse) s.
(* the outcome of the I/O depends on which file object is read *)
Definition tab_io_on (r : option fkey) (okf : fkey -> bool) (t : htab) : xres htab unit :=
  tab_io r (match r with Some k => okf k | None => true end) t.
(* a string is required (None + "..", open(None, ..): TypeError, not in the model) *)
Definition need_path {S} (o : option path) (s : S) : xres S path :=
  match o with Some p => XOk p s | None => XErr ExOther s end.
(* method call on an attribute that may be None: AttributeError *)
Definition on_some {S A} (o : option unit) (m : S -> xres S A) (s : S) : xres S A :=
  match o with Some _ => m s | None => XErr (Ex ENone) s end.

(* ---- the objects: tracked attributes (every other attribute is not followed) ---- *)

(* a TdmsReader and the handle table it works on *)
Record grd := mkgrd {
  gr_tab : htab;
  gr_file_path : option path; gr_index_file_path : option path;
  gr_file : option fkey; gr_index_file : option fkey
}.
Definition gr_set_tab v s := mkgrd v (gr_file_path s) (gr_index_file_path s) (gr_file s) (gr_index_file s).
Definition gr_set_file_path v s := mkgrd (gr_tab s) v (gr_index_file_path s) (gr_file s) (gr_index_file s).
Definition gr_set_index_file_path v s := mkgrd (gr_tab s) (gr_file_path s) v (gr_file s) (gr_index_file s).
Definition gr_set_file v s := mkgrd (gr_tab s) (gr_file_path s) (gr_index_file_path s) v (gr_index_file s).
Definition gr_set_index_file v s := mkgrd (gr_tab s) (gr_file_path s) (gr_index_file_path s) (gr_file s) v.

(* a TdmsWriter and the handle table it works on *)
Record gwr := mkgwr {
  gw_tab : htab;
  gw_file_path : option path; gw_index_file_path : option path;
  gw_file : option fkey; gw_index_file : option fkey;
  gw_file_mode : string
}.
Definition gw_set_tab v s := mkgwr v (gw_file_path s) (gw_index_file_path s) (gw_file s) (gw_index_file s) (gw_file_mode s).
Definition gw_set_file_path v s := mkgwr (gw_tab s) v (gw_index_file_path s) (gw_file s) (gw_index_file s) (gw_file_mode s).
Definition gw_set_index_file_path v s := mkgwr (gw_tab s) (gw_file_path s) v (gw_file s) (gw_index_file s) (gw_file_mode s).
Definition gw_set_file v s := mkgwr (gw_tab s) (gw_file_path s) (gw_index_file_path s) v (gw_index_file s) (gw_file_mode s).
Definition gw_set_index_file v s := mkgwr (gw_tab s) (gw_file_path s) (gw_index_file_path s) (gw_file s) v (gw_file_mode s).
Definition gw_set_file_mode v s := mkgwr (gw_tab s) (gw_file_path s) (gw_index_file_path s) (gw_file s) (gw_index_file s) v.

(* a TdmsFile: its reader (shared with its channels), `_reader`, `data_read` *)
Record gtf := mkgtf { gt_rd : grd; gt_reader : option unit; gt_data_read : bool }.
Definition gt_set_rd v s := mkgtf v (gt_reader s) (gt_data_read s).
Definition gt_set_reader v s := mkgtf (gt_rd s) v (gt_data_read s).
Definition gt_set_data_read v s := mkgtf (gt_rd s) (gt_reader s) v.

(* TdmsWriter.defragment: the source TdmsFile and the new writer *)
Record gdf := mkgdf { gd_tf : gtf; gd_wr : gwr }.
Definition gd_set_tf v s := mkgdf v (gd_wr s).
Definition gd_set_wr v s := mkgdf (gd_tf s) v.
"""


def header():
    return ("(* GENERATED by harness/gen/gen_pyfuncs_resource.py from nptdms/{reader,tdms,writer}.py -- do not edit.\n"
            "   Shallow translation of the file-handle control flow into an exception-and-state monad over an\n"
            "   abstract handle table; see the script for the conventions. *)\n"
            "From Coq Require Import String List Bool.\n"
            "Import ListNotations.\n"
            "From NpTdms Require Import Model.Resource.\n\n")


def write_if_changed(path, text):
    old = None
    try:
        old = open(path).read()
    except OSError:
        pass
    if old != text:
        os.makedirs(os.path.dirname(path), exist_ok=True)
        tmp = path + ".tmp.%d" % os.getpid()
        with open(tmp, "w") as fh:
            fh.write(text)
        os.replace(tmp, path)
        print("%s: wrote %s" % (ME, os.path.relpath(path, VERIF)))
    else:
        print("%s: %s up to date" % (ME, os.path.relpath(path, VERIF)))


def main():
    try:
        cx, sigs = translate()
    except Unsupported as e:
        die(str(e))
    st_text, counts = "", {}
    if os.environ.get("RESOURCE_NO_SELFTEST") != "1":
        import resource_selftest as S
        st_text, counts = S.selftest(REPO, die)
    text = header() + PRELUDE + "\n(* ==== translated functions ==== *)\n\n" + "\n\n".join(cx.defs) + "\n"
    write_if_changed(OUT, text)
    test = ("(* GENERATED by harness/gen/gen_pyfuncs_resource.py (resource_selftest.py) -- do not edit.\n"
            "   The translated functions of Gen/PyFuncsResource.v against the REAL classes on the same scenarios. *)\n"
            "From Coq Require Import String List Bool Arith.\nImport ListNotations.\n"
            "From NpTdms Require Import Model.Resource Gen.PyFuncsResource.\n\n" + st_text)
    write_if_changed(OUT_TEST, test)
    print("%s: %d functions translated; self-test cases: %s"
          % (ME, len(sigs), ", ".join("%s %d" % kv for kv in counts.items()) or "none"))


if __name__ == "__main__":
    main()
