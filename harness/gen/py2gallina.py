"""Core of the fail-closed Python -> Gallina translator used by gen_pyfuncs_reader.py.

A small statically typed subset of Python (integer decision logic over lists of
objects) is compiled to monadic Gallina (error monad `res` of Base/Res.v).
Everything is DERIVED from the `ast`: operators, constants, comparison
directions, branch structure, loop bodies, accumulator updates, break/continue.
Anything outside the subset raises Unsupported (the driver exits non-zero and
writes nothing).

Types:  Z  B  NONE  ('opt',T)  ('list',T)  ('tup',T1,..)  DICT (alist Z)
        BYTES  ('rec',name)
Statements: assignment (name / self.attr / d[k] = v / l[i] = v), augmented
  assignment, if/elif/else, `if X is None`, for over a list / enumerate / tuple
  targets with accumulators, break, continue, return, raise, pass, log.* calls.
Expressions: int constants, names, attributes (through the ATTR table), + - * //
  % & | ^ << >>, comparisons (chains), and/or/not with None-narrowing, conditional
  expressions, int/len/max/min/sum/any/all/zip/list(set(..)), dict.get, tuples,
  t[0]/t[1], l[i], [c] * n, list comprehensions, calls of already translated
  functions.
Extensions (used by gen_pyfuncs_time.py / _wsize.py / _index.py; inert for the reader driver):
  `cx.np` (harness/gen/np_sem.py) gives NumPy-typed operands (uint64 / int64 / datetime64 /
  timedelta64) their checked or wrapping meaning operator by operator, enum-typed string
  parameters with module-level dict literals as match tables, statically decided tests
  (isinstance on a typed parameter, `k in TABLE`), `try: x = TABLE[k] except KeyError` on a
  total table, constant `a ** b`, module-level constants (cx.globals), bytes constants,
  non-empty list literals, `l.append(x)` / `l.extend(l2)`, len of bytes.
Extensions of the third round (gen_pyfuncs_lazyidx.py / _wctl.py / _scaling.py; inert for the earlier drivers,
  whose output is unchanged): `return` inside a `for` (the loop's Fixpoint then returns `state + value`),
  `range(n)` / `range(a, b)`, slices `l[a:b]` / `l[a:]` / `l[:b]`, tuple-unpacking assignment, typed
  dictionaries ('adict', V) with d[k] (KeyError), d[k] = v, d.get(k), d.values(), d.items(), k in d;
  `defaultdict(int)` ('ddict'); `yield x` (appends to the list of yielded values); `with Timer(log, "..")`
  (logging only); functions that return a value together with the final state (`with_state`);
  `cx.checked_div` (`//` and `%` raise on a zero divisor); a later operand of a comparison chain may
  re-use a None check already made for an earlier operand; sets of byte strings ('bset').
Control: `for` becomes a top-level structural Fixpoint over the list, its state
  the variables assigned in the body that exist before the loop; an `if` whose
  two branches both fall through becomes a monadic join over the assigned
  variables; a branch that ends in return/raise/break/continue is an early exit.
"""
import ast

Z = ("Z",)
B = ("B",)
NONE = ("None",)
DICT = ("dict",)
BYTES = ("bytes",)
UNIT = ("unit",)


def OPT(t):
    return ("opt", t)


def LIST(t):
    return ("list", t)


def TUP(*ts):
    return ("tup",) + tuple(ts)


def REC(n):
    return ("rec", n)


class Unsupported(Exception):
    pass


def fail(node, why):
    src = ""
    if isinstance(node, ast.AST):
        try:
            src = ast.unparse(node)
        except Exception:
            src = ast.dump(node)
    else:
        src = str(node)
    raise Unsupported("line %s: %s: %s" % (getattr(node, "lineno", "?"), why, src[:200]))


def coqty(t):
    k = t[0]
    if k == "Z":
        return "Z"
    if k == "B":
        return "bool"
    if k == "unit":
        return "unit"
    if k == "dict":
        return "(alist Z)"
    if k == "bytes":
        return "bytes"
    if k == "opt":
        return "(option %s)" % coqty(t[1])
    if k == "list":
        return "(list %s)" % coqty(t[1])
    if k == "tup":
        return "(" + " * ".join(coqty(x) for x in t[1:]) + ")"
    if k == "rec":
        return t[1]
    if k in ("np", "dt", "td"):          # NumPy integers / datetime64 / timedelta64: the int64 (uint64) count
        return "Z"
    if k == "f64i":                      # an integral float64 or nan
        return "(option Z)"
    if k == "enum":
        return t[1]
    if k == "opaque":
        return "unit"
    if k == "npelem":                    # an element of a NumPy integer array (its dtype is carried by the type)
        return "Z"
    if k == "natw":                      # a dtype width in bytes
        return "nat"
    if k == "pystr":                     # a Python str, represented by its UTF-8 bytes
        return "bytes"
    if k == "adict":                     # insertion-ordered dict with byte-string keys
        return "(alist %s)" % coqty(t[1])
    if k == "ddict":                     # defaultdict(int) with byte-string keys
        return "(alist Z)"
    if k == "bset":                      # a set of byte strings (membership and insertion only)
        return "(list bytes)"
    if k == "tyvar":                     # a type variable of the generated Section
        return t[1]
    if k == "cstr":                      # a Python str as a Coq string (ASCII property names)
        return "string"
    raise Unsupported("no Coq type for %r" % (t,))


def join_ty(a, b):
    """least upper bound of two types (None joins with T to option T)"""
    if a == b:
        return a
    if a is None:
        return b
    if b is None:
        return a
    if a == NONE:
        return b if b[0] == "opt" else OPT(b)
    if b == NONE:
        return a if a[0] == "opt" else OPT(a)
    if a[0] == "list" and b[0] == "list" and (a[1] is None or b[1] is None):
        return a if b[1] is None else b
    if a[0] == "opt" and a[1] == b:
        return a
    if b[0] == "opt" and b[1] == a:
        return b
    if a[0] == "opt" and b[0] == "opt":
        return OPT(join_ty(a[1], b[1]))
    raise Unsupported("cannot join types %r and %r" % (a, b))


EXTRA_COERCIONS = {}      # (from type, to type) -> Gallina template, set by a driver (e.g. a typed value used as its bytes)


def coerce(term, frm, to):
    if frm == to:
        return term
    if (frm, to) in EXTRA_COERCIONS:
        return EXTRA_COERCIONS[(frm, to)] % term
    if frm == ("list", None) and to[0] == "list":
        return term
    if to[0] == "opt":
        if frm == NONE:
            return "None"
        if frm == to[1]:
            return "(Some %s)" % term
    raise Unsupported("cannot coerce %r to %r" % (frm, to))


KEYWORDS = {"end", "in", "at", "as", "fix", "fun", "if", "then", "else", "let", "match", "with", "return",
            "for", "forall", "exists", "Type", "Prop", "Set", "using", "where", "struct", "cofix", "mod",
            "do", "Ok", "Err", "Some", "None", "true", "false", "tt", "fst", "snd", "negb", "bind",
            "aset", "alookup", "zsum", "gsized", "dedup_z", "bytes_eqb", "py_index", "py_setitem",
            "need", "is_none", "zlen", "inl", "inr", "py_range", "py_floordiv", "py_mod", "py_slice",
            "py_slice_from", "alookup_z0", "bset_mem", "bset_add"}

EXC = {"ValueError": "EValue", "IndexError": "EIndex", "TypeError": "EType", "KeyError": "EKey",
       "RuntimeError": "ERuntime", "EOFError": "EEof", "Exception": "EOther", "NotImplementedError": "ENotImpl",
       "AttributeError": "EOther"}

BINOP = {ast.Add: "(%s + %s)", ast.Sub: "(%s - %s)", ast.Mult: "(%s * %s)", ast.FloorDiv: "(%s / %s)",
         ast.Mod: "(%s mod %s)", ast.BitAnd: "(Z.land %s %s)", ast.BitOr: "(Z.lor %s %s)",
         ast.BitXor: "(Z.lxor %s %s)", ast.LShift: "(Z.shiftl %s %s)", ast.RShift: "(Z.shiftr %s %s)"}
CMP = {ast.Lt: "<?", ast.LtE: "<=?", ast.Gt: ">?", ast.GtE: ">=?", ast.Eq: "=?"}


def cname(key):
    if key == "<yield>":                        # the list of values yielded so far
        return "yielded__"
    n = key.replace(".", "_")
    if n in KEYWORDS or n.endswith("__"):       # names ending in __ are the translator's own
        raise Unsupported("Python name %r collides with a Gallina identifier used by the translator" % key)
    return n


class Hoist:
    """operations that may raise, evaluated (in order) before the statement that contains them"""

    def __init__(self):
        self.pre = []


class Cx:
    """translation context for one output file"""

    def __init__(self, attr, consts, callees, isinst, memo=()):
        self.attr = attr            # (recname, pyattr) -> (coq projection, type, error-if-None or None)
        self.consts = consts        # (dictname, key) -> int
        self.callees = callees      # python callee -> (coq function, [arg builders], return type)
        self.isinst = isinst        # (recname, classname) -> coq bool expression template
        self.memo = set(memo)       # self attributes that are memo caches (read as cold)
        self.defs = []
        self.n_tmp = 0
        self.n_loop = 0
        self.fname = "f"
        self.final = True
        self.np = None              # np_sem.NpSem instance (NumPy-typed operands, enum tables) or None
        self.globals = {}           # module-level constant name -> (term, type)
        self.rty = None             # return type of the function being translated (second pass)
        self.checked_div = False    # `//`, `%`: ZeroDivisionError as Err EOther (py_floordiv / py_mod)
        self.kwcalls = False        # let the driver's call rules see calls with keyword arguments

    def snapshot(self):
        return (len(self.defs), self.n_tmp, self.n_loop)

    def restore(self, s):
        del self.defs[s[0]:]
        self.n_tmp, self.n_loop = s[1], s[2]

    def tmp(self):
        self.n_tmp += 1
        return "t%d__" % self.n_tmp


def wrap(pre, body):
    out = ""
    for pat, term in pre:
        out += "do %s <- %s;\n" % (pat, term)
    return out + body


def key_of(e):
    """environment key of a narrowable place: a name or self.attr"""
    if isinstance(e, ast.Name):
        return e.id
    if isinstance(e, ast.Attribute) and isinstance(e.value, ast.Name) and e.value.id == "self":
        return "self." + e.attr
    return None


def none_test(e):
    """`X is None` / `X is not None` -> (X, negated) else None"""
    if isinstance(e, ast.Compare) and len(e.ops) == 1 and isinstance(e.ops[0], (ast.Is, ast.IsNot)) \
            and isinstance(e.comparators[0], ast.Constant) and e.comparators[0].value is None:
        return e.left, isinstance(e.ops[0], ast.IsNot)
    return None


# ---------------------------------------------------------------------------
# expressions

def need(term, ty, want_kind, err, h, node):
    """use an optional value where a concrete one is required: hoisted check raising `err`"""
    if ty[0] == "opt":
        if h is None:
            fail(node, "operation that may raise inside a short-circuit/lambda context")
        v = h.cx.tmp()
        h.pre.append((v, "need %s %s" % (err, term)))
        return v, ty[1]
    if ty == NONE:
        fail(node, "value is statically None where a %s is required" % want_kind)
    return term, ty


def as_int(e, env, h, cx):
    t, ty = ex(e, env, h, cx)
    t, ty = need(t, ty, "int", "EType", h, e)
    if ty != Z:
        fail(e, "integer expected, found %r" % (ty,))
    return t


def truthy(term, ty, node, depth=0):
    if ty == B:
        return term
    if ty == Z:
        return "(negb (%s =? 0))" % term
    if ty[0] == "opt":
        v = "v%d__" % depth
        return "(match %s with Some %s => %s | None => false end)" % (term, v, truthy(v, ty[1], node, depth + 1))
    if ty[0] == "rec":
        return "true"       # plain objects (no __bool__/__len__) are truthy
    if ty[0] in ("list", "bset", "adict", "ddict"):      # containers are truthy when non-empty
        return "(match %s with [] => false | _ :: _ => true end)" % term
    fail(node, "truth value of type %r" % (ty,))


def cond(e, env, h, cx):
    t, ty = ex(e, env, h, cx)
    return truthy(t, ty, e)


def pattern(target, ty, node):
    """binder pattern for a loop / comprehension target -> (coq pattern, {name: (coqname, type)})"""
    if isinstance(target, ast.Name):
        return cname(target.id), {target.id: (cname(target.id), ty)}
    if isinstance(target, ast.Tuple) and ty[0] == "tup" and len(target.elts) == len(ty) - 1:
        pats, binds = [], {}
        for el, t in zip(target.elts, ty[1:]):
            p, b = pattern(el, t, node)
            pats.append(p)
            binds.update(b)
        return "(" + ", ".join(pats) + ")", binds
    fail(node, "unsupported iteration target for element type %r" % (ty,))


def lam(pat, body):
    return "(fun %s => %s)" % (pat if not pat.startswith("(") else "'" + pat, body)


def genexp(g, env, h, cx):
    """single-generator comprehension -> (list term after filter, element pattern, inner env, elt node)"""
    if len(g.generators) != 1 or g.generators[0].is_async:
        fail(g, "comprehension with several generators")
    gen = g.generators[0]
    it, ity = ex(gen.iter, env, h, cx)
    it, ity = need(it, ity, "list", "EType", h, gen.iter)
    if ity[0] != "list":
        fail(gen.iter, "iteration over a non-list (%r)" % (ity,))
    nts = [none_test(i) for i in gen.ifs]
    if len(gen.ifs) == 1 and nts[0] is not None and nts[0][1] and isinstance(gen.target, ast.Name) \
            and isinstance(nts[0][0], ast.Name) and nts[0][0].id == gen.target.id and ity[1][0] == "opt":
        # (.. for x in xs if x is not None): the elements that are not None, x narrowed
        n = cname(gen.target.id)
        inner = dict(env)
        inner[gen.target.id] = (n, ity[1][1])
        return "(List.flat_map (fun o__ => match o__ with Some v__ => [v__] | None => [] end) %s)" % it, n, inner
    pat, binds = pattern(gen.target, ity[1], g)
    inner = dict(env)
    inner.update(binds)
    if gen.ifs:
        c = " && ".join(cond(i, inner, None, cx) for i in gen.ifs)
        it = "(List.filter %s %s)" % (lam(pat, "(" + c + ")" if len(gen.ifs) > 1 else c), it)
    return it, pat, inner


def ex(e, env, h, cx):
    """expression -> (Gallina term, type)"""
    if h is not None:
        h.cx = cx
    if isinstance(e, ast.Constant):
        if e.value is None:
            return "None", NONE
        if e.value is True or e.value is False:
            return ("true" if e.value else "false"), B
        if type(e.value) is int:
            return ("%d" % e.value if e.value >= 0 else "(%d)" % e.value), Z
        if type(e.value) is bytes:
            return '(hex "%s"%%string)' % e.value.hex(), BYTES
        if type(e.value) is str and getattr(cx, "str_consts", False) and e.value.isascii() and e.value.isprintable():
            return '"%s"%%string' % e.value.replace('"', '""'), ("cstr",)
        fail(e, "constant")
    k = key_of(e)
    if k is not None and k in env:
        return env[k]
    if isinstance(e, ast.Name):
        if e.id in cx.globals:
            return cx.globals[e.id]
        fail(e, "unknown variable")
    if isinstance(e, ast.Attribute):
        # two-level chain through the table first (obj.data_type.size)
        if isinstance(e.value, ast.Attribute) and key_of(e.value.value) in env:
            bt, bty = env[key_of(e.value.value)]
            ent = cx.attr.get((bty[1] if bty[0] == "rec" else None, e.value.attr + "." + e.attr))
            if ent is not None:
                return "(%s %s)" % (ent[0], bt), ent[1]
        bt, bty = ex(e.value, env, h, cx)
        if bty[0] == "opt":
            bt, bty = need(bt, bty, "object", "EOther", h, e)      # None.attr: AttributeError
        if bty[0] != "rec":
            fail(e, "attribute of a non-object (%r)" % (bty,))
        ent = cx.attr.get((bty[1], e.attr))
        if ent is None:
            fail(e, "attribute %s.%s is not in the attribute table" % (bty[1], e.attr))
        proj, ty, err = ent
        t = "(%s %s)" % (proj, bt)
        if err is not None:
            if h is None:
                fail(e, "attribute access that may raise inside a short-circuit/lambda context")
            v = cx.tmp()
            h.pre.append((v, "need %s %s" % (err, t)))
            return v, ty[1]
        return t, ty
    if isinstance(e, ast.UnaryOp):
        if isinstance(e.op, ast.Not):
            return "(negb %s)" % cond(e.operand, env, h, cx), B
        if isinstance(e.op, ast.USub):
            return "(- %s)" % as_int(e.operand, env, h, cx), Z
        fail(e, "unary operator")
    if isinstance(e, ast.BinOp):
        if isinstance(e.op, ast.Mult) and isinstance(e.left, ast.List) and len(e.left.elts) == 1:
            c, cty = ex(e.left.elts[0], env, h, cx)
            n = as_int(e.right, env, h, cx)
            return "(List.repeat %s (Z.to_nat %s))" % (c, n), LIST(cty)
        if isinstance(e.op, ast.Pow):
            # constant power of non-negative integer constants only
            if isinstance(e.left, ast.Constant) and isinstance(e.right, ast.Constant) \
                    and type(e.left.value) is int and type(e.right.value) is int \
                    and e.left.value >= 0 and e.right.value >= 0:
                return "(%d ^ %d)" % (e.left.value, e.right.value), Z
            fail(e, "power (only constant ** constant, both >= 0)")
        if type(e.op) not in BINOP and not (cx.np is not None and isinstance(e.op, ast.Div)):
            fail(e, "binary operator")
        lt, lty = ex(e.left, env, h, cx)
        lt, lty = need(lt, lty, "int", "EType", h, e.left)
        rt, rty = ex(e.right, env, h, cx)
        rt, rty = need(rt, rty, "int", "EType", h, e.right)
        if lty == Z and rty == Z:
            if type(e.op) not in BINOP:
                fail(e, "binary operator on Python ints")
            if cx.checked_div and isinstance(e.op, (ast.FloorDiv, ast.Mod)):
                if h is None:
                    fail(e, "division (may raise) inside a short-circuit/lambda context")
                v = cx.tmp()
                h.pre.append((v, "%s %s %s" % ("py_floordiv" if isinstance(e.op, ast.FloorDiv) else "py_mod", lt, rt)))
                return v, Z
            return BINOP[type(e.op)] % (lt, rt), Z
        if cx.np is not None:
            return cx.np.binop(e, lt, lty, rt, rty, h, cx)
        fail(e.left if lty != Z else e.right, "integer expected, found %r" % ((lty if lty != Z else rty),))
    if isinstance(e, ast.Compare):
        nt = none_test(e)
        if nt is not None:
            x, neg = nt
            t, ty = ex(x, env, h, cx)
            if ty == NONE:
                if cx.final and not (key_of(x) or "").replace("self.", "") in cx.memo:
                    fail(e, "None test on a value that is statically None")
                return ("false" if neg else "true"), B
            if ty[0] != "opt":
                fail(e, "None test on a value that can never be None (%r)" % (ty,))
            r = "(is_none %s)" % t
            return ("(negb %s)" % r if neg else r), B
        if cx.np is not None:
            st = cx.np.static_cond(e, env, cx)
            if st is not None:
                return ("true" if st else "false"), B
            r = cx.np.compare(e, env, h, cx)
            if r is not None:
                return r
        if len(e.ops) == 1 and isinstance(e.ops[0], (ast.In, ast.NotIn)):
            kt, kty = ex(e.left, env, h, cx)
            ct, cty = ex(e.comparators[0], env, h, cx)
            if kty != BYTES or cty[0] not in ("adict", "ddict", "bset"):
                fail(e, "membership test of %r in %r" % (kty, cty))
            c = "(bset_mem %s %s)" % (kt, ct) if cty[0] == "bset" else "(negb (is_none (alookup %s %s)))" % (kt, ct)
            return ("(negb %s)" % c if isinstance(e.ops[0], ast.NotIn) else c), B
        parts = []
        left = e.left
        mark = len(h.pre) if h is not None else 0
        lt, lty = ex(left, env, h, cx)
        for n_cmp, (op, right) in enumerate(zip(e.ops, e.comparators)):
            renv = env
            if n_cmp > 0 and h is not None:
                # a < b < c: c is evaluated only if a < b.  A None check hoisted for an earlier operand of
                # this chain has already succeeded by then: its result may be re-used (bounds[0] <= i < bounds[1])
                renv = dict(env)
                for k_, (t_, ty_) in env.items():
                    if ty_[0] == "opt":
                        for v_, pre_ in h.pre[mark:]:
                            if pre_ in ("need EType %s" % t_, "need EOther %s" % t_):
                                renv[k_] = (v_, ty_[1])
            rt, rty = ex(right, renv, h if n_cmp == 0 else None, cx)    # a < b < c: c only if a < b
            if isinstance(op, (ast.Eq, ast.NotEq)) and lty == BYTES and rty == BYTES:
                c = "(bytes_eqb %s %s)" % (lt, rt)
            else:
                a, aty = need(lt, lty, "int", "EType", h, e)
                b, bty = need(rt, rty, "int", "EType", h, e)
                if aty != Z or bty != Z:
                    fail(e, "comparison of %r with %r" % (aty, bty))
                if isinstance(op, ast.NotEq):
                    c = "(negb (%s =? %s))" % (a, b)
                elif type(op) in CMP:
                    c = "(%s %s %s)" % (a, CMP[type(op)], b)
                else:
                    fail(e, "comparison operator")
            if isinstance(op, ast.NotEq) and lty == BYTES:
                c = "(negb %s)" % c
            parts.append(c)
            lt, lty = rt, rty
        return (parts[0] if len(parts) == 1 else "(" + " && ".join(parts) + ")"), B
    if isinstance(e, ast.BoolOp):
        is_and = isinstance(e.op, ast.And)

        def go(vals, env, first):
            v = vals[0]
            hh = h if first else None          # only the first operand is always evaluated
            nt = none_test(v)
            k = key_of(nt[0]) if nt else None
            if nt and k in env and env[k][1][0] == "opt" and len(vals) > 1 and nt[1] == is_and:
                # X is not None and REST   /   X is None or REST : REST sees X narrowed
                n = cname(k)
                env2 = dict(env)
                env2[k] = (n, env[k][1][1])
                rest = go(vals[1:], env2, False)
                return "(match %s with Some %s => %s | None => %s end)" % (
                    env[k][0], n, rest, "false" if is_and else "true")
            c = cond(v, env, hh, cx)
            if len(vals) == 1:
                return c
            return "(%s %s %s)" % (c, "&&" if is_and else "||", go(vals[1:], env, False))
        return go(e.values, env, True), B
    if isinstance(e, ast.IfExp):
        nt = none_test(e.test)
        k = key_of(nt[0]) if nt else None
        if nt and k in env and env[k][1][0] == "opt":
            # A if X is None else B  (B sees X narrowed), and the mirrored form
            n = cname(k)
            env2 = dict(env)
            env2[k] = (n, env[k][1][1])
            e_none, e_some = (e.orelse, e.body) if nt[1] else (e.body, e.orelse)
            a, aty = ex(e_none, env, None, cx)
            b, bty = ex(e_some, env2, None, cx)
            ty = join_ty(aty, bty)
            return "(match %s with None => %s | Some %s => %s end)" % (
                env[k][0], coerce(a, aty, ty), n, coerce(b, bty, ty)), ty
        c = cond(e.test, env, h, cx)
        h1, h2 = Hoist(), Hoist()
        a, aty = ex(e.body, env, h1 if h is not None else None, cx)
        b, bty = ex(e.orelse, env, h2 if h is not None else None, cx)
        ty = join_ty(aty, bty)
        a, b = coerce(a, aty, ty), coerce(b, bty, ty)
        if h1.pre or h2.pre:
            v = cx.tmp()
            h.pre.append((v, "(if %s then %s else %s)" % (c, wrap(h1.pre, "Ok %s" % a).replace("\n", " "),
                                                           wrap(h2.pre, "Ok %s" % b).replace("\n", " "))))
            return v, ty
        return "(if %s then %s else %s)" % (c, a, b), ty
    if isinstance(e, ast.Tuple):
        parts = [ex(x, env, h, cx) for x in e.elts]
        return "(" + ", ".join(p[0] for p in parts) + ")", TUP(*[p[1] for p in parts])
    if isinstance(e, ast.List) and not e.elts:
        return "[]", LIST(None)
    if isinstance(e, ast.List):
        if cx.np is not None:
            r = cx.np.list_literal(e, env, h, cx)
            if r is not None:
                return r
        parts = [ex(x, env, h, cx) for x in e.elts]
        ty = parts[0][1]
        for p in parts[1:]:
            ty = join_ty(ty, p[1])
        return "[" + "; ".join(coerce(p[0], p[1], ty) for p in parts) + "]", LIST(ty)
    if isinstance(e, ast.Dict) and not e.keys:
        return "[]", DICT
    if isinstance(e, ast.ListComp) or (isinstance(e, ast.GeneratorExp) and getattr(cx, "genexp_as_list", False)):
        # (a generator expression is a list only where the driver has checked that it is consumed once)
        it, pat, inner = genexp(e, env, h, cx)
        b, bty = ex(e.elt, inner, None, cx)
        return "(List.map %s %s)" % (lam(pat, b), it), LIST(bty)
    if isinstance(e, ast.Subscript):
        if isinstance(e.value, ast.Name) and isinstance(e.slice, ast.Constant) \
                and (e.value.id, e.slice.value) in cx.consts:
            v = cx.consts[(e.value.id, e.slice.value)]
            return "%d" % v, Z
        if cx.np is not None:
            r = cx.np.subscript(e, env, h, cx)
            if r is not None:
                return r
        bt, bty = ex(e.value, env, h, cx)
        bt, bty = need(bt, bty, "sequence", "EType", h, e)
        if isinstance(e.slice, ast.Slice):
            if bty[0] != "list" or e.slice.step is not None:
                fail(e, "slice of %r (only l[a:b], l[a:], l[:b] of lists / 1-D arrays)" % (bty,))
            lo = as_int(e.slice.lower, env, h, cx) if e.slice.lower is not None else None
            hi = as_int(e.slice.upper, env, h, cx) if e.slice.upper is not None else None
            if hi is None:
                return ("(py_slice_from %s %s)" % (bt, lo) if lo is not None else bt), bty
            return "(py_slice %s %s %s)" % (bt, lo if lo is not None else "0", hi), bty
        if bty[0] in ("adict", "ddict"):
            kt, kty = ex(e.slice, env, h, cx)
            if kty != BYTES:
                fail(e, "dict key of type %r" % (kty,))
            if bty[0] == "ddict":          # defaultdict(int): a missing key reads as int() = 0
                return "(alookup_z0 %s %s)" % (kt, bt), Z
            if h is None:
                fail(e, "dict lookup (may raise KeyError) inside a short-circuit/lambda context")
            v = cx.tmp()
            h.pre.append((v, "need EKey (alookup %s %s)" % (kt, bt)))
            return v, bty[1]
        if bty[0] == "tup":
            if not (isinstance(e.slice, ast.Constant) and type(e.slice.value) is int
                    and 0 <= e.slice.value < len(bty) - 1 and len(bty) == 3):
                fail(e, "tuple index (only pairs with a constant index)")
            i = e.slice.value
            return "(%s %s)" % ("fst" if i == 0 else "snd", bt), bty[1 + i]
        if bty[0] == "list":
            i = as_int(e.slice, env, h, cx)
            if h is None:
                fail(e, "list indexing inside a short-circuit/lambda context")
            v = cx.tmp()
            h.pre.append((v, "py_index %s %s" % (bt, i)))
            return v, bty[1]
        fail(e, "subscript of %r" % (bty,))
    if isinstance(e, ast.Call):
        return call(e, env, h, cx)
    fail(e, "unsupported expression")


def call(e, env, h, cx):
    f = e.func
    if e.keywords and not cx.kwcalls:
        fail(e, "keyword arguments")
    name = f.id if isinstance(f, ast.Name) else None
    if cx.np is not None:
        r = cx.np.call(e, env, h, cx)
        if r is not None:
            return r
    if e.keywords:
        fail(e, "keyword arguments")
    if name == "range" and len(e.args) in (1, 2):
        a = "0" if len(e.args) == 1 else as_int(e.args[0], env, h, cx)
        b = as_int(e.args[-1], env, h, cx)
        return "(py_range %s %s)" % (a, b), LIST(Z)
    if isinstance(f, ast.Attribute) and f.attr in ("values", "items", "get", "keys") and key_of(f.value) in env \
            and env[key_of(f.value)][1][0] in ("adict", "ddict"):
        d, dty = env[key_of(f.value)]
        vty = Z if dty[0] == "ddict" else dty[1]
        if f.attr == "values" and not e.args:
            return "(List.map snd %s)" % d, LIST(vty)
        if f.attr == "keys" and not e.args:
            return "(List.map fst %s)" % d, LIST(BYTES)
        if f.attr == "items" and not e.args:
            return d, LIST(TUP(BYTES, vty))
        if f.attr == "get" and len(e.args) == 1:
            k, kty = ex(e.args[0], env, h, cx)
            if kty != BYTES:
                fail(e, "dict key of type %r" % (kty,))
            return "(alookup %s %s)" % (k, d), OPT(vty)
        fail(e, "dict method")
    if name == "int" and len(e.args) == 1:
        return as_int(e.args[0], env, h, cx), Z
    if name == "len" and len(e.args) == 1:
        t, ty = ex(e.args[0], env, h, cx)
        t, ty = need(t, ty, "sized", "EType", h, e)
        if ty[0] != "list" and ty != BYTES:
            fail(e, "len of %r" % (ty,))
        return "(Z.of_nat (List.length %s))" % t, Z
    if name in ("max", "min") and len(e.args) == 2:
        return "(Z.%s %s %s)" % (name, as_int(e.args[0], env, h, cx), as_int(e.args[1], env, h, cx)), Z
    if name in ("sum", "any", "all") and len(e.args) == 1 and isinstance(e.args[0], ast.GeneratorExp):
        g = e.args[0]
        it, pat, inner = genexp(g, env, h, cx)
        if name == "sum":
            b = as_int(g.elt, inner, None, cx)
            return "(zsum (List.map %s %s))" % (lam(pat, b), it), Z
        b = cond(g.elt, inner, None, cx)
        return "(List.%s %s %s)" % ("existsb" if name == "any" else "forallb", lam(pat, b), it), B
    if name == "zip" and len(e.args) == 2:
        a, aty = ex(e.args[0], env, h, cx)
        b, bty = ex(e.args[1], env, h, cx)
        a, aty = need(a, aty, "list", "EType", h, e)
        b, bty = need(b, bty, "list", "EType", h, e)
        if aty[0] != "list" or bty[0] != "list":
            fail(e, "zip of non-lists")
        return "(List.combine %s %s)" % (a, b), LIST(TUP(aty[1], bty[1]))
    if name == "list" and len(e.args) == 1 and isinstance(e.args[0], ast.Call) \
            and isinstance(e.args[0].func, ast.Name) and e.args[0].func.id == "set" \
            and len(e.args[0].args) == 1 and isinstance(e.args[0].args[0], ast.GeneratorExp):
        g = e.args[0].args[0]
        it, pat, inner = genexp(g, env, h, cx)
        b = as_int(g.elt, inner, None, cx)
        # list(set(..)): the distinct elements (order unspecified in Python; only the length
        # and the single element of a one-element result may be used)
        return "(dedup_z (List.map %s %s))" % (lam(pat, b), it), LIST(Z)
    if name == "isinstance" and len(e.args) == 2 and isinstance(e.args[1], ast.Name):
        t, ty = ex(e.args[0], env, h, cx)
        ent = cx.isinst.get((ty[1] if ty[0] == "rec" else None, e.args[1].id))
        if ent is None:
            fail(e, "isinstance test not in the table")
        return ent % t, B
    if isinstance(f, ast.Attribute) and f.attr == "get" and len(e.args) == 2:
        d, dty = ex(f.value, env, h, cx)
        d, dty = need(d, dty, "dict", "EOther", h, e)
        if dty != DICT:
            fail(e, ".get on %r" % (dty,))
        k, kty = ex(e.args[0], env, h, cx)
        if kty != BYTES:
            fail(e, "dict key of type %r" % (kty,))
        dflt = as_int(e.args[1], env, h, cx)
        return "(match alookup %s %s with Some v__ => v__ | None => %s end)" % (k, d, dflt), Z
    # methods of model records through the explicit table (pure)
    if isinstance(f, ast.Attribute) and not (isinstance(f.value, ast.Name) and f.value.id == "self"):
        ot, oty = ex(f.value, env, h, cx)
        ent = getattr(cx, "methods", {}).get((oty[1] if oty[0] == "rec" else None, f.attr))
        if ent is not None:
            fn, ptys, rty = ent
            if len(e.args) != len(ptys):
                fail(e, "arity of method call")
            args = []
            for a, pty in zip(e.args, ptys):
                t, ty = ex(a, env, h, cx)
                if ty != pty:
                    fail(e, "argument type %r, expected %r" % (ty, pty))
                args.append(t)
            return "(%s %s %s)" % (fn, ot, " ".join(args)), rty
    # calls of translated functions
    cal = None
    if name is not None and name in cx.callees:
        cal = cx.callees[name]
        recv = None
    elif isinstance(f, ast.Attribute) and isinstance(f.value, ast.Name) and f.value.id == "self" \
            and ("self." + f.attr) in cx.callees:
        cal = cx.callees["self." + f.attr]
        recv = "self"
    if cal is not None:
        fn, ptys, rty, self_args = cal[:4]
        defaults = list(cal[4]) if len(cal) > 4 else []       # terms of the trailing parameters' default values
        missing = len(ptys) - len(e.args)
        if missing < 0 or missing > len(defaults):
            fail(e, "arity of call to %s" % fn)
        args = []
        if recv is not None:
            for k in self_args:
                if k not in env:
                    fail(e, "receiver state %s not available for call" % k)
                args.append(env[k][0])
        for a, pty in zip(e.args, ptys):
            t, ty = ex(a, env, h, cx)
            if ty[0] == "opt" and ty[1] == pty:
                t, ty = need(t, ty, "value", "EType", h, a)   # the callee uses it as a concrete value
            if ty != pty:
                t = coerce(t, ty, pty)
            args.append(t)
        if missing:
            args += defaults[len(defaults) - missing:]
        if h is None:
            fail(e, "call that may raise inside a short-circuit/lambda context")
        v = cx.tmp()
        h.pre.append((v, "%s %s" % (fn, " ".join(args))))
        return v, rty
    fail(e, "unsupported call")


# ---------------------------------------------------------------------------
# statements

EXTRA_ASSIGNS = {}      # id(statement node) -> env keys a driver-specific statement assigns (set by the driver)


def is_timer_with(s):
    """`with Timer(log, "<text>"):` -- logs the elapsed time, nothing else (nptdms/utils.py)"""
    return (isinstance(s, ast.With) and len(s.items) == 1 and s.items[0].optional_vars is None
            and isinstance(s.items[0].context_expr, ast.Call) and isinstance(s.items[0].context_expr.func, ast.Name)
            and s.items[0].context_expr.func.id == "Timer" and len(s.items[0].context_expr.args) == 2
            and not s.items[0].context_expr.keywords
            and isinstance(s.items[0].context_expr.args[0], ast.Name) and s.items[0].context_expr.args[0].id == "log"
            and isinstance(s.items[0].context_expr.args[1], ast.Constant)
            and isinstance(s.items[0].context_expr.args[1].value, str))


def assigned_keys(stmts):
    """environment keys assigned anywhere inside the statements, in order of first appearance"""
    out = []

    def add(k):
        if k is not None and k not in out:
            out.append(k)

    def target(t):
        if isinstance(t, ast.Subscript):
            add(key_of(t.value))
        elif isinstance(t, ast.Tuple):
            for x in t.elts:
                target(x)
        else:
            add(key_of(t))

    def walk(ss):
        for s in ss:
            if isinstance(s, ast.Assign):
                for t in s.targets:
                    target(t)
            elif isinstance(s, ast.AugAssign):
                target(s.target)
            elif isinstance(s, ast.If):
                walk(s.body)
                walk(s.orelse)
            elif isinstance(s, ast.For):
                walk(s.body)
            elif isinstance(s, ast.Try):
                walk(s.body)
                for hd in s.handlers:
                    walk(hd.body)
            elif isinstance(s, ast.With):
                walk(s.body)
            elif isinstance(s, ast.Expr) and isinstance(s.value, ast.Yield):
                add("<yield>")
            elif isinstance(s, ast.Expr) and isinstance(s.value, ast.Call) and id(s) in EXTRA_ASSIGNS:
                for k in EXTRA_ASSIGNS[id(s)]:
                    add(k)
            elif isinstance(s, ast.Expr) and isinstance(s.value, ast.Call) and isinstance(s.value.func, ast.Attribute) \
                    and s.value.func.attr in ("append", "extend", "update", "sort"):
                add(key_of(s.value.func.value))
    walk(stmts)
    return out


def loaded_keys(stmts, env):
    out = []
    for s in stmts:
        for n in ast.walk(s):
            k = None
            if isinstance(n, ast.Attribute) and isinstance(n.value, ast.Name) and n.value.id == "self":
                k = "self." + n.attr if ("self." + n.attr) in env else "self"
            elif isinstance(n, ast.Name) and n.id != "self":
                k = n.id
            if k is not None and k in env and k not in out:
                out.append(k)
    return out


def terminates(stmts):
    if not stmts:
        return False
    last = stmts[-1]
    if isinstance(last, (ast.Return, ast.Raise, ast.Break, ast.Continue)):
        return True
    if isinstance(last, ast.If):
        return terminates(last.body) and terminates(last.orelse)
    if is_timer_with(last):
        return terminates(last.body)
    return False


def leaves_block(stmts, in_loop=False):
    """some statement may leave the enclosing block: a return anywhere, a break / continue that belongs to an
    enclosing loop (not to a loop nested in these statements)"""
    for s in stmts:
        if isinstance(s, ast.Return):
            return True
        if isinstance(s, (ast.Break, ast.Continue)) and not in_loop:
            return True
        if isinstance(s, ast.If) and (leaves_block(s.body, in_loop) or leaves_block(s.orelse, in_loop)):
            return True
        if isinstance(s, (ast.For, ast.While)) and (leaves_block(s.body, True) or leaves_block(s.orelse, in_loop)):
            return True
        if isinstance(s, ast.With) and leaves_block(s.body, in_loop):
            return True
        if isinstance(s, ast.Try) and (leaves_block(s.body, in_loop) or any(leaves_block(h.body, in_loop) for h in s.handlers)
                                       or leaves_block(s.orelse, in_loop) or leaves_block(s.finalbody, in_loop)):
            return True
    return False


def is_skip(s):
    if isinstance(s, ast.Pass):
        return True
    if isinstance(s, ast.Expr):
        v = s.value
        if isinstance(v, ast.Constant) and isinstance(v.value, str):
            return True
        if isinstance(v, ast.Call) and isinstance(v.func, ast.Attribute) and isinstance(v.func.value, ast.Name) \
                and v.func.value.id == "log" and v.func.attr in ("debug", "info", "warning", "error"):
            return True     # logging (its arguments are not evaluated by the translation)
    return False


class Scope:
    def __init__(self, ret, cont=None, brk=None, nojump=False, retval=None):
        self.ret, self.cont, self.brk, self.nojump = ret, cont, brk, nojump
        self.retval = retval        # term of a value some inner loop returned -> the term that returns it from here


def ind(s):
    return "\n".join("  " + l for l in s.split("\n"))


def block(stmts, env, K, sc, cx):
    """statements -> Gallina term of type res _ ; K(env) is what follows the block"""
    if not stmts:
        return K(env)
    s, rest = stmts[0], stmts[1:]
    if is_skip(s):
        return block(rest, env, K, sc, cx)
    if cx.np is not None:
        r = cx.np.statement(s, rest, env, K, sc, cx)
        if r is not None:
            return r
    if isinstance(s, ast.Raise):
        exc = s.exc
        name = exc.func.id if isinstance(exc, ast.Call) and isinstance(exc.func, ast.Name) else \
            (exc.id if isinstance(exc, ast.Name) else None)
        if name not in EXC:
            fail(s, "unknown exception class")
        return "Err %s" % EXC[name]
    if isinstance(s, ast.Return):
        if sc.nojump or sc.ret is None:
            fail(s, "return inside a loop or inside a joined branch")
        return sc.ret(env, s.value)
    if isinstance(s, ast.Break):
        if sc.nojump or sc.brk is None:
            fail(s, "break outside a loop or inside a joined branch")
        return sc.brk(env)
    if isinstance(s, ast.Continue):
        if sc.nojump or sc.cont is None:
            fail(s, "continue outside a loop or inside a joined branch")
        return sc.cont(env)
    if isinstance(s, (ast.Assign, ast.AugAssign)):
        return assign(s, rest, env, K, sc, cx)
    if isinstance(s, ast.If):
        return if_stmt(s, rest, env, K, sc, cx)
    if isinstance(s, ast.For):
        return for_stmt(s, rest, env, K, sc, cx)
    if is_timer_with(s):
        return block(s.body + rest, env, K, sc, cx)
    if isinstance(s, ast.Expr) and isinstance(s.value, ast.Yield) and s.value.value is not None and "<yield>" in env:
        h = Hoist()
        t, ty = ex(s.value.value, env, h, cx)
        d, dty = env["<yield>"]
        ety = ty if dty[1] is None else join_ty(dty[1], ty)
        if dty[1] is not None and ety != dty[1]:
            fail(s, "yield of %r after %r" % (ty, dty[1]))
        env2 = dict(env)
        env2["<yield>"] = ("yielded__", LIST(ety))
        return wrap(h.pre, "let yielded__ := (%s ++ [%s]) in\n" % (d, coerce(t, ty, ety))) + block(rest, env2, K, sc, cx)
    if isinstance(s, ast.Try) and getattr(cx, "try_catch", False) and not s.orelse and not s.finalbody \
            and len(s.handlers) == 1 and isinstance(s.handlers[0].type, ast.Name) and s.handlers[0].type.id in EXC \
            and s.handlers[0].name is None and terminates(s.body) and terminates(s.handlers[0].body) \
            and not any(isinstance(n, (ast.Break, ast.Continue)) for st_ in s.body + s.handlers[0].body for n in ast.walk(st_)):
        # try: <..return/raise> except E: <..return/raise>  -- E raised anywhere in the body is handled
        if rest:
            fail(rest[0], "statement after a try whose parts all return")
        return "py_catch %s\n%s\n%s" % (EXC[s.handlers[0].type.id], ind("(" + block(s.body, env, K, sc, cx) + ")"),
                                       ind("(" + block(s.handlers[0].body, env, K, sc, cx) + ")"))
    if isinstance(s, ast.Try) and cx.np is not None:
        body = cx.np.try_total(s, env, cx)        # the body when no handler can ever be entered, else fails
        return block(body + rest, env, K, sc, cx)
    if isinstance(s, ast.Expr) and isinstance(s.value, ast.Call) and isinstance(s.value.func, ast.Attribute) \
            and s.value.func.attr in ("append", "extend") and len(s.value.args) == 1 and not s.value.keywords:
        return list_grow(s, rest, env, K, sc, cx)
    fail(s, "unsupported statement")


def assign(s, rest, env, K, sc, cx):
    h = Hoist()
    if isinstance(s, ast.AugAssign):
        if type(s.op) not in BINOP:
            fail(s, "augmented assignment operator")
        tgt = s.target
        k = key_of(tgt)
        if isinstance(tgt, ast.Subscript) and key_of(tgt.value) in env and env[key_of(tgt.value)][1][0] == "ddict":
            pass                    # d[k] op= v on a defaultdict(int): handled as item assignment below
        elif k is None or k not in env:
            fail(s, "augmented assignment target")
        a = as_int(tgt, env, h, cx)
        b = as_int(s.value, env, h, cx)
        t, ty = BINOP[type(s.op)] % (a, b), Z
    else:
        if len(s.targets) != 1:
            fail(s, "multiple assignment targets")
        tgt = s.targets[0]
        t, ty = ex(s.value, env, h, cx)
    env2 = dict(env)
    if isinstance(tgt, ast.Subscript):
        k = key_of(tgt.value)
        if k is None or k not in env:
            fail(s, "item assignment target")
        d, dty = env[k]
        n = cname(k)
        if dty[0] in ("adict", "ddict"):
            kt, kty = ex(tgt.slice, env, h, cx)
            if kty != BYTES:
                fail(s, "dict key of type %r" % (kty,))
            vty = Z if dty[0] == "ddict" else dty[1]
            if ty != vty:
                t = coerce_deep(t, ty, vty)
            env2[k] = (n, dty)
            return wrap(h.pre, "let %s := aset %s %s %s in\n" % (n, kt, t, d)) + block(rest, env2, K, sc, cx)
        if dty == DICT:
            kt, kty = ex(tgt.slice, env, h, cx)
            if kty != BYTES:
                fail(s, "dict key of type %r" % (kty,))
            v, vty = need(t, ty, "int", "EType", h, s)
            if vty != Z:
                fail(s, "dict value of type %r" % (vty,))
            env2[k] = (n, DICT)
            return wrap(h.pre, "let %s := aset %s %s %s in\n" % (n, kt, v, d)) + block(rest, env2, K, sc, cx)
        if dty[0] == "list":
            i = as_int(tgt.slice, env, h, cx)
            if ty != dty[1]:
                fail(s, "list element of type %r stored into %r" % (ty, dty))
            env2[k] = (n, dty)
            return wrap(h.pre, "do %s <- py_setitem %s %s %s;\n" % (n, d, i, t)) + block(rest, env2, K, sc, cx)
        fail(s, "item assignment into %r" % (dty,))
    if isinstance(tgt, ast.Tuple) and ty[0] == "tup" and len(tgt.elts) == len(ty) - 1 \
            and all(key_of(x) is not None for x in tgt.elts):
        # (a, b) = <pair>
        for x, xty in zip(tgt.elts, ty[1:]):
            env2[key_of(x)] = (cname(key_of(x)), xty)
        return wrap(h.pre, "let '(%s) := %s in\n" % (", ".join(cname(key_of(x)) for x in tgt.elts), t)) \
            + block(rest, env2, K, sc, cx)
    k = key_of(tgt)
    if k is None:
        fail(s, "assignment target")
    n = cname(k)       # (a write to a memo cache attribute is visible to the rest of this function only)
    if ty == LIST(None) and cx.np is None:
        fail(s, "empty list literal of unknown element type")
    env2[k] = (n, ty)
    if ty == NONE:
        return wrap(h.pre, block(rest, dict(env, **{k: ("None", NONE)}), K, sc, cx))
    if h.pre and h.pre[-1][0] == t:
        h.pre[-1] = (n, h.pre[-1][1])
        return wrap(h.pre, block(rest, env2, K, sc, cx))
    return wrap(h.pre, "let %s := %s in\n" % (n, t)) + block(rest, env2, K, sc, cx)


def list_grow(s, rest, env, K, sc, cx):
    """l.append(x) / l.extend(l2) on a local list: l := l ++ [x] / l ++ l2"""
    c = s.value
    k = key_of(c.func.value)
    if k is None or k not in env or env[k][1][0] != "list":
        fail(s, "append/extend on something that is not a local list")
    d, dty = env[k]
    h = Hoist()
    t, ty = ex(c.args[0], env, h, cx)
    if c.func.attr == "append":
        if dty[1] is not None and (ty, dty[1]) in EXTRA_COERCIONS:
            ety = dty[1]
        else:
            ety = ty if dty[1] is None else join_ty(dty[1], ty)
        if dty[1] is not None and ety != dty[1]:
            fail(s, "append of %r to %r" % (ty, dty))
        add = "[%s]" % coerce(t, ty, ety)
    else:
        if ty[0] != "list":
            fail(s, "extend with a non-list (%r)" % (ty,))
        ety = ty[1] if dty[1] is None else dty[1]
        if ty[1] is not None and ty[1] != ety:
            fail(s, "extend of %r with %r" % (dty, ty))
        add = t
    n = cname(k)
    env2 = dict(env)
    env2[k] = (n, LIST(ety))
    return wrap(h.pre, "let %s := (%s ++ %s) in\n" % (n, d, add)) + block(rest, env2, K, sc, cx)


def branch_pair(s, env, h, cx):
    """the test of an if statement -> (emit(then_term, else_term), env_then, env_else)"""
    nt = none_test(s.test)
    if nt is not None:
        k = key_of(nt[0])
        if k is not None and k in env:
            t, ty = env[k]
            if ty == NONE:
                memo = k.startswith("self.") and k[5:] in cx.memo
                if cx.final and not memo:
                    fail(s, "None test on a value that is statically None")
                return ("static", not nt[1]), env, env
            if ty[0] == "opt":
                n = cname(k)
                env_some = dict(env)
                env_some[k] = (n, ty[1])
                if nt[1]:   # is not None: then-branch sees Some
                    return (lambda a, b: "match %s with\n| Some %s =>\n%s\n| None =>\n%s\nend"
                            % (t, n, ind(a), ind(b))), env_some, env
                return (lambda a, b: "match %s with\n| None =>\n%s\n| Some %s =>\n%s\nend"
                        % (t, ind(a), n, ind(b))), env, env_some
    c = cond(s.test, env, h, cx)
    return (lambda a, b: "if %s then\n%s\nelse\n%s" % (c, ind(a), ind(b))), env, env


def if_stmt(s, rest, env, K, sc, cx):
    h = Hoist()
    if cx.np is not None:
        st = cx.np.static_cond(s.test, env, cx)
        if st is not None:          # decided by the declared types / table keys: only the live branch exists
            return block((s.body if st else s.orelse) + rest, env, K, sc, cx)
    emit, env_t, env_e = branch_pair(s, env, h, cx)
    if isinstance(emit, tuple):      # statically decided (cold memo cache)
        taken = s.body if emit[1] else s.orelse
        return block(taken + rest, env, K, sc, cx)
    if terminates(s.body):
        return wrap(h.pre, emit(block(s.body, env_t, K, sc, cx), block(s.orelse + rest, env_e, K, sc, cx)))
    if terminates(s.orelse):
        return wrap(h.pre, emit(block(s.body + rest, env_t, K, sc, cx), block(s.orelse, env_e, K, sc, cx)))
    if not rest:
        return wrap(h.pre, emit(block(s.body, env_t, K, sc, cx), block(s.orelse, env_e, K, sc, cx)))
    if leaves_block(s.body) or leaves_block(s.orelse):
        # a branch may leave the function / loop but may also fall through: what follows is emitted after each branch
        return wrap(h.pre, emit(block(s.body + rest, env_t, K, sc, cx), block(s.orelse + rest, env_e, K, sc, cx)))
    # both branches may fall through and something follows: monadic join on the assigned variables
    keys = assigned_keys(s.body) + [k for k in assigned_keys(s.orelse) if k not in assigned_keys(s.body)]
    nt = none_test(s.test)
    if nt is not None and key_of(nt[0]) in env and key_of(nt[0]) not in keys:
        keys.append(key_of(nt[0]))
    leaves = []
    snap = cx.snapshot()
    jsc = Scope(None, nojump=True)

    def k_dry(envl):
        leaves.append({k: (envl[k][1] if k in envl else None) for k in keys})
        return "DRY"
    block(s.body, env_t, k_dry, jsc, cx)
    block(s.orelse, env_e, k_dry, jsc, cx)
    cx.restore(snap)
    if not leaves:
        fail(s, "if statement with no fall-through path in join mode")
    keep, jty = [], {}
    for k in keys:
        tys = [lf[k] for lf in leaves]
        if any(t is None for t in tys):
            continue            # not defined on every path: local to a branch
        t = tys[0]
        for u in tys[1:]:
            t = join_ty(t, u)
        keep.append(k)
        jty[k] = t

    def k_yield(envl):
        if not keep:
            return "Ok tt"
        return "Ok (" + ", ".join(coerce(envl[k][0], envl[k][1], jty[k]) for k in keep) + ")"
    a = block(s.body, env_t, k_yield, jsc, cx)
    b = block(s.orelse, env_e, k_yield, jsc, cx)
    env2 = dict(env)
    for k in keep:
        env2[k] = (cname(k), jty[k])
    if not keep:
        pat = "u__"
    elif len(keep) == 1:
        pat = cname(keep[0])
    else:
        pat = "'(" + ", ".join(cname(k) for k in keep) + ")"
    return wrap(h.pre, "do %s <- (%s);\n" % (pat, emit(a, b))) + block(rest, env2, K, sc, cx)


def for_stmt(s, rest, env, K, sc, cx):
    if s.orelse:
        fail(s, "for ... else")
    h = Hoist()
    it, enum = s.iter, False
    if isinstance(it, ast.Call) and isinstance(it.func, ast.Name) and it.func.id == "enumerate" \
            and len(it.args) == 1 and not it.keywords:
        enum, it = True, it.args[0]
    lt, lty = ex(it, env, h, cx)
    lt, lty = need(lt, lty, "list", "EType", h, s)
    if lty[0] != "list":
        fail(s, "iteration over %r" % (lty,))
    tgt = s.target
    idx = None
    if enum:
        if not (isinstance(tgt, ast.Tuple) and len(tgt.elts) == 2 and isinstance(tgt.elts[0], ast.Name)):
            fail(s, "enumerate target")
        idx, tgt = tgt.elts[0].id, tgt.elts[1]
    pat, binds = pattern(tgt, lty[1], s)
    if idx is not None:
        binds[idx] = (cname(idx), Z)
    has_ret = any(isinstance(n, ast.Return) for st in s.body for n in ast.walk(st))
    if has_ret and (sc.nojump or sc.ret is None or sc.retval is None):
        fail(s, "return inside a loop that is itself inside a joined branch / a fragment without return")
    state = [k for k in assigned_keys(s.body) if k in env and k not in binds]
    for k in assigned_keys(s.body):
        if k in binds:
            fail(s, "loop target is reassigned in the body")
    types = {k: env[k][1] for k in state}
    fixed = [k for k in loaded_keys(s.body, env) if k not in state and k not in binds]

    def body_env(types):
        e2 = dict(env)
        for k in fixed:
            e2[k] = (cname(k), env[k][1])
        for k in state:
            e2[k] = (cname(k), types[k])
        e2.update(binds)
        return e2

    final_saved = cx.final
    for _ in range(5):
        leaves = []
        snap = cx.snapshot()
        cx.final = False

        def k_dry(envl):
            leaves.append({k: envl[k][1] for k in state})
            return "DRY"

        def ret_dry(envl, value, inj=None):
            sc.ret(envl, value)             # records the type of the returned value
            return "DRY"
        block(s.body, body_env(types), k_dry,
              Scope(ret_dry if has_ret else None, cont=k_dry, brk=k_dry, retval=(lambda t: "DRY") if has_ret else None), cx)
        cx.restore(snap)
        cx.final = final_saved
        new = dict(types)
        for lf in leaves:
            for k in state:
                new[k] = join_ty(new[k], lf[k])
        if new == types:
            break
        types = new
    else:
        fail(s, "loop state types do not stabilise")
    cx.n_loop += 1
    name = "%s_loop%d" % (cx.fname, cx.n_loop)
    xs = "xs__"
    fixed_args = " ".join(cname(k) for k in fixed)
    rty = "unit" if not state else " * ".join(coqty(types[k]) for k in state)
    if has_ret:         # the loop ends normally / by break with its state (inl) or returns a value (inr)
        rty = "(%s) + %s" % (rty, coqty(cx.rty) if cx.rty is not None else "unit")

    def st_tuple(envl):
        if not state:
            t = "tt"
        else:
            t = "(" + ", ".join(coerce(envl[k][0], envl[k][1], types[k]) for k in state) + ")" \
                if len(state) > 1 else coerce(envl[state[0]][0], envl[state[0]][1], types[state[0]])
        return "(inl %s)" % t if has_ret else t

    def k_next(envl):
        parts = [name]
        if fixed:
            parts.append(fixed_args)
        parts.append(xs)
        if idx is not None:
            parts.append("(%s + 1)" % cname(idx))
        parts += [coerce(envl[k][0], envl[k][1], types[k]) for k in state]
        return " ".join(parts)

    def k_brk(envl):
        return "Ok %s" % st_tuple(envl)
    if has_ret:
        body_sc = Scope(lambda envl, value, inj=None: sc.ret(envl, value, inj="(inr %s)"), cont=k_next, brk=k_brk,
                        retval=lambda t: "Ok (inr %s)" % t)
    else:
        body_sc = Scope(None, cont=k_next, brk=k_brk)
    body = block(s.body, body_env(types), k_next, body_sc, cx)
    params = "".join(" (%s : %s)" % (cname(k), coqty(env[k][1])) for k in fixed)
    params += " (%s : %s)" % (xs, coqty(lty))
    if idx is not None:
        params += " (%s : Z)" % cname(idx)
    params += "".join(" (%s : %s)" % (cname(k), coqty(types[k])) for k in state)
    benv = body_env(types)
    head = pat if not pat.startswith("(") else "x__"
    destr = "" if not pat.startswith("(") else "let '%s := x__ in\n" % pat
    cx.defs.append(
        "(* %s *)\nFixpoint %s%s {struct %s} : res (%s) :=\n  match %s with\n  | [] => Ok %s\n  | %s :: %s =>\n%s\n  end."
        % (("line %d: " % s.lineno) + ast.unparse(s).split("\n")[0].replace("(*", "( *").replace("*)", "* )"),
           name, params, xs, rty, xs, st_tuple(benv), head, xs, ind(ind(destr + body))))
    # the call
    args = [name] + [env[k][0] for k in fixed] + [lt]
    if idx is not None:
        args.append("0")
    args += [coerce(env[k][0], env[k][1], types[k]) for k in state]
    env2 = dict(env)
    for k in state:
        env2[k] = (cname(k), types[k])
    if not state:
        patc = "u__"
    elif len(state) == 1:
        patc = cname(state[0])
    else:
        patc = "'(" + ", ".join(cname(k) for k in state) + ")"
    if has_ret:
        pin = "_" if not state else (cname(state[0]) if len(state) == 1 else "(" + ", ".join(cname(k) for k in state) + ")")
        return wrap(h.pre, "do r%d__ <- %s;\nmatch r%d__ with\n| inr v__ => %s\n| inl %s =>\n%s\nend"
                    % (cx.n_loop, " ".join(args), cx.n_loop, sc.retval("v__"), pin, ind(block(rest, env2, K, sc, cx))))
    return wrap(h.pre, "do %s <- %s;\n" % (patc, " ".join(args))) + block(rest, env2, K, sc, cx)


# ---------------------------------------------------------------------------
# functions

def function(cx, gen_name, stmts, params, env0, outputs, comment, cont_none=False, with_state=()):
    """Translate a statement list as a function.
    params: [(coq name, type)] ; env0: initial environment ; outputs: env keys whose final values
    are the result when the function ends without a value (bare return / end of body)."""
    cx.fname = gen_name
    with_state = list(with_state)       # env keys whose final values are returned next to the value: (value, state)

    def run(final, rty):
        cx.final = final
        cx.n_tmp = 0
        cx.rty = rty
        rets = []

        def out_tuple(envl):
            if not outputs:
                fail(stmts[-1], "control reaches the end of the function (returns None)")
            t, ty = ("(" + ", ".join(envl[k][0] for k in outputs) + ")" if len(outputs) > 1 else envl[outputs[0]][0]), \
                (TUP(*[envl[k][1] for k in outputs]) if len(outputs) > 1 else envl[outputs[0]][1])
            if cont_none:       # a loop-body fragment: `continue` gives None, the end gives Some state
                return "(Some %s)" % t, OPT(ty)
            return t, ty

        def ret(envl, value, inj=None):
            if value is None:
                t, ty = out_tuple(envl)
                pre = []
            else:
                if outputs:
                    fail(value, "return with a value in a state-returning function")
                h = Hoist()
                t, ty = ex(value, envl, h, cx)
                pre = h.pre
                if with_state:
                    t = "(%s, (%s))" % (t, ", ".join(envl[k][0] for k in with_state)) if len(with_state) > 1 \
                        else "(%s, %s)" % (t, envl[with_state[0]][0])
                    ty = TUP(ty, TUP(*[envl[k][1] for k in with_state]) if len(with_state) > 1 else envl[with_state[0]][1])
            rets.append(ty)
            if rty is not None:
                t = coerce_deep(t, ty, rty)
            return wrap(pre, "Ok %s" % (inj % t if inj else t))

        def k_end(envl):
            return ret(envl, None)
        def k_cont(envl):
            rets.append(NONE)
            return "Ok None"
        body = block(stmts, dict(env0), k_end, Scope(ret, cont=k_cont if cont_none else None,
                                                     retval=lambda t: "Ok %s" % t), cx)
        return body, rets

    snap = cx.snapshot()
    _, rets = run(False, None)
    cx.restore(snap)
    rty = rets[0]
    for r in rets[1:]:
        rty = join_deep(rty, r)
    body, _ = run(True, rty)
    ps = "".join(" (%s : %s)" % (n, coqty(t)) for n, t in params)
    cx.defs.append("(* %s *)\nDefinition %s%s : res %s :=\n%s." % (comment, gen_name, ps, coqty(rty), ind(body)))
    cx.rty = None
    return rty


def join_deep(a, b):
    if a[0] == "tup" and b[0] == "tup" and len(a) == len(b):
        return TUP(*[join_deep(x, y) for x, y in zip(a[1:], b[1:])])
    return join_ty(a, b)


def coerce_deep(term, frm, to):
    if frm == to:
        return term
    if frm[0] == "tup" and to[0] == "tup":
        # only syntactic tuples can be coerced component-wise
        if not (term.startswith("(") and term.endswith(")")):
            raise Unsupported("cannot coerce tuple value %s" % term)
        parts = split_top(term[1:-1])
        if len(parts) != len(frm) - 1:
            raise Unsupported("cannot coerce tuple value %s" % term)
        return "(" + ", ".join(coerce_deep(p, f, t) for p, f, t in zip(parts, frm[1:], to[1:])) + ")"
    return coerce(term, frm, to)


def split_top(s):
    parts, depth, cur = [], 0, ""
    for ch in s:
        if ch == "(":
            depth += 1
        elif ch == ")":
            depth -= 1
        if ch == "," and depth == 0:
            parts.append(cur.strip())
            cur = ""
        else:
            cur += ch
    parts.append(cur.strip())
    return parts
