"""NumPy-typed operands, enum-typed string parameters and constant tables for py2gallina.

The translators gen_pyfuncs_time.py / gen_pyfuncs_wsize.py / gen_pyfuncs_index.py give the
parameters of a function a declared type; this module says what each Python operator and call
means for those types (NumPy 2.x semantics, the version installed under /venv; every rule is
exercised against the REAL NumPy on boundary values by the drivers' self-tests):

  ("np","u64")  np.uint64 scalar or array element: + - * wrap modulo 2^64 (explicit `np_u64`),
                >> & | exact
  ("np","i64")  np.int64
  ("dt",u) / ("td",u)   datetime64[u] / timedelta64[u] as the int64 count; NaT = -2^63 propagates;
                every other result outside (-2^63, 2^63) raises OverflowError (`np_chk`), also in
                the unit conversion NumPy inserts (`np_cast`, coarser -> finer only)
  ("f64i",)     result of timedelta / timedelta64(1, same unit): the float64 nearest to the count
                (always integral) or nan for NaT; int(nan) raises ValueError
  ("enum",T)    a str parameter restricted to the keys of a module-level dict (a Gallina enum type);
                D[k] on a dict literal with those keys is a generated `match`, `k in D` is decided
                statically, `try: x = D[k] except KeyError: ...` keeps only the body
  ("opaque",)   a value that is bound but never used on the translated paths (the float tables)

u (a unit) is a Gallina term of type `resolution` : a constructor (Rs, Rms, Rus, Rns) or an
enum-typed variable.
"""
import ast

from py2gallina import Z, B, NONE, BYTES, LIST, Unsupported, fail, need, ex, key_of, Hoist  # noqa: F401

U64 = ("np", "u64")
I64 = ("np", "i64")
F64I = ("f64i",)
OPAQUE = ("opaque",)
UNITS = {"s": "Rs", "ms": "Rms", "us": "Rus", "ns": "Rns"}     # NumPy unit code -> Model/Timestamp.v constructor
ORDER = ["Rs", "Rms", "Rus", "Rns"]                            # coarse -> fine


def DT(u):
    return ("dt", u)


def TD(u):
    return ("td", u)


def ENUM(t):
    return ("enum", t)


STRUCT_CODES = {"Q": (8, False), "q": (8, True), "L": (4, False), "l": (4, True), "I": (4, False), "i": (4, True),
                "H": (2, False), "h": (2, True), "B": (1, False), "b": (1, True)}


class Table:
    """a module-level dict literal with constant str keys"""

    def __init__(self, name, keys, coq_fn=None, enum=None, vty=None):
        self.name, self.keys, self.coq_fn, self.enum, self.vty = name, keys, coq_fn, enum, vty


class NpSem:
    def __init__(self, enums=None, tables=None, struct_pack_names=(), datetime_class="np.datetime64"):
        self.enums = enums or {}            # enum type name -> {python key: Gallina constructor}
        self.tables = tables or {}          # python name -> Table
        self.struct_pack_names = set(struct_pack_names)
        self.extra_calls = []               # driver-specific call rules: fn(e, env, h, cx) -> (term, type) | None
        self.extra_static = []              # driver-specific static tests: fn(test, env, cx) -> bool | None
        self.extra_try = []                 # driver-specific "this try body cannot raise": fn(s, env, cx) -> bool
        self.extra_compare = []             # driver-specific comparisons: fn(e, env, h, cx) -> (term, B) | None
        self.extra_statements = []          # driver-specific statements: fn(s, rest, env, K, sc, cx) -> term | None

    # ---- units -----------------------------------------------------------------------
    def unit(self, node, env):
        if isinstance(node, ast.Constant) and isinstance(node.value, str):
            if node.value not in UNITS:
                fail(node, "datetime unit not modelled")
            return UNITS[node.value]
        if isinstance(node, ast.Name) and node.id in env and env[node.id][1] == ENUM("resolution"):
            return env[node.id][0]
        fail(node, "datetime unit expression")

    def common(self, node, u1, u2):
        """the finer of two units (NumPy's result unit) -> unit"""
        if u1 == u2:
            return u1
        if u1 in ORDER and u2 in ORDER:
            return u1 if ORDER.index(u1) > ORDER.index(u2) else u2
        if u1 == "Rs":
            return u2           # every unit of the enum is at least as fine as seconds
        if u2 == "Rs":
            return u1
        fail(node, "common unit of %s and %s" % (u1, u2))

    def cast(self, node, term, ty, u, h, cx):
        if ty[1] == u:
            return term
        if h is None:
            fail(node, "unit conversion (may raise) inside a short-circuit/lambda context")
        v = cx.tmp()
        h.pre.append((v, "np_cast %s %s %s" % (ty[1], u, term)))
        return v

    @staticmethod
    def hoist(node, h, cx, term):
        if h is None:
            fail(node, "NumPy operation that may raise inside a short-circuit/lambda context")
        v = cx.tmp()
        h.pre.append((v, term))
        return v

    # ---- binary operators ---------------------------------------------------------------
    def binop(self, e, lt, lty, rt, rty, h, cx):
        op = type(e.op)
        k1, k2 = lty[0], rty[0]
        if lty == U64 and rty == U64:
            if op is ast.RShift:
                return "(Z.shiftr %s %s)" % (lt, rt), U64
            if op is ast.BitAnd:
                return "(Z.land %s %s)" % (lt, rt), U64
            if op is ast.BitOr:
                return "(Z.lor %s %s)" % (lt, rt), U64
            if op is ast.Add:
                return "(np_u64 (%s + %s))" % (lt, rt), U64
            if op is ast.Sub:
                return "(np_u64 (%s - %s))" % (lt, rt), U64
            if op is ast.Mult:
                return "(np_u64 (%s * %s))" % (lt, rt), U64
            fail(e, "uint64 operator")
        if k1 == "dt" and k2 == "dt" and op is ast.Sub:
            u = self.common(e, lty[1], rty[1])
            a, b = self.cast(e, lt, lty, u, h, cx), self.cast(e, rt, rty, u, h, cx)
            return self.hoist(e, h, cx, "np_dt_sub %s %s" % (a, b)), TD(u)
        if {k1, k2} == {"dt", "td"} and op is ast.Add or (k1, k2) == ("dt", "td") and op is ast.Sub:
            u = self.common(e, lty[1], rty[1])
            a, b = self.cast(e, lt, lty, u, h, cx), self.cast(e, rt, rty, u, h, cx)
            return self.hoist(e, h, cx, "np_dt_%s %s %s" % ("add" if op is ast.Add else "sub", a, b)), DT(u)
        if k1 == "td" and k2 == "td" and op in (ast.Add, ast.Sub):
            u = self.common(e, lty[1], rty[1])
            a, b = self.cast(e, lt, lty, u, h, cx), self.cast(e, rt, rty, u, h, cx)
            return self.hoist(e, h, cx, "np_dt_%s %s %s" % ("add" if op is ast.Add else "sub", a, b)), TD(u)
        if k1 == "td" and k2 == "td" and op is ast.FloorDiv:
            u = self.common(e, lty[1], rty[1])
            a, b = self.cast(e, lt, lty, u, h, cx), self.cast(e, rt, rty, u, h, cx)
            return "(np_td_floordiv %s %s)" % (a, b), I64
        if k1 == "td" and k2 == "td" and op is ast.Div:
            # only  x / np.timedelta64(1, <unit of x>) : the count as a float64
            r = e.right
            if not (isinstance(r, ast.Call) and self.is_np(r.func, "timedelta64") and len(r.args) == 2
                    and isinstance(r.args[0], ast.Constant) and r.args[0].value == 1 and lty[1] == rty[1]):
                fail(e, "timedelta true division (only by np.timedelta64(1, same unit))")
            return "(np_td_truediv1 %s)" % lt, F64I
        if op is ast.Mult and ((lty in (Z, I64) and k2 == "td") or (k1 == "td" and rty in (Z, I64))):
            (it, tt, u) = (lt, rt, rty[1]) if k2 == "td" else (rt, lt, lty[1])
            return self.hoist(e, h, cx, "np_int_mul_td %s %s" % (it, tt)), TD(u)
        fail(e, "operator on %r and %r" % (lty, rty))

    @staticmethod
    def is_np(f, attr):
        return isinstance(f, ast.Attribute) and isinstance(f.value, ast.Name) and f.value.id == "np" and f.attr == attr

    # ---- calls ------------------------------------------------------------------------
    def call(self, e, env, h, cx):
        f = e.func
        for fn in self.extra_calls:
            r = fn(e, env, h, cx)
            if r is not None:
                return r
        if isinstance(f, ast.Name) and f.id == "int" and len(e.args) == 1 and not e.keywords:
            t, ty = ex(e.args[0], env, h, cx)
            if ty in (U64, I64):
                return t, Z
            if ty == F64I:
                if h is None:
                    fail(e, "int(float) inside a short-circuit/lambda context")
                v = cx.tmp()
                h.pre.append((v, "need EValue %s" % t))        # int(nan): ValueError
                return v, Z
            t, ty = need(t, ty, "int", "EType", h, e)
            if ty != Z:
                fail(e, "int() of %r" % (ty,))
            return t, Z
        if e.keywords:
            return None
        if self.is_np(f, "timedelta64") and len(e.args) == 2:
            u = self.unit(e.args[1], env)
            a = e.args[0]
            if isinstance(a, ast.Constant) and type(a.value) is int and -2 ** 63 < a.value < 2 ** 63:
                return ("%d" % a.value if a.value >= 0 else "(%d)" % a.value), TD(u)
            t, ty = ex(a, env, h, cx)
            t, ty = need(t, ty, "int", "EType", h, e)
            if ty == I64:
                return t, TD(u)
            if ty != Z:
                fail(e, "np.timedelta64 of %r" % (ty,))
            return self.hoist(e, h, cx, "np_timedelta64 %s" % t), TD(u)
        if self.is_np(f, "datetime64") and len(e.args) == 2:
            u = self.unit(e.args[1], env)
            t, ty = ex(e.args[0], env, h, cx)
            if ty == DT(u):
                return t, ty
            fail(e, "np.datetime64 of %r" % (ty,))
        if self.is_np(f, "uint64") and len(e.args) == 1:
            a = e.args[0]
            if isinstance(a, ast.Constant) and type(a.value) is int and 0 <= a.value < 2 ** 64:
                return "%d" % a.value, U64
            t, ty = ex(a, env, h, cx)
            t, ty = need(t, ty, "int", "EType", h, e)
            if ty != Z:
                fail(e, "np.uint64 of %r" % (ty,))
            return self.hoist(e, h, cx, "np_uint64 %s" % t), U64
        if isinstance(f, ast.Name) and f.id in self.struct_pack_names and len(e.args) >= 1 \
                and isinstance(e.args[0], ast.Constant) and isinstance(e.args[0].value, str):
            fmt = e.args[0].value
            if fmt[:1] != "<" or any(c not in STRUCT_CODES for c in fmt[1:]) or len(fmt) - 1 != len(e.args) - 1:
                fail(e, "struct format")
            fields = []
            for c, a in zip(fmt[1:], e.args[1:]):
                t, ty = ex(a, env, h, cx)
                t, ty = need(t, ty, "int", "EType", h, e)
                if ty not in (Z, U64, I64):
                    fail(e, "struct.pack argument of type %r" % (ty,))
                w, sg = STRUCT_CODES[c]
                fields.append("(%d%%nat, %s, %s)" % (w, "true" if sg else "false", t))
            return self.hoist(e, h, cx, "struct_pack_le [%s]" % "; ".join(fields)), BYTES
        # X.astype('timedelta64[{0}]'.format(R))
        if isinstance(f, ast.Attribute) and f.attr == "astype" and len(e.args) == 1:
            a = e.args[0]
            if isinstance(a, ast.Call) and isinstance(a.func, ast.Attribute) and a.func.attr == "format" \
                    and isinstance(a.func.value, ast.Constant) and a.func.value.value == "timedelta64[{0}]" \
                    and len(a.args) == 1 and not a.keywords:
                u = self.unit(a.args[0], env)
                t, ty = ex(f.value, env, h, cx)
                if ty == U64:
                    return "(np_u64_as_i64 %s)" % t, TD(u)     # same-width C cast
                if ty == I64:
                    return t, TD(u)
                fail(e, "astype(timedelta64) of %r" % (ty,))
            fail(e, "astype")
        return None

    # ---- subscripts -------------------------------------------------------------------
    def subscript(self, e, env, h, cx):
        # self['field'] of a structured array: declared in the environment under that key
        if isinstance(e.value, ast.Name) and isinstance(e.slice, ast.Constant) and isinstance(e.slice.value, str):
            k = "%s[%r]" % (e.value.id, e.slice.value)
            if k in env:
                return env[k]
        if isinstance(e.value, ast.Name) and e.value.id in self.tables:
            tb = self.tables[e.value.id]
            kt, kty = ex(e.slice, env, h, cx)
            if kty != ENUM(tb.enum):
                fail(e, "table %s indexed by %r" % (tb.name, kty))
            if not self.total(tb, kty):
                fail(e, "lookup in %s may raise KeyError" % tb.name)
            if tb.coq_fn is None:
                return "tt", OPAQUE
            return "(%s %s)" % (tb.coq_fn, kt), tb.vty
        return None

    def total(self, tb, kty):
        return kty[0] == "enum" and kty[1] in self.enums and set(self.enums[kty[1]]) <= set(tb.keys)

    def list_literal(self, e, env, h, cx):
        """['k1', 'k2'] of keys of one enum -> list of its constructors"""
        if all(isinstance(x, ast.Constant) and isinstance(x.value, str) for x in e.elts):
            for name, m in self.enums.items():
                if all(x.value in m for x in e.elts):
                    return "[" + "; ".join(m[x.value] for x in e.elts) + "]", LIST(ENUM(name))
            fail(e, "list of strings that are not the keys of one enum")
        return None

    # ---- statically decided tests -------------------------------------------------------
    def static_cond(self, test, env, cx):
        for fn in self.extra_static:
            r = fn(test, env, cx)
            if r is not None:
                return r
        if isinstance(test, ast.UnaryOp) and isinstance(test.op, ast.Not):
            r = self.static_cond(test.operand, env, cx)
            return None if r is None else (not r)
        if isinstance(test, ast.Call) and isinstance(test.func, ast.Name) and test.func.id == "isinstance" \
                and len(test.args) == 2 and self.is_np(test.args[1], "datetime64"):
            k = key_of(test.args[0])
            if k in env and env[k][1][0] == "dt":
                return True
            fail(test, "isinstance(.., np.datetime64) on a value of undeclared type")
        if isinstance(test, ast.Compare) and len(test.ops) == 1 and isinstance(test.ops[0], (ast.In, ast.NotIn)) \
                and isinstance(test.comparators[0], ast.Name) and test.comparators[0].id in self.tables:
            tb = self.tables[test.comparators[0].id]
            k = key_of(test.left)
            if k is None or k not in env or env[k][1][0] != "enum" or env[k][1][1] not in self.enums:
                fail(test, "membership test of a value that is not enum-typed")
            univ = set(self.enums[env[k][1][1]])
            if univ <= set(tb.keys):
                r = True
            elif not (univ & set(tb.keys)):
                r = False
            else:
                fail(test, "membership in %s is not decided by the declared enum" % tb.name)
            return r if isinstance(test.ops[0], ast.In) else (not r)
        return None

    def compare(self, e, env, h, cx):
        for fn in self.extra_compare:
            r = fn(e, env, h, cx)
            if r is not None:
                return r
        return None

    def statement(self, s, rest, env, K, sc, cx):
        for fn in self.extra_statements:
            r = fn(s, rest, env, K, sc, cx)
            if r is not None:
                return r
        return None

    def try_total(self, s, env, cx):
        """try: x = TABLE[k] except KeyError: raise ...  with a total lookup -> the body"""
        for fn in self.extra_try:
            if fn(s, env, cx):
                return s.body
        if s.orelse or s.finalbody or len(s.handlers) != 1 or len(s.body) != 1:
            fail(s, "unsupported try statement (shape)")
        hd = s.handlers[0]
        if not (isinstance(hd.type, ast.Name) and hd.type.id == "KeyError" and hd.name is None):
            fail(s, "unsupported try statement (handler)")
        a = s.body[0]
        if not (isinstance(a, ast.Assign) and len(a.targets) == 1 and isinstance(a.targets[0], ast.Name)
                and isinstance(a.value, ast.Subscript) and isinstance(a.value.value, ast.Name)
                and a.value.value.id in self.tables):
            fail(s, "unsupported try statement (body is not a table lookup)")
        tb = self.tables[a.value.value.id]
        k = key_of(a.value.slice)
        if k is None or k not in env or not self.total(tb, env[k][1]):
            fail(s, "unsupported try statement (the lookup may raise KeyError)")
        return s.body


# ---------------------------------------------------------------------------------------
# fixed Gallina text: the meaning of the NumPy / struct primitives (self-tested against the real ones)

PRELUDE = """\
(* ---- the Python / NumPy primitives the translation relies on (fixed text; each one is run
        against the real NumPy / struct on boundary values by the self-test below) ---- *)

Definition need {A} (e : err) (o : option A) : res A :=
  match o with Some a => Ok a | None => Err e end.
Definition is_none {A} (o : option A) : bool :=
  match o with None => true | Some _ => false end.

(* uint64 array / scalar arithmetic wraps modulo 2^64 *)
Definition np_u64 (z : Z) : Z := z mod 2 ^ 64.
(* np.uint64(python int): OverflowError outside the range *)
Definition np_uint64 (v : Z) : res Z := if (0 <=? v) && (v <? 2 ^ 64) then Ok v else Err EOther.
(* uint64 -> timedelta64 / int64: the same 64 bits *)
Definition np_u64_as_i64 (x : Z) : Z := if x <? 2 ^ 63 then x else x - 2 ^ 64.

(* datetime64 / timedelta64: the int64 count, NaT = -2^63.  NumPy (2.x) checks every
   datetime operation: a result outside (-2^63, 2^63) is OverflowError; NaT operands give NaT. *)
Definition NAT64 : Z := - 2 ^ 63.
Definition is_nat (x : Z) : bool := x =? NAT64.
Definition np_chk (x : Z) : res Z := if (- 2 ^ 63 <? x) && (x <? 2 ^ 63) then Ok x else Err EOther.
Definition np_dt_add (a b : Z) : res Z := if is_nat a || is_nat b then Ok NAT64 else np_chk (a + b).
Definition np_dt_sub (a b : Z) : res Z := if is_nat a || is_nat b then Ok NAT64 else np_chk (a - b).
(* NumPy's own units (per second) *)
Definition np_ups (r : resolution) : Z :=
  match r with Rs => 1 | Rms => 1000 | Rus => 1000000 | Rns => 1000000000 end.
(* conversion to a finer (or the same) unit, inserted by NumPy before a mixed-unit operation *)
Definition np_cast (u1 u2 : resolution) (a : Z) : res Z :=
  if is_nat a then Ok NAT64 else np_chk (a * (np_ups u2 / np_ups u1)).
(* timedelta64 // timedelta64 -> int64 (0 with a RuntimeWarning for NaT or a zero divisor) *)
Definition np_td_floordiv (a b : Z) : Z := if is_nat a || is_nat b || (b =? 0) then 0 else a / b.
(* float(int64): round to nearest, ties to even, 53 significant bits (the result is an integer) *)
Definition f64_of_int (a : Z) : Z :=
  let m := Z.abs a in
  if m <? 2 ^ 53 then a else
  let e := Z.log2 m - 52 in
  let q := m / 2 ^ e in
  let r := m mod 2 ^ e in
  let half := 2 ^ (e - 1) in
  let q' := if r <? half then q else if half <? r then q + 1 else if Z.even q then q else q + 1 in
  Z.sgn a * (q' * 2 ^ e).
(* timedelta64 / np.timedelta64(1, same unit) -> float64: nan for NaT *)
Definition np_td_truediv1 (a : Z) : option Z := if is_nat a then None else Some (f64_of_int a).
(* np.timedelta64(python int, unit): OverflowError outside int64 (-2^63 is NaT) *)
Definition np_timedelta64 (v : Z) : res Z :=
  if (- 2 ^ 63 <=? v) && (v <? 2 ^ 63) then Ok v else Err EOther.
(* python int or int64 times timedelta64 *)
Definition np_int_mul_td (k t : Z) : res Z :=
  if (- 2 ^ 63 <=? k) && (k <? 2 ^ 63) then (if is_nat t then Ok NAT64 else np_chk (k * t)) else Err EOther.

(* struct.pack('<...', v1, v2, ..): (width, signed, value) per field; struct.error outside the field *)
Definition pack_field (w : nat) (sg : bool) (v : Z) : res bytes :=
  let m := 256 ^ Z.of_nat w in
  if sg then (if (- (m / 2) <=? v) && (v <? m / 2) then Ok (s_enc LE w v) else Err EStruct)
  else (if (0 <=? v) && (v <? m) then Ok (u_enc LE w v) else Err EStruct).
Fixpoint struct_pack_le (fs : list (nat * bool * Z)) : res bytes :=
  match fs with
  | [] => Ok []
  | (w, sg, v) :: r => do b <- pack_field w sg v; do rest <- struct_pack_le r; Ok (b ++ rest)
  end.
"""
