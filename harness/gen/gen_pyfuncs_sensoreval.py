#!/venv/bin/python
"""Fail-closed translator: the `scale` methods of the SENSOR scaling classes of npTDMS
-> coq/theories/Gen/PyFuncsSensorEval.v (+ the self-test coq/theories/Gen/PyFuncsSensorEvalTest.v)

Translated with Python `ast` (harness/gen/py2gallina.py + harness/gen/scale_sem.py; nptdms is imported only
for the self-test), from nptdms/scaling.py:

  _adjust_for_lead_resistance (the 3-wire test first, then current excitation and 2-wire, else unchanged)
  RtdScaling.scale        (V / I, lead compensation with CURRENT_EXCITATION, the branch test r_t >= r_0 PER ELEMENT,
                           the quadratic form, the loop over the other elements calling _solve_quartic_form)
  StrainScaling.scale     (initial bridge voltage, the dispatch on the bridge configuration, every formula with
                           its operand order, in-place statements on the fresh copy only)
  ThermistorScaling.scale (the dispatch on the excitation type, the voltage-divider formula, lead compensation with
                           the object's own excitation type, the coefficient list [a, b, 0.0, c] handed to polyval
                           of log(r_t), reciprocal, minus the temperature offset)
  ThermocoupleScaling.scale (float64 first, direction == 1: 1000.0 * celsius_to_mv(data), else
                           mv_to_celsius(data / 1000.0) on a NEW array)

Conventions: harness/gen/scale_sem.py.  The attributes of the sensor objects hold whatever the properties held
(ScaleGraph.pval, see gen_pyfuncs_scaleeval.py): a use as a number is py_float_of_pval (another Python type: outside
the model, Err EOther), `attr == <int>` is pval_eq_int, `attr != 0.0` is pval_eq_float.
What has no binary64 model in Coq is a Section variable: np_exp, np_log (one element), py_pow2 (`a ** 2` on a Python
float is libm's pow, not a*a: Model/SensorsF.v), np_uninit (what np.sqrt(.., where=mask) leaves in the positions
it does not compute: an uninitialised buffer), solve_quartic_form (RtdScaling._solve_quartic_form: numpy's
polyroots).  The module-level thermocouple objects are the translated constructors of PyFuncsThermoEval applied to
the tables gen_thermo.py generates (thermocouple_object, fixed text).

Anything unrecognised: message on stderr, exit 1, nothing written.
"""
import ast
import os
import sys

HERE = os.path.dirname(os.path.abspath(__file__))
sys.path.insert(0, HERE)
import py2gallina as T                                             # noqa: E402
from py2gallina import Z, LIST                                      # noqa: E402
import np_sem as N                                                 # noqa: E402
import scale_sem as S                                              # noqa: E402
from scale_sem import F64, PVAL, ARR, FARR, BARR                     # noqa: E402
import gen_pyfuncs_scaleeval as W1                                 # noqa: E402

VERIF = os.path.dirname(os.path.dirname(HERE))
REPO = os.environ.get("NPTDMS_REPO", "/repo")
OUT = os.path.join(VERIF, "coq", "theories", "Gen", "PyFuncsSensorEval.v")
OUT_TEST = os.path.join(VERIF, "coq", "theories", "Gen", "PyFuncsSensorEvalTest.v")
ME = "gen_pyfuncs_sensoreval"
TC = N.ENUM("tctype")
CONSTANTS = {"VOLTAGE_EXCITATION": 10322, "CURRENT_EXCITATION": 10134}


def die(msg):
    sys.stderr.write("%s: UNSUPPORTED / unrecognised source, nothing written: %s\n" % (ME, msg))
    sys.exit(1)


def unp(n):
    return ast.unparse(n)


PRELUDE = S.PRELUDE_COMMON + """\
(* float(v) of an attribute that holds a property value (another Python type: outside the model) *)
Definition py_float_of_pval (v : ScaleGraph.pval) : res float :=
  match v with ScaleGraph.PFloat f => Ok f | _ => Err EOther end.
(* v == k for a property value and an int / a float (Python compares numbers by value; a str is never equal) *)
Definition pval_eq_int (v : ScaleGraph.pval) (k : Z) : bool :=
  match v with
  | ScaleGraph.PInt z => z =? k
  | ScaleGraph.PFloat f => (f =? ScaleGraph.Z2f k)%float
  | ScaleGraph.PStr _ => false
  end.
Definition pval_eq_float (v : ScaleGraph.pval) (k : float) : bool :=
  match v with
  | ScaleGraph.PInt z => (ScaleGraph.Z2f z =? k)%float
  | ScaleGraph.PFloat f => (f =? k)%float
  | ScaleGraph.PStr _ => false
  end.
(* l[i] = x on a 1-D array: negative indices wrap once, IndexError outside *)
Definition py_setitem {A} (l : list A) (i : Z) (x : A) : res (list A) :=
  let len := Z.of_nat (List.length l) in
  let i' := if i <? 0 then i + len else i in
  if (0 <=? i') && (i' <? len)
  then Ok (List.firstn (Z.to_nat i') l ++ x :: List.skipn (S (Z.to_nat i')) l)%list else Err EIndex.
(* np.where(mask)[0]: the indices where the mask holds *)
Fixpoint np_where_from (i : Z) (m : list bool) : list Z :=
  match m with [] => [] | b :: r => if b then i :: np_where_from (i + 1) r else np_where_from (i + 1) r end.
Definition np_where_true (m : list bool) : list Z := np_where_from 0 m.
(* np.sqrt(x, where=mask): computed where the mask holds; the other positions of the new array are whatever the
   uninitialised buffer holds (u) *)
Definition np_sqrt_where (x : list float) (m : list bool) (u : float) : res (list float) :=
  if Nat.eqb (List.length x) (List.length m)
  then Ok (List.map (fun p : float * bool => if snd p then PrimFloat.sqrt (fst p) else u) (List.combine x m)) else Err EValue.
(* the module-level objects  type_x = Thermocouple(forward_polynomials=[Polynomial(applicable_range=Range(a, b),
   coefficients=[..]), ..], inverse_polynomials=[..], exponential_term=..): the translated constructors applied to
   the generated tables *)
Definition polynomial_object (pc : pieceF) : res polynomial_py :=
  let '(s, e, cs) := pc in do r <- Range_new_gen s e; Polynomial_new_gen r cs.
Definition thermocouple_object (T : tctype) : res thermocouple_py :=
  do f <- mapM polynomial_object (code_fwdF T); do i <- mapM polynomial_object (code_invF T);
  Thermocouple_new_gen f i (code_expF T).
"""


def translate():
    path = os.path.join(REPO, "nptdms", "scaling.py")
    try:
        tree = ast.parse(open(path).read())
    except (OSError, SyntaxError) as e:
        die("cannot read/parse %s: %s" % (path, e))
    S.install()
    for name, val in CONSTANTS.items():
        if W1.module_int(tree, name) != val:
            die("%s is no longer %d" % (name, val))
    cx = T.Cx({}, {}, {}, {})
    cx.kwcalls = True
    cx.str_consts = True
    cx.try_catch = True
    sem = S.ScaleSem()
    sem.float_funs = {"exp": "np_exp", "log": "np_log", "pow2": "py_pow2"}
    cx.np = sem
    for name, val in CONSTANTS.items():
        cx.globals[name] = ("%d" % val, Z)
    T.EXTRA_COERCIONS[(Z, PVAL)] = "(ScaleGraph.PInt %s)"
    defs = cx.defs
    sigs = {}
    classes = {}
    for cn in W1.SENSORS:
        node = W1.find_class(tree, cn)
        init = W1.method(node, "__init__")
        order = [k[5:] for k in T.assigned_keys(init.body) if k.startswith("self.")]
        if sorted(order) != sorted(W1.ATTRS[cn]):
            die("%s.__init__ assigns %s, declared are %s" % (cn, order, sorted(W1.ATTRS[cn])))
        classes[cn] = dict(node=node, attrs=order)
        for n in node.body:
            if isinstance(n, ast.Assign) and len(n.targets) == 1 and isinstance(n.targets[0], ast.Name) \
                    and isinstance(n.value, ast.Constant) and type(n.value.value) is int:
                cx.globals["%s.%s" % (cn, n.targets[0].id)] = ("%d" % n.value.value, Z)

    defs.append("Section Sensors.\n"
                "(* one-element functions with no binary64 model in Coq, and the two unknowns of RtdScaling.scale *)\n"
                "Variable np_exp : float -> float.\nVariable np_log : float -> float.\nVariable py_pow2 : float -> float.\n"
                "Variable np_uninit : float.\n"
                "(* RtdScaling._solve_quartic_form(self, r_t) of the object at hand *)\n"
                "Variable solve_quartic_form : float -> res float.")

    # ---- _adjust_for_lead_resistance
    f = W1.find_def(tree, "_adjust_for_lead_resistance")
    pn = [a.arg for a in f.args.args]
    if pn != ["measured_resistance", "excitation_type", "resistance_configuration", "lead_wire_resistance"]:
        die("signature of _adjust_for_lead_resistance")
    ptys = [FARR, PVAL, PVAL, PVAL]
    S.check_inplace(f, "_adjust_for_lead_resistance")
    rty = T.function(cx, "adjust_for_lead_resistance_gen", f.body, list(zip(pn, ptys)), {n: (n, t) for n, t in zip(pn, ptys)}, [],
                     W1.comment_of(None, f))
    if rty != FARR:
        die("_adjust_for_lead_resistance returns %r" % (rty,))
    cx.callees["_adjust_for_lead_resistance"] = ("adjust_for_lead_resistance_gen", ptys, FARR, [])
    sigs["_adjust_for_lead_resistance"] = 1

    def calls(e, env, h, cx_):
        fn = e.func
        kw = {k.arg: k.value for k in e.keywords}
        if unp(fn) == "self._solve_quartic_form" and len(e.args) == 1 and not kw:
            t, ty = T.ex(e.args[0], env, h, cx_)
            if ty != F64:
                T.fail(e, "_solve_quartic_form(%r)" % (ty,))
            return sem.hoist(e, h, cx_, "solve_quartic_form %s" % t), F64
        if unp(fn) == "np.sqrt" and len(e.args) == 1 and set(kw) == {"where"}:
            x, xty = T.ex(e.args[0], env, h, cx_)
            m, mty = T.ex(kw["where"], env, h, cx_)
            if xty != FARR or mty != BARR:
                T.fail(e, "np.sqrt(%r, where=%r)" % (xty, mty))
            return sem.hoist(e, h, cx_, "np_sqrt_where %s %s np_uninit" % (x, m)), FARR
        if isinstance(fn, ast.Attribute) and fn.attr in ("celsius_to_mv", "mv_to_celsius") and unp(fn.value) == "self.thermocouple" \
                and len(e.args) == 1 and not kw:
            o, oty = T.ex(fn.value, env, h, cx_)
            a, aty = T.ex(e.args[0], env, h, cx_)
            if oty != TC or aty != FARR:
                T.fail(e, "%s of %r on %r" % (fn.attr, aty, oty))
            obj = sem.hoist(e, h, cx_, "thermocouple_object %s" % o)
            if fn.attr == "celsius_to_mv":
                return sem.hoist(e, h, cx_, "Thermocouple_celsius_to_mv_gen np_exp %s %s" % (obj, a)), FARR
            return sem.hoist(e, h, cx_, "Thermocouple_mv_to_celsius_gen %s %s" % (obj, a)), FARR
        return None
    sem.extra_calls.append(calls)

    old_sub = sem.subscript

    def subscript(e, env, h, cx_):
        # np.where(mask)[0]
        if isinstance(e.value, ast.Call) and unp(e.value.func) == "np.where" and len(e.value.args) == 1 and not e.value.keywords \
                and isinstance(e.slice, ast.Constant) and e.slice.value == 0:
            m, mty = T.ex(e.value.args[0], env, h, cx_)
            if mty != BARR:
                T.fail(e, "np.where(%r)" % (mty,))
            return "(np_where_true %s)" % m, LIST(Z)
        return old_sub(e, env, h, cx_)
    sem.subscript = subscript

    def statements(s, rest, env, K, sc, cx_):
        # arr[i] = x on a float64 array variable (a fresh buffer: check_inplace)
        if isinstance(s, ast.Assign) and len(s.targets) == 1 and isinstance(s.targets[0], ast.Subscript) \
                and isinstance(s.targets[0].value, ast.Name) and s.targets[0].value.id in env \
                and env[s.targets[0].value.id][1] == FARR:
            v = s.targets[0].value.id
            h = T.Hoist()
            h.cx = cx_
            t, ty = T.ex(s.value, env, h, cx_)
            if ty != F64:
                T.fail(s, "array element of type %r" % (ty,))
            i = T.as_int(s.targets[0].slice, env, h, cx_)
            env2 = dict(env)
            env2[v] = (T.cname(v), FARR)
            return T.wrap(h.pre, "do %s <- py_setitem %s %s %s;\n" % (T.cname(v), env[v][0], i, t)) + T.block(rest, env2, K, sc, cx_)
        return None
    sem.extra_statements.append(statements)

    scale_rty = {}
    for cn, c in classes.items():
        sc = W1.method(c["node"], "scale")
        pn = [a.arg for a in sc.args.args]
        if pn != ["self", "data"]:
            die("signature of %s.scale" % cn)
        S.check_inplace(sc, "%s.scale" % cn)
        check_item_assign(sc, "%s.scale" % cn)
        attrs = W1.ATTRS[cn]
        params = [(T.cname("self." + a), attrs[a]) for a in c["attrs"]] + [("data", ARR)]
        env0 = {"self." + a: (T.cname("self." + a), attrs[a]) for a in c["attrs"]}
        env0["data"] = ("data", ARR)
        rty = T.function(cx, "%s_scale_gen" % cn, sc.body, params, env0, [], W1.comment_of(cn, sc))
        if rty != FARR:
            die("%s.scale returns %r" % (cn, rty))
        scale_rty[cn] = rty
        sigs["%s.scale" % cn] = 1
    defs.append("End Sensors.")
    return cx, sigs, classes


def check_item_assign(fn, where):
    """`x[i] = v` only on an array variable bound to a fresh arithmetic result (never the parameter or a view)"""
    params = {a.arg for a in fn.args.args}
    fresh = set()
    for n in ast.walk(fn):
        if isinstance(n, ast.Assign) and len(n.targets) == 1 and isinstance(n.targets[0], ast.Name):
            if isinstance(n.value, (ast.BinOp, ast.UnaryOp)):
                fresh.add(n.targets[0].id)
            else:
                fresh.discard(n.targets[0].id)
    for n in ast.walk(fn):
        if isinstance(n, ast.Assign) and len(n.targets) == 1 and isinstance(n.targets[0], ast.Subscript):
            v = n.targets[0].value
            if not isinstance(v, ast.Name) or v.id in params or v.id not in fresh:
                T.fail(n, "%s: element assignment into something that is not a freshly computed array" % where)


def header():
    return ("(* GENERATED by harness/gen/gen_pyfuncs_sensoreval.py from nptdms/scaling.py -- do not edit.\n"
            "   Shallow monadic translation of the scale methods of the sensor scaling classes; see the script and\n"
            "   harness/gen/scale_sem.py for the conventions. *)\n"
            "From Coq Require Import String.\n"
            "From Coq Require Import ZArith List Bool PrimFloat.\n"
            "Import ListNotations.\n"
            "From NpTdms Require Import Base.Res Base.PySlice Gen.ThermoTables Gen.PyFuncsScaling Gen.PyFuncsThermoEval.\n"
            "From NpTdms Require Model.ScaleGraph.\n"
            "Local Open Scope Z_scope.\n\n")


def write_if_changed(path, text):
    old = None
    try:
        old = open(path).read()
    except OSError:
        pass
    if old != text:
        tmp = path + ".tmp.%d" % os.getpid()
        with open(tmp, "w") as fh:
            fh.write(text)
        os.replace(tmp, path)
        print("%s: wrote %s" % (ME, os.path.relpath(path, VERIF)))
    else:
        print("%s: %s up to date" % (ME, os.path.relpath(path, VERIF)))


def main():
    try:
        cx, sigs, classes = translate()
    except T.Unsupported as e:
        die(str(e))
    text = header() + PRELUDE.replace(S.PRELUDE_COMMON, "") + "\n" + "\n\n".join(cx.defs) + "\n"
    if "--no-selftest" in sys.argv:
        write_if_changed(OUT, text)
        return
    import sensoreval_selftest
    st_text, counts = sensoreval_selftest.selftest(REPO, die)
    write_if_changed(OUT, text)
    write_if_changed(OUT_TEST, st_text)
    print("%s: %d items translated; self-test cases: %s"
          % (ME, len(sigs), ", ".join("%s %d" % kv for kv in counts.items())))


if __name__ == "__main__":
    main()
