#!/venv/bin/python
"""Fail-closed translator: the SEGMENT LOOP of the lazy per-channel read
-> coq/theories/Gen/PyFuncsLazyLoop.v (definitions + self-test `Example`s)

Translated with Python `ast` on top of the lazy-index driver (its context -- attribute table, _build_index, the window
arithmetic, _trim_channel_chunk, the hooks for the index table -- is built IN THIS PROCESS by calling that driver's
translate(); nothing of harness/gen is modified; definitions the other drivers emit are NOT re-emitted, the generated
file imports them):

  nptdms/reader.py   TdmsReader.read_raw_data_for_channel, the WHOLE generator: open / metadata guards, the index table
                     lookup with _build_index on a miss, the window arithmetic, start / end segment search, the loop over
                     self._segments[start_segment:end_segment + 1] (tag check, per-segment chunk range, the inner loop
                     over the segment's chunk generator with skip / trim / values_read accounting, _trim_channel_chunk)

Conventions (in addition to those of gen_pyfuncs_reader.py / gen_pyfuncs_lazyidx.py).
 * A GENERATOR is the list of values it yields when it is run to its end, together with the state (index table, file)
   afterwards.  The loop body does no I/O of its own between two chunks of a segment's generator, so the order of the
   reads does not depend on when the consumer asks for the next chunk, as long as the consumer does not use the file
   between two chunks.  Consumers covered: TdmsChannel._read_channel_data (read_data, slices: appends every chunk to a
   receiver), TdmsChannel._read_channel_data_chunks / data_chunks run to the end.  NOT covered: a consumer that abandons
   the generator early (read_channel_chunk_for_index takes one chunk with next(); translated separately in
   PyFuncsLazyIdx.v) -- it sees a prefix of the list and of the reads.
 * File I/O is a parameter of the generated Section, over an abstract file state F threaded through every call:
     io_verify f j          = self._verify_segment_start(segment)           (j: the segment's position, see below)
     io_chunks f j s co nc  = list(s.read_raw_data_for_channel(self._file, channel_path, co, nc)) and the file after it
   (the segment generator itself is translated on bytes in the companion file PyFuncsLazySeg.v).  A raw channel chunk is
   represented by its .data (a list of values); len(chunk) is len(chunk.data) (RawChannelDataChunk.__len__ for a chunk
   with data; checked on the AST), _trim_channel_chunk is the translated trim_channel_chunk_gen.
 * `for segment_index, segment in enumerate(L, start_segment)` is read as
   `for k, segment in enumerate(L): segment_index = start_segment + k` (the definition of enumerate's start argument).
   segment_index is also the segment's position in self._segments, because L = self._segments[start_segment:..] and
   start_segment >= 0 (first_segment >= 0 and np.searchsorted >= 0): element k of the slice is element start_segment + k.
 * The chunk arithmetic of the loop body (from `chunk_offset = 0` to the inner loop) is NOT re-translated: it is the
   fragment gen_pyfuncs_reader.py translates (read_chunk_range_gen of PyFuncsReader.v, `continue` = None); this
   driver checks that the loop body is exactly: tag check, that fragment (statement by statement), the inner loop, and that
   the inner loop uses nothing of the fragment but (chunk_offset, num_chunks, remaining_values_to_skip).
 * object_metadata = self.object_metadata[channel_path] is represented by its num_values (KeyError when absent).
 * self._ensure_open() is the precondition "the reader is open".

Self-test: `Example`s with the results of the REAL TdmsReader.read_raw_data_for_channel on real FILES built with
harness/lazygen.py (several segments, channels absent from segments, truncated last chunks, interleaved segments): the
real generator is run by list(..) with a recording stand-in for the segment generator only (it calls the real segment
generator and logs (segment position, chunk_offset, num_chunks) and the chunks it yields); the translated function is run
with io_chunks replaying that log.

Anything unrecognised: message on stderr, exit 1, nothing written.
"""
import ast
import os
import sys

HERE = os.path.dirname(os.path.abspath(__file__))
sys.path.insert(0, HERE)
import py2gallina as T                                             # noqa: E402
from py2gallina import Z, B, NONE, BYTES, OPT, LIST, TUP, REC       # noqa: E402
import np_sem as N                                                 # noqa: E402
import gen_pyfuncs_reader as R                                     # noqa: E402
import gen_pyfuncs_lazyidx as L                                    # noqa: E402

VERIF = os.path.dirname(os.path.dirname(HERE))
REPO = os.environ.get("NPTDMS_REPO", "/repo")
OUT = os.path.join(VERIF, "coq", "theories", "Gen", "PyFuncsLazyLoop.v")       # Gen/PyFuncsLazyLoop.v
ME = "gen_pyfuncs_lazyloop"

SOBJ, SEGMENT = REC("sobj"), REC("segment")
TV, TF = ("tyvar", "V"), ("tyvar", "F")
OMETA = REC("ometa")
TBL = L.TBL
unp = ast.unparse
MARK = "read_chunk_range_fragment"
ENUM_K = "enum_k"


def die(msg):
    sys.stderr.write("%s: UNSUPPORTED / unrecognised source, nothing written: %s\n" % (ME, msg))
    sys.exit(1)


SECTION_OPEN = """\
(* ---- the generator reads the file through two primitives: the I/O is a parameter ---- *)
Section LazyLoopGen.
(* F: state of the open file; V: a value of a raw channel chunk (a chunk is the list of its values) *)
Variable F V : Type.
(* self._verify_segment_start(segment), segment = self._segments[j] *)
Variable io_verify : F -> Z -> res F.
(* list(segment.read_raw_data_for_channel(self._file, channel_path, chunk_offset, num_chunks)), segment = self._segments[j] *)
Variable io_chunks : F -> Z -> segment -> Z -> Z -> res (list (list V) * F)."""
SECTION_CLOSE = "End LazyLoopGen."


def translate_segment_window(cx_r):
    """nptdms/tdms_segment.py TdmsSegment.read_raw_data_for_channel up to the delegation to _read_channel_data_chunks, as
    integer arithmetic on the file POSITION: f.seek(p) sets it, f.seek(d, os.SEEK_CUR) adds to it; the empty chunk
    yielded for a segment without kTocRawData is counted.  Result: the arguments (chunk_offset, stop_chunk, chunk_size)
    _read_channel_data_chunks is called with, the file position at that moment, the number of empty chunks yielded."""
    _, tree = L.parse("tdms_segment.py")
    f = L.find(tree, "read_raw_data_for_channel", "TdmsSegment", defaults_ok=True)
    if [a.arg for a in f.args.args] != ["self", "f", "channel_path", "chunk_offset", "num_chunks"] \
            or [unp(d) for d in f.args.defaults] != ["0", "None"]:
        die("signature of TdmsSegment.read_raw_data_for_channel")
    body = [s_ for s_ in f.body if not T.is_skip(s_)]
    for n in ast.walk(f):
        if isinstance(n, ast.Name) and n.id in ("file_pos", "empty_chunks"):
            die("the source uses the name %s" % n.id)
    out = []
    for i, s_ in enumerate(body):
        u = unp(s_)
        if isinstance(s_, ast.If) and len(s_.body) == 1 and not s_.orelse and unp(s_.body[0]) == "yield RawChannelDataChunk.empty()":
            s2 = ast.If(test=s_.test, body=ast.parse("empty_chunks = empty_chunks + 1").body, orelse=[])
            out.append(ast.copy_location(s2, s_))
        elif isinstance(s_, ast.Expr) and isinstance(s_.value, ast.Call) and unp(s_.value.func) == "f.seek" and not s_.value.keywords:
            a = s_.value.args
            if len(a) == 1:
                s2 = ast.Assign(targets=[ast.Name(id="file_pos", ctx=ast.Store())], value=a[0])
            elif len(a) == 2 and unp(a[1]) == "os.SEEK_CUR":
                s2 = ast.Assign(targets=[ast.Name(id="file_pos", ctx=ast.Store())],
                                value=ast.BinOp(left=ast.Name(id="file_pos", ctx=ast.Load()), op=ast.Add(), right=a[0]))
            else:
                die("TdmsSegment.read_raw_data_for_channel: unsupported seek: %s" % u)
            out.append(ast.copy_location(s2, s_))
        elif isinstance(s_, ast.If) and not s_.orelse and all(
                isinstance(b_, ast.Expr) and isinstance(b_.value, ast.Call) and unp(b_.value.func) == "f.seek" for b_ in s_.body):
            inner = []
            for b_ in s_.body:
                a = b_.value.args
                if len(a) == 2 and unp(a[1]) == "os.SEEK_CUR" and not b_.value.keywords:
                    inner.append(ast.Assign(targets=[ast.Name(id="file_pos", ctx=ast.Store())],
                                            value=ast.BinOp(left=ast.Name(id="file_pos", ctx=ast.Load()), op=ast.Add(), right=a[0])))
                elif len(a) == 1 and not b_.value.keywords:
                    inner.append(ast.Assign(targets=[ast.Name(id="file_pos", ctx=ast.Store())], value=a[0]))
                else:
                    die("TdmsSegment.read_raw_data_for_channel: unsupported seek: %s" % unp(b_))
            out.append(ast.copy_location(ast.If(test=s_.test, body=inner, orelse=[]), s_))
        elif isinstance(s_, ast.For):
            want = ("for chunk in self._read_channel_data_chunks(f, self._get_data_objects(), channel_path, chunk_offset, "
                    "stop_chunk, chunk_size):\n    yield chunk")
            if u != want or i != len(body) - 1:
                die("TdmsSegment.read_raw_data_for_channel: the function does not end with the plain delegation\n%s" % want)
            out.append(ast.copy_location(ast.parse("return (chunk_offset, stop_chunk, chunk_size, file_pos, empty_chunks)").body[0], s_))
        elif isinstance(s_, ast.Assign) and not any(isinstance(n, ast.Name) and n.id == "f" for n in ast.walk(s_)):
            out.append(s_)
        else:
            die("TdmsSegment.read_raw_data_for_channel: unsupported statement: %s" % u)
    if not out or not isinstance(out[-1], ast.Return):
        die("TdmsSegment.read_raw_data_for_channel: no delegation to _read_channel_data_chunks")
    ast.fix_missing_locations(ast.Module(body=out, type_ignores=[]))
    params = [("self", SEGMENT), ("file_pos", Z), ("chunk_offset", Z), ("num_chunks", OPT(Z))]
    env0 = {"self": ("self", SEGMENT), "file_pos": ("file_pos", Z), "chunk_offset": ("chunk_offset", Z),
            "num_chunks": ("num_chunks", OPT(Z)), "empty_chunks": ("0", Z)}
    for m in R.MEMO:
        env0["self." + m] = ("None", NONE)
    n0 = len(cx_r.defs)
    cx_r.n_loop = 0
    T.function(cx_r, "segment_channel_window_gen", out, params, env0, [],
               L.comment_of("tdms_segment.py", f) +
               "     read as arithmetic on the file position: f.seek(p) is file_pos = p, f.seek(d, os.SEEK_CUR) is file_pos += d,\n"
               "     the empty chunk yielded without kTocRawData is counted in empty_chunks; the result is the argument tuple of the\n"
               "     final delegation `for chunk in self._read_channel_data_chunks(f, .., chunk_offset, stop_chunk, chunk_size): yield chunk`,\n"
               "     the file position at that moment and the number of empty chunks\n%s\n"
               % "\n".join("     " + l for s_ in out for l in unp(s_).split("\n")))
    return cx_r.defs[n0:]


def translate():
    R.die = die
    L.die = die
    L.ME = ME
    cx_r, _, _ = R.translate()
    frag_r, frag_params = cx_r.fragments["read_chunk_range"]
    seg_defs = translate_segment_window(cx_r)
    cx, sigs = L.translate()
    sem = cx.np
    n0 = len(cx.defs)
    src, tree = L.parse("reader.py")

    # ---- RawChannelDataChunk.__len__: len(self.data) when the chunk has data
    _, tree_b = L.parse("base_segment.py")
    ln = L.find(tree_b, "__len__", "RawChannelDataChunk")
    lb = [s for s in ln.body if not T.is_skip(s)]
    if not (lb and isinstance(lb[0], ast.If) and unp(lb[0].test) == "self.data is not None"
            and [unp(s) for s in lb[0].body] == ["return len(self.data)"]):
        die("RawChannelDataChunk.__len__ does not start with `if self.data is not None: return len(self.data)`")

    f = L.find(tree, "read_raw_data_for_channel", "TdmsReader", defaults_ok=True)
    if [a.arg for a in f.args.args] != ["self", "channel_path", "offset", "length"] or [unp(d) for d in f.args.defaults] != ["0", "None"]:
        die("signature of read_raw_data_for_channel")
    body = [s for s in f.body if not T.is_skip(s)]
    loops = [i for i, s in enumerate(body) if isinstance(s, ast.For)]
    if len(loops) != 1 or loops[0] != len(body) - 1:
        die("read_raw_data_for_channel: the function must end with its single loop over the segments")
    loop = body[-1]
    want_iter = "enumerate(self._segments[start_segment:end_segment + 1], start_segment)"
    if unp(loop.iter) != want_iter or unp(loop.target) != "(segment_index, segment)" or loop.orelse:
        die("read_raw_data_for_channel: the segment loop is not `for segment_index, segment in %s`" % want_iter)
    for n in ast.walk(f):
        if isinstance(n, ast.Name) and n.id in (ENUM_K, MARK):
            die("the source uses the name %s" % n.id)
    lbody = [s for s in loop.body if not T.is_skip(s)]
    # shape of the loop body: tag check, the fragment of gen_pyfuncs_reader.py, the inner loop
    if not lbody or unp(lbody[0]) != "self._verify_segment_start(segment)":
        die("segment loop: the first statement is not self._verify_segment_start(segment)")
    if not isinstance(lbody[-1], ast.For):
        die("segment loop: the last statement is not the inner loop over the segment's chunks")
    inner = lbody[-1]
    frag = lbody[1:-1]
    if [unp(s) for s in frag] != [unp(s) for s in frag_r if not T.is_skip(s)]:
        die("segment loop: between the tag check and the inner loop there is not exactly the fragment that "
            "gen_pyfuncs_reader.py translates as read_chunk_range_gen")
    if frag_params != ["segment", "channel_path", "segment_offsets", "first_segment", "start_segment", "end_segment", "offset",
                       "end_index", "segment_index"]:
        die("parameters of read_chunk_range_gen: %r" % (frag_params,))
    want_inner = "enumerate(segment.read_raw_data_for_channel(self._file, channel_path, chunk_offset, num_chunks))"
    if unp(inner.iter) != want_inner or unp(inner.target) != "(i, chunk)" or inner.orelse:
        die("segment loop: the inner loop is not `for i, chunk in %s`" % want_inner)
    outs = ["chunk_offset", "num_chunks", "remaining_values_to_skip"]
    frag_assigned = set(T.assigned_keys(frag))
    used = {n.id for s in inner.body for n in ast.walk(s) if isinstance(n, ast.Name) and isinstance(n.ctx, ast.Load)}
    leak = (used & frag_assigned) - set(outs)
    if leak:
        die("segment loop: the inner loop uses %r of the chunk arithmetic besides %r" % (sorted(leak), outs))
    # nothing after the loop, the loop variables of the fragment do not escape: checked by shape (the loop is last)

    # ---- the rewritten loop
    verify = lbody[0]
    T.EXTRA_ASSIGNS[id(verify)] = ["self._file"]
    # (the marker names the fragment's free variables, so that the loop translation passes them to the loop function)
    mark = ast.Expr(value=ast.Call(func=ast.Name(id=MARK, ctx=ast.Load()),
                                   args=[ast.Name(id=p_, ctx=ast.Load()) for p_ in frag_params], keywords=[]))
    T.EXTRA_ASSIGNS[id(mark)] = ["self._file"]
    set_idx = ast.parse("segment_index = start_segment + %s" % ENUM_K).body[0]
    new_loop = ast.For(target=ast.Tuple(elts=[ast.Name(id=ENUM_K, ctx=ast.Store()), ast.Name(id="segment", ctx=ast.Store())],
                                        ctx=ast.Store()),
                       iter=ast.Call(func=ast.Name(id="enumerate", ctx=ast.Load()), args=[loop.iter.args[0]], keywords=[]),
                       body=[set_idx, verify, mark, inner], orelse=[])
    ast.copy_location(new_loop, loop)
    stmts = body[:-1] + [new_loop]
    ast.fix_missing_locations(ast.Module(body=stmts, type_ignores=[]))

    def statements(s, rest, env, K, sc, cx_):
        if "<lazyloop>" not in env:
            return None
        if isinstance(s, ast.Expr) and unp(s.value) == "self._ensure_open()":
            return T.block(rest, env, K, sc, cx_)
        if s is verify:
            env2 = dict(env)
            env2["self._file"] = ("self__file", TF)
            return ("do self__file <- io_verify %s %s;\n" % (env["self._file"][0], env["segment_index"][0])) \
                + T.block(rest, env2, K, sc, cx_)
        if s is mark:
            if sc.nojump or sc.cont is None:
                T.fail(s, "the chunk arithmetic fragment outside a loop")
            args = " ".join(env[p][0] for p in frag_params)
            for p in frag_params:
                want = {"segment": SEGMENT, "channel_path": BYTES, "segment_offsets": LIST(Z)}.get(p, Z)
                if env[p][1] != want:
                    T.fail(s, "argument %s of read_chunk_range_gen has type %r" % (p, env[p][1]))
            v = cx_.tmp()
            env2 = dict(env)
            for o in outs:
                env2[o] = (T.cname(o), Z)
            return ("do %s <- read_chunk_range_gen %s;\nmatch %s with\n| None =>\n%s\n| Some (%s) =>\n%s\nend"
                    % (v, args, v, T.ind(sc.cont(env)), ", ".join(outs), T.ind(T.block(rest, env2, K, sc, cx_))))
        # object_metadata = self.object_metadata[channel_path]
        if isinstance(s, ast.Assign) and unp(s) == "object_metadata = self.object_metadata[channel_path]":
            env2 = dict(env)
            env2["object_metadata"] = ("object_metadata", OMETA)
            return ("do object_metadata <- need EKey (alookup %s %s);\n" % (env["channel_path"][0], env["self.object_metadata"][0])) \
                + T.block(rest, env2, K, sc, cx_)
        return None

    def calls(e, env, h, cx_):
        if "<lazyloop>" not in env:
            return None
        if unp(e) == "segment.read_raw_data_for_channel(self._file, channel_path, chunk_offset, num_chunks)":
            if h is None:
                T.fail(e, "file read inside a short-circuit/lambda context")
            if env["segment"][1] != SEGMENT:
                T.fail(e, "segment is not a segment")
            co = T.as_int(e.args[2], env, h, cx_)
            nc = T.as_int(e.args[3], env, h, cx_)
            v = cx_.tmp()
            h.pre.append(("'(%s, self__file)" % v, "io_chunks %s %s %s %s %s"
                          % (env["self._file"][0], env["segment_index"][0], env["segment"][0], co, nc)))
            return v, LIST(LIST(TV))
        # _trim_channel_chunk(chunk, skip, trim) on a chunk represented by its .data
        if unp(e.func) == "_trim_channel_chunk" and len(e.args) == 3 and not e.keywords:
            c, cty = T.ex(e.args[0], env, h, cx_)
            if cty != LIST(TV):
                T.fail(e, "_trim_channel_chunk of %r" % (cty,))
            a = T.as_int(e.args[1], env, h, cx_)
            b = T.as_int(e.args[2], env, h, cx_)
            return sem.hoist(e, h, cx_, "trim_channel_chunk_gen V %s %s %s" % (c, a, b)), LIST(TV)
        return None

    sem.extra_statements.insert(0, statements)
    sem.extra_calls.insert(0, calls)
    T_coqty = T.coqty

    def coqty2(t):
        if t == OMETA:
            return "Z"
        return T_coqty(t)
    T.coqty = coqty2
    try:
        cx.defs.append(SECTION_OPEN)
        cx.n_loop = 0
        params = [("self__segments", OPT(LIST(SEGMENT))), ("self__segment_channel_offsets", TBL),
                  ("self_object_metadata", ("adict", OMETA)), ("self__file", TF),
                  ("channel_path", BYTES), ("offset", Z), ("length", OPT(Z))]
        env0 = {"self._segments": ("self__segments", OPT(LIST(SEGMENT))),
                "self._segment_channel_offsets": ("self__segment_channel_offsets", TBL),
                "self.object_metadata": ("self_object_metadata", ("adict", OMETA)),
                "self._file": ("self__file", TF), "channel_path": ("channel_path", BYTES), "offset": ("offset", Z),
                "length": ("length", OPT(Z)), "<io>": ("tt", T.UNIT), "<lazyloop>": ("tt", T.UNIT),
                "<yield>": ("[]", LIST(None))}
        rty = T.function(cx, "read_raw_data_for_channel_gen", stmts, params, env0,
                         ["<yield>", "self._segment_channel_offsets", "self._file"],
                         L.comment_of("reader.py", f) +
                         "     (the generator run to its end: the yielded chunks, the index table and the file afterwards;\n"
                         "      the statements from `chunk_offset = 0` to the inner loop are read_chunk_range_gen of PyFuncsReader.v;\n"
                         "      enumerate(L, start_segment): segment_index = start_segment + position)\n")
        sigs["read_raw_data_for_channel_gen"] = (params, rty)
        cx.defs.append(SECTION_CLOSE)
    finally:
        T.coqty = T_coqty
    return cx, n0, seg_defs


def header():
    return ("(* GENERATED by harness/gen/gen_pyfuncs_lazyloop.py from nptdms/reader.py -- do not edit.\n"
            "   Shallow monadic translation of TdmsReader.read_raw_data_for_channel; see the script for the conventions. *)\n"
            "From Coq Require Import String.\n"
            "From Coq Require Import ZArith List Bool.\n"
            "From Coq Require Import Init.Byte.\n"
            "Import ListNotations.\n"
            "From NpTdms Require Import Base.Bytes Base.Res Base.PySlice Model.Tokens Model.SegState Gen.TypeTable "
            "Gen.PyFuncsReader Gen.PyFuncsLazyIdx.\n"
            "Local Open Scope Z_scope.\n\n")


def main():
    try:
        cx, n0, seg_defs = translate()
    except T.Unsupported as e:
        die(str(e))
    text = header() + "\n\n".join(seg_defs + cx.defs[n0:]) + "\n"
    if "--stdout" in sys.argv:
        sys.stdout.write(text)
        return
    import lazyloop_selftest as ST
    st_text, counts = ST.selftest(REPO, die)
    L.write_if_changed(OUT, text + "\n" + st_text)
    print("%s: %d definitions; self-test cases: %s" % (ME, len(cx.defs) - n0, ", ".join("%s %d" % kv for kv in counts.items())))


if __name__ == "__main__":
    main()
