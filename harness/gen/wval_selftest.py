"""Self-test cases for gen_pyfuncs_wval.py.

The REAL code is run: nptdms.writer._to_tdms_value and read_properties_dict on a grid of real Python / NumPy values
(every numpy scalar type, TdmsType instances, bool / np.bool_, ints at the Int32 / Int64 / Uint64 boundaries, floats,
datetimes, np.datetime64, TdmsTimestamp, str, bytes, None, lists ...), and ChannelObject(..) / .data_type /
_has_raw_data / write_data / TdmsSegment._write_data on real arrays and lists (every dtype in both byte orders,
string / bytes / object / datetime64 arrays, TimestampArray in both field orders, empty and 2-d arrays, lists of ints
at every _infer_dtype boundary, of floats, strings, bools, timestamps).  Each value becomes a `pyval` / `parray`
(its Python class and its canonical value bytes), each observation (class, value bytes, bytes written, exception)
the expected result of the translated function, checked by vm_compute when Gen/PyFuncsWVal.v is built.
"""
import datetime
import io
import os
import struct
import sys
import warnings

EXC = {"ValueError": "EValue", "TypeError": "EType", "KeyError": "EKey", "IndexError": "EIndex", "AttributeError": "EOther",
       "error": "EStruct", "OverflowError": "EOther"}


def z(n):
    n = int(n)
    return "%d" % n if n >= 0 else "(%d)" % n


def b(x):
    return "true" if x else "false"


def hexb(bs):
    return '(hex "%s"%%string)' % bytes(bs).hex()


def clist(items):
    return "[" + "; ".join(items) + "]"


def copt(x, f=lambda v: v):
    return "None" if x is None else "(Some %s)" % f(x)


PRELUDE = """\
(* ---- self test: results of the real code ---- *)
Definition st_res {A B} (eq : A -> B -> bool) (a : res A) (b : res B) : bool :=
  match a, b with Ok x, Ok y => eq x y | Err x, Err y => err_eqb x y | _, _ => false end.
Fixpoint st_list {A B} (eq : A -> B -> bool) (a : list A) (b : list B) : bool :=
  match a, b with
  | [], [] => true
  | x :: a', y :: b' => eq x y && st_list eq a' b'
  | _, _ => false
  end.
Definition st_tval (a b : tval) : bool := wcls_eqb (fst a) (fst b) && bytes_eqb (snd a) (snd b).
Definition st_props := st_list (fun (a b : bytes * tval) => bytes_eqb (fst a) (fst b) && st_tval (snd a) (snd b)).
(* what is compared of the array a ChannelObject holds: class, table entry, object dtype, byte order, field order, ndim,
   the value bytes of the elements *)
Definition st_arr_obs := (bool * option Z * bool * bool * bool * Z * list bytes)%type.
Definition st_optz (a b : option Z) : bool := match a, b with Some x, Some y => x =? y | None, None => true | _, _ => false end.
Definition st_arr (a : parray) (o : st_arr_obs) : bool :=
  let '(ts, tb, ob, le, sf, nd, vs) := o in
  Bool.eqb (pa_tsarray a) ts && st_optz (pa_table a) tb && Bool.eqb (pa_object a) ob && Bool.eqb (pa_le a) le &&
  Bool.eqb (pa_seconds_first a) sf && (pa_ndim a =? nd) && st_list bytes_eqb (map pv_bytes (pa_elems a)) vs.
(* everything observed of one ChannelObject: the array, data_type, _has_raw_data, the bytes write_data writes *)
Definition st_chan_obs := (st_arr_obs * res wcls * res bool * res bytes)%type.
Definition st_chan (d : pydata) (o : res st_chan_obs) : bool :=
  match channel_object_init_gen [] [] d None, o with
  | Err e1, Err e2 => err_eqb e1 e2
  | Ok (_, _, a, _), Ok (ao, dt, hr, wr) =>
    st_arr a ao && st_res wcls_eqb (channel_data_type_gen a) dt && st_res Bool.eqb (has_raw_data_gen (Some a)) hr &&
    st_res bytes_eqb (do l <- write_data_gen a; Ok (concat l)) wr
  | _, _ => false
  end.
"""


def selftest(repo, die):
    sys.path.insert(0, repo)
    import nptdms
    here = os.path.realpath(os.path.dirname(nptdms.__file__))
    if here != os.path.realpath(os.path.join(repo, "nptdms")):
        die("nptdms imported from %s, expected %s/nptdms" % (here, repo))
    import logging
    logging.disable(logging.CRITICAL)
    import numpy as np
    from nptdms import writer as W, types as TY
    from nptdms.timestamp import TdmsTimestamp, TimestampArray
    out, counts = [PRELUDE], {}
    interned, intern_defs = {}, []

    def intern(term, ty, prefix):
        k = (term, ty)
        if k not in interned:
            interned[k] = "st_%s%d" % (prefix, len(interned))
            intern_defs.append("Definition %s : %s := %s." % (interned[k], ty, term))
        return interned[k]

    def example(name, ctype, cases, check, minimum=8):
        if intern_defs:
            out.append("\n".join(intern_defs) + "\n")
            del intern_defs[:]
        cases = list(dict.fromkeys(cases))
        if len(cases) < minimum:
            die("self-test grid of %s is too small (%d cases)" % (name, len(cases)))
        counts[name] = len(cases)
        out.append("Definition st_%s_cases : list (%s) :=\n  [%s].\n"
                   "Example st_%s : forallb (%s) st_%s_cases = true.\nProof. vm_compute. reflexivity. Qed.\n"
                   % (name, ctype, ";\n   ".join(cases), name, check, name))

    def exc_term(e):
        n = type(e).__name__
        if n not in EXC:
            raise e
        return "Err %s" % EXC[n]

    def canon(v, dtype):
        return np.array(v, dtype=dtype).astype(np.dtype(dtype).newbyteorder("<")).tobytes()

    def ts_bytes(v):
        with warnings.catch_warnings():
            warnings.simplefilter("ignore")
            return TY.TimeStamp(v).bytes

    def enc(v):
        """a Python value -> pyval term (its class, its canonical value bytes)"""
        if isinstance(v, np.number):
            cls = TY.numpy_data_types.get(v.dtype)
            # (a dtype outside the table has no TDMS value bytes; long double padding is not even deterministic)
            return intern("(VNpNumber %s %s)" % (copt(None if cls is None else cls.enum_value, z),
                                                 hexb(canon(v, v.dtype) if cls is not None else b"")), "pyval", "v")
        if isinstance(v, TY.TdmsType):
            bs = v.bytes if not isinstance(v, TY.String) else v.bytes[4:]
            return intern("(VTdms %s %s)" % (z(v.enum_value), hexb(bs if bs is not None else b"")), "pyval", "v")
        if isinstance(v, bool):
            return "(VBool %s)" % b(v)
        if isinstance(v, np.bool_):
            return "(VNpBool %s)" % b(v)
        if isinstance(v, int):
            return "(VInt %s)" % z(v)
        if isinstance(v, float):
            return intern("(VFloat %s)" % hexb(struct.pack("<d", v)), "pyval", "v")
        if isinstance(v, datetime.datetime):
            return intern("(VDatetime %s)" % hexb(ts_bytes(v)), "pyval", "v")
        if isinstance(v, np.datetime64):
            try:
                return intern("(VDatetime64 %s)" % hexb(ts_bytes(v)), "pyval", "v")
            except Exception:           # noqa: BLE001  (NaT: the value has no TimeStamp bytes; not in the grid)
                raise
        if isinstance(v, TdmsTimestamp):
            return intern("(VTimestamp %s)" % hexb(struct.pack("<Qq", int(v.second_fractions), int(v.seconds))), "pyval", "v")
        if isinstance(v, str):
            return intern("(VStr %s)" % hexb(v.encode("utf-8")), "pyval", "v")
        if isinstance(v, bytes):
            return intern("(VBytes %s)" % hexb(v), "pyval", "v")
        return "VOther"

    def c_cls(c):
        return "CTimestampObj" if c is TdmsTimestamp else "(CTdms %s)" % z(c.enum_value)

    def c_tval(r):
        if isinstance(r, TdmsTimestamp):
            return "(CTimestampObj, %s)" % hexb(r.bytes)
        bs = r.bytes if not isinstance(r, TY.String) else r.bytes[4:]
        return "(%s, %s)" % (c_cls(type(r)), hexb(bs))

    # ---- _to_tdms_value
    ints = [0, 1, -1, 127, 128, 2 ** 31 - 1, 2 ** 31, -2 ** 31, -2 ** 31 - 1, 2 ** 32, 2 ** 63 - 1, 2 ** 63, -2 ** 63, -2 ** 63 - 1, 2 ** 64 - 1,
            2 ** 64, 12345678901234]
    values = ints + [True, False, np.bool_(True), np.bool_(False), 0.0, -1.5, float("inf"), float("nan"), 1e300,
                     np.int8(-3), np.int16(300), np.int32(-70000), np.int64(2 ** 40), np.uint8(200), np.uint16(60000), np.uint32(4 * 10 ** 9),
                     np.uint64(2 ** 63 + 5), np.float32(1.5), np.float64(-2.25), np.float16(1.0), np.complex64(1 + 2j), np.complex128(3 - 4j),
                     np.timedelta64(5, "s"), np.longdouble(1.5) if np.dtype(np.longdouble) != np.dtype(np.float64) else np.float16(2.0),
                     TY.Int8(3), TY.Uint64(2 ** 63), TY.DoubleFloat(1.5), TY.String("hé"), TY.Boolean(True), TY.Int32(-5), TY.SingleFloat(0.5),
                     TY.TimeStamp(np.datetime64("2020-01-02T03:04:05.678901")),
                     datetime.datetime(2020, 1, 2, 3, 4, 5, 678901), datetime.datetime(1900, 1, 1), np.datetime64("2020-01-02T03:04:05.678901"),
                     np.datetime64("1903-12-31T23:59:59.999999"), np.datetime64("2001-01-01", "D"),
                     TdmsTimestamp(3600, 2 ** 63), TdmsTimestamp(-5, 1), "", "abc", "hé中", "it's", np.str_("np"), b"", b"raw", np.bytes_(b"npb"),
                     None, [1, 2], (1,), datetime.date(2020, 1, 1), {"a": 1}, 1 + 2j, np.array([1])]
    cases = []
    for v in values:
        with warnings.catch_warnings():
            warnings.simplefilter("ignore")
            try:
                r = "Ok %s" % c_tval(W._to_tdms_value(v))
            except Exception as e:          # noqa: BLE001
                r = exc_term(e)
        cases.append("(%s, %s)" % (enc(v), r))
    example("to_tdms_value", "pyval * res tval", cases, "fun c => st_res st_tval (to_tdms_value_gen (fst c)) (snd c)", minimum=60)

    # ---- read_properties_dict
    cases = []
    dicts = [None, {}, {"a": 1}, {"b": True, "a": 2 ** 40, "c": "s"}, {"x": 1.5, "y": np.int16(4), "z": TdmsTimestamp(1, 2)},
             {"k": None}, {"k": b"raw", "j": 1}, {"é": np.float32(2.5), "": False}, {"t": np.datetime64("2020-01-01T00:00:00"), "u": TY.Uint8(9)},
             {"big": 2 ** 64}, {"a": 1, "b": [1]}]
    for d in dicts:
        with warnings.catch_warnings():
            warnings.simplefilter("ignore")
            try:
                r = W.read_properties_dict(d)
                exp = "Ok %s" % clist(["(%s, %s)" % (hexb(k.encode("utf-8")), c_tval(v)) for k, v in r.items()])
            except Exception as e:          # noqa: BLE001
                exp = exc_term(e)
        arg = copt(d, lambda dd: clist(["(%s, %s)" % (hexb(k.encode("utf-8")), enc(v)) for k, v in dd.items()]))
        cases.append("(%s, %s)" % (arg, exp))
    example("read_properties_dict", "option (alist pyval) * res (list (bytes * tval))", cases,
            "fun c => st_res st_props (read_properties_dict_gen (fst c)) (snd c)")

    # ---- arrays
    def le_of(a):
        dt = a.dtype
        if dt.names:
            return all(dt.fields[n][0].byteorder in "<|=" for n in dt.names)
        return dt.byteorder in "<|="

    def elems(a):
        return [a[i] for i in range(len(a))] if a.ndim == 1 else []

    def c_parray(a):
        cls = TY.numpy_data_types.get(a.dtype.newbyteorder("<")) if not a.dtype.names else None
        return intern("(mkParray %s %s %s %s %s %s %s %s)" % (
            b(isinstance(a, TimestampArray)), copt(None if cls is None else cls.enum_value, z), b(a.dtype == np.dtype("O")), b(a.dtype.kind == "U"),
            b(le_of(a)),
            b(bool(a.dtype.names) and a.dtype.names[0] == "seconds"), z(a.ndim), clist([enc(x) for x in elems(a)])), "parray", "a")

    def obs_arr(a):
        cls = TY.numpy_data_types.get(a.dtype.newbyteorder("<")) if not a.dtype.names else None
        vs = []
        for x in elems(a):
            if isinstance(x, (bool, np.bool_)):
                vs.append(b"\x01" if x else b"\x00")
            elif isinstance(x, np.number):
                vs.append(canon(x, x.dtype) if TY.numpy_data_types.get(x.dtype) is not None else b"")
            elif isinstance(x, TdmsTimestamp):
                vs.append(struct.pack("<Qq", int(x.second_fractions), int(x.seconds)))
            elif isinstance(x, str):
                vs.append(x.encode("utf-8"))
            elif isinstance(x, bytes):
                vs.append(bytes(x))
            elif isinstance(x, float):
                vs.append(struct.pack("<d", x))
            elif isinstance(x, (datetime.datetime, np.datetime64)):
                vs.append(ts_bytes(x))
            elif isinstance(x, TY.TdmsType):
                vs.append(x.bytes if not isinstance(x, TY.String) else x.bytes[4:])
            else:
                vs.append(b"")
        return "(%s, %s, %s, %s, %s, %s, %s)" % (
            b(isinstance(a, TimestampArray)), copt(None if cls is None else cls.enum_value, z), b(a.dtype == np.dtype("O")), b(le_of(a)),
            b(bool(a.dtype.names) and a.dtype.names[0] == "seconds"), z(a.ndim), clist([hexb(v) for v in vs]))

    def c_pydata(d):
        if isinstance(d, np.ndarray):
            return "(PDArray %s)" % c_parray(d)
        ok = bool(d) and all(isinstance(x, int) for x in d)
        with warnings.catch_warnings():
            warnings.simplefilter("ignore")
            asarr = np.array([0]) if ok else np.array(d)
        return "(PDList %s %s)" % (clist([enc(x) for x in d]), c_parray(asarr))

    le_ts = np.zeros(2, dtype=[("second_fractions", "<u8"), ("seconds", "<i8")])
    le_ts["second_fractions"], le_ts["seconds"] = [5, 2 ** 63], [7, -3]
    be_ts = np.zeros(2, dtype=[("seconds", ">i8"), ("second_fractions", ">u8")])
    be_ts["second_fractions"], be_ts["seconds"] = [5, 2 ** 63], [7, -3]
    datas = []
    for dt in ("i1", "i2", "i4", "i8", "u1", "u2", "u4", "u8", "f4", "f8", "c8", "c16"):
        for order in ("<", ">"):
            datas.append(np.array([1, 2, 250 if dt != "i1" else -3], dtype=order + dt))
        datas.append(np.array([], dtype=dt))
    datas += [np.array([True, False, True]), np.array([], dtype=bool), np.array(["a", "hé", ""]), np.array([], dtype="U3"), np.array([b"x", b"yz"]),
              np.array([], dtype="S2"), np.array(["a", "bc"], dtype=object), np.array([b"x", b"yz"], dtype=object), np.array([], dtype=object),
              np.array([TdmsTimestamp(1, 2), TdmsTimestamp(-4, 2 ** 63)], dtype=object),
              np.array([datetime.datetime(2020, 1, 1), datetime.datetime(1999, 12, 31, 23, 59, 59, 5)], dtype=object),
              np.array(["2020-01-01T00:00:00", "1903-12-31T23:59:59.999999"], dtype="datetime64[us]"), np.array([], dtype="datetime64[us]"),
              np.array(["2020-01-01"], dtype="datetime64[D]"), np.array([1.5, 2.5], dtype="f2"), np.array([1, 2], dtype="timedelta64[s]"),
              TimestampArray(le_ts), TimestampArray(be_ts), TimestampArray(le_ts[:0]), TimestampArray(be_ts[:0]), le_ts, be_ts,
              np.array([[1, 2], [3, 4]], dtype="i4"), np.array(5, dtype="i4"), np.array(["a", b"b"], dtype=object), np.array([None], dtype=object)]
    # (object arrays of numbers reach ndarray.tofile, which dumps object pointers: not in the grid)
    B = [0, 1, -1, 127, 128, -128, -129, 255, 256, 2 ** 15 - 1, 2 ** 15, -2 ** 15, -2 ** 15 - 1, 2 ** 16 - 1, 2 ** 16, 2 ** 31 - 1, 2 ** 31, -2 ** 31,
         -2 ** 31 - 1, 2 ** 32 - 1, 2 ** 32, 2 ** 63 - 1, 2 ** 63, -2 ** 63, 2 ** 64 - 1, 2 ** 64, -2 ** 63 - 1]
    for x in B:
        datas.append([x])
        datas.append([x, 0])
        datas.append([-1, x])
    datas += [[], [1.5, 2.5], [1, 2.5], ["a", "bc"], [b"a", b"bc"], [True, False], [True, 2], [1, True, 300], [TdmsTimestamp(1, 2), TdmsTimestamp(3, 4)],
              [datetime.datetime(2020, 1, 1)], [np.datetime64("2020-01-01T00:00:00")], [np.int16(5), np.int16(6)], [1, "a"], [[1, 2], [3, 4]], [None],
              [2 ** 63, -1], [2 ** 64, 1]]
    cases = []
    for d in datas:
        arg = c_pydata(d)
        with warnings.catch_warnings():
            warnings.simplefilter("ignore")
            try:
                o = W.ChannelObject("g", "c", d)
            except Exception as e:          # noqa: BLE001
                cases.append("(%s, %s)" % (arg, exc_term(e)))
                continue

            def attempt(fn, encf):
                try:
                    return "Ok %s" % encf(fn())
                except Exception as e:      # noqa: BLE001
                    return exc_term(e)

            def written():
                f = io.BytesIO()
                W.write_data(f, o)
                return f.getvalue()
            cases.append("(%s, Ok (%s, %s, %s, %s))" % (arg, obs_arr(o.data), attempt(lambda: o.data_type, c_cls),
                                                       attempt(lambda: W._has_raw_data(o), b), attempt(written, hexb)))
    example("channel_object", "pydata * res st_chan_obs", cases, "fun c => st_chan (fst c) (snd c)", minimum=150)

    # ---- ndarray.tobytes() of arrays as they are given (before _to_np_array): numeric, bool, complex and timestamp arrays in
    #      both byte / field orders
    cases = []
    for d in datas:
        if isinstance(d, np.ndarray) and d.ndim == 1 and (d.dtype.kind in "iufcb" and TY.numpy_data_types.get(d.dtype.newbyteorder("<"))
                                                        is not None or isinstance(d, TimestampArray)):
            cases.append("(%s, %s)" % (c_parray(d), hexb(d.tobytes())))
    example("array_memory", "parray * bytes", cases, "fun c => bytes_eqb (pa_raw (fst c)) (snd c)", minimum=30)

    # ---- TdmsSegment._write_data over root / group / channel objects
    cases = []
    objs_sets = [[], [W.RootObject()], [W.GroupObject("g")], [W.ChannelObject("g", "a", np.array([1, 2], dtype="i2"))],
                 [W.RootObject(), W.GroupObject("g"), W.ChannelObject("g", "a", ["x", "yz"]), W.ChannelObject("g", "b", np.array([], dtype="U1")),
                  W.ChannelObject("g", "c", [1.5]), W.ChannelObject("g", "d", np.array([], dtype="f8"))],
                 [W.ChannelObject("g", "t", [TdmsTimestamp(1, 2)]), W.GroupObject("h"), W.ChannelObject("h", "e", [])],
                 [W.ChannelObject("g", "a", np.array([1, 2], dtype=">u4")), W.ChannelObject("g", "b", TimestampArray(be_ts))],
                 [W.ChannelObject("g", "bad", np.array([None], dtype=object)), W.ChannelObject("g", "a", [1])]]
    for objs in objs_sets:
        seg = W.TdmsSegment(objs)
        f = io.BytesIO()
        with warnings.catch_warnings():
            warnings.simplefilter("ignore")
            try:
                seg._write_data(f)
                r = "Ok %s" % hexb(f.getvalue())
            except Exception as e:          # noqa: BLE001
                r = exc_term(e)
        cases.append("(%s, %s)" % (clist([copt(getattr(o, "data", None), c_parray) for o in objs]), r))
    example("segment_write_data", "list (option parray) * res bytes", cases,
            "fun c => st_res bytes_eqb (do l <- segment_write_data_gen (fst c); Ok (concat l)) (snd c)", minimum=6)
    return "\n".join(out), counts
