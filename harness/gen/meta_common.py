"""Shared parts of the drivers gen_pyfuncs_segstate.py / gen_pyfuncs_hier.py / gen_pyfuncs_wval.py
(extensions of harness/gen/py2gallina.py that live OUTSIDE it: py2gallina.py and np_sem.py are unchanged).

1. Dealias: a source-to-source pass run on the `ast` BEFORE py2gallina sees it.  Python objects are
   references; the Gallina target is purely functional.  The pass turns every mutation of an object reached
   through a local name into a functional update of that name FOLLOWED BY a write-back into the container
   the object is also reachable from, and refuses (fail-closed) every mutation whose alias situation it
   cannot establish.  Alias facts, per local name X:
       fresh            X is the only reference (X = copy(..), X = <constructor>(..), X = <fresh call>)
       last  L          X is also the last element of list L       (after L.append(X) with X fresh)
       item  D K        X is also D[K]                              (X = <getter>(K) from the driver's table)
       owned            X is a parameter whose final value the function returns to its caller (the caller
                        writes it back)
   Mutations recognised:  X.a = v ; X.a op= v ; X.a[k] = v ; X.<mutating method>(..) ; <mutating function>(.., X, ..)
   They become           X = setattr__(X, 'a', v) ... ; then  L = set_last__(L, X)  /  D[K] = X.
   Anything else that stores through an attribute, and any mutation of a name without a fact, stops the
   translation.  Facts are killed by rebinding X, by storing X anywhere else (it is then shared), by
   assigning to L / D / K, and are intersected at the join of branches and at loop heads.

2. Hooks (np_sem.NpSem extra_calls / extra_statements / extra_compare) for: copy(x), setattr__, set_last__,
   dict comprehensions and dict(<pairs genexp>) over enumerate(..), `x in (A, B)` on integers, `==` / `!=`
   of values that are classes-or-None (represented by their enum value), `obj = <expr>` bookkeeping.
"""
import ast
import copy as _copy
import os
import sys

HERE = os.path.dirname(os.path.abspath(__file__))
sys.path.insert(0, HERE)
import py2gallina as T                                             # noqa: E402
from py2gallina import Z, B, NONE, BYTES, OPT, LIST, TUP, REC       # noqa: E402

VERIF = os.path.dirname(os.path.dirname(HERE))
REPO = os.environ.get("NPTDMS_REPO", "/repo")


def unp(n):
    return ast.unparse(n)


class Driver:
    """per-driver plumbing: die / parse / find / write_if_changed"""

    def __init__(self, me):
        self.me = me

    def die(self, msg):
        sys.stderr.write("%s: UNSUPPORTED / unrecognised source, nothing written: %s\n" % (self.me, msg))
        sys.exit(1)

    def parse(self, fn):
        path = os.path.join(REPO, "nptdms", fn)
        try:
            src = open(path).read()
            return src, ast.parse(src)
        except (OSError, SyntaxError) as e:
            self.die("cannot read/parse %s: %s" % (path, e))

    def find(self, tree, name, cls=None, decorators=()):
        body = tree.body
        if cls is not None:
            cs = [n for n in tree.body if isinstance(n, ast.ClassDef) and n.name == cls]
            if len(cs) != 1:
                self.die("class %s not found" % cls)
            body = cs[0].body
        fs = [n for n in body if isinstance(n, ast.FunctionDef) and n.name == name]
        if len(fs) != 1:
            self.die("expected exactly one def %s%s" % (cls + "." if cls else "", name))
        f = fs[0]
        if [unp(d) for d in f.decorator_list] != list(decorators) or f.args.vararg or f.args.kwarg or f.args.kwonlyargs:
            self.die("signature of %s%s" % (cls + "." if cls else "", name))
        return f

    def klass(self, tree, cls):
        cs = [n for n in tree.body if isinstance(n, ast.ClassDef) and n.name == cls]
        if len(cs) != 1:
            self.die("class %s not found" % cls)
        return cs[0]

    def expect_args(self, f, names, defaults=()):
        if [a.arg for a in f.args.args] != list(names) or [unp(d) for d in f.args.defaults] != list(defaults):
            self.die("signature of %s: expected (%s) with defaults %r" % (f.name, ", ".join(names), list(defaults)))

    def expect_body(self, f, lines, what):
        got = [unp(s) for s in f.body if not T.is_skip(s)]
        if got != list(lines):
            self.die("%s is no longer\n    %s\n  but\n    %s" % (what, "\n    ".join(lines), "\n    ".join(got)))

    def no_special_methods(self, tree, cls, names):
        c = self.klass(tree, cls)
        for n in c.body:
            if isinstance(n, ast.FunctionDef) and n.name in names:
                self.die("class %s defines %s" % (cls, n.name))

    def module_int(self, tree, name):
        for n in tree.body:
            if isinstance(n, ast.Assign) and len(n.targets) == 1 and isinstance(n.targets[0], ast.Name) \
                    and n.targets[0].id == name and isinstance(n.value, ast.Constant) and type(n.value.value) is int:
                return n.value.value
        self.die("module-level integer constant %s not found" % name)

    def write_if_changed(self, path, text):
        old = None
        try:
            old = open(path).read()
        except OSError:
            pass
        if old != text:
            os.makedirs(os.path.dirname(path), exist_ok=True)
            tmp = path + ".tmp.%d" % os.getpid()
            with open(tmp, "w") as fh:
                fh.write(text)
            os.replace(tmp, path)
            print("%s: wrote %s" % (self.me, os.path.relpath(path, VERIF)))
        else:
            print("%s: %s up to date" % (self.me, os.path.relpath(path, VERIF)))


def body_of(f):
    return [s for s in f.body if not T.is_skip(s)]


def comment_of(fn, cls, f, stmts=None, note=""):
    stmts = f.body if stmts is None else stmts
    txt = "\n".join(unp(s) for s in stmts if not T.is_skip(s)).replace("(*", "( *").replace("*)", "* )")
    return "nptdms/%s: %s%s (line %d)%s\n%s\n" % (fn, (cls + ".") if cls else "", f.name, f.lineno, note,
                                                "\n".join("     " + l for l in txt.split("\n")))


def toc_constants(tree, die):
    out = {}
    for n in tree.body:
        if isinstance(n, ast.Assign) and len(n.targets) == 1 and isinstance(n.targets[0], ast.Name) \
                and n.targets[0].id == "toc_properties" and isinstance(n.value, ast.Dict):
            for k, v in zip(n.value.keys, n.value.values):
                try:
                    val = eval(compile(ast.Expression(v), "<toc>", "eval"), {"__builtins__": {}})
                except Exception as e:          # noqa: BLE001
                    die("toc_properties value: %s" % e)
                if not (isinstance(k, ast.Constant) and isinstance(k.value, str) and type(val) is int):
                    die("toc_properties entry")
                out[("toc_properties", k.value)] = val
    if not out:
        die("toc_properties not found in common.py")
    return out


# ---------------------------------------------------------------------------
# 1. the de-aliasing pass

def name(id_, ctx=None):
    return ast.Name(id=id_, ctx=ctx or ast.Load())


def place(key, ctx=None):
    """env key ('x' or 'self.a') -> expression"""
    if key.startswith("self."):
        return ast.Attribute(value=name("self"), attr=key[5:], ctx=ctx or ast.Load())
    return name(key, ctx)


def call(fn, *args):
    return ast.Call(func=name(fn), args=list(args), keywords=[])


def assign(target, value, like):
    return ast.copy_location(ast.Assign(targets=[target], value=value, lineno=like.lineno), like)


class Dealias:
    def __init__(self, die, fresh_calls=(), getters=None, mutating_methods=None, mutating_funcs=None, owned=()):
        self.die = die
        self.fresh_calls = set(fresh_calls)             # unparsed callee text whose result is a fresh object
        self.getters = getters or {}                    # unparsed callee text -> dict env key: X = f(K) aliases D[K]
        self.mutating_methods = mutating_methods or {}  # method name -> fn(call node, X) -> replacement call expr
        self.mutating_funcs = mutating_funcs or {}      # unparsed callee text -> index of the mutated argument
        self.owned = set(owned)                         # parameters returned to the caller

    # -- helpers
    @staticmethod
    def mentions(node, var):
        return any(isinstance(n, ast.Name) and n.id == var for n in ast.walk(node))

    @staticmethod
    def mentions_key(node, key):
        if key.startswith("self."):
            return any(isinstance(n, ast.Attribute) and isinstance(n.value, ast.Name) and n.value.id == "self"
                       and n.attr == key[5:] for n in ast.walk(node))
        return Dealias.mentions(node, key)

    def writeback(self, x, st, like):
        f = st.get(x)
        if f is None:
            self.die("line %d: mutation of `%s`, an object whose aliases are not known" % (like.lineno, x))
        if f[0] in ("fresh", "owned"):
            return []
        if f[0] == "last":
            return [assign(place(f[1], ast.Store()), call("set_last__", place(f[1]), name(x)), like)]
        if f[0] == "item":
            tgt = ast.Subscript(value=place(f[1]), slice=name(f[2]), ctx=ast.Store())
            s = assign(tgt, name(x), like)
            s._dealias_writeback = True
            return [s]
        self.die("alias fact %r" % (f,))

    def escapes(self, node, st):
        """names with a fact that occur in `node` other than as the base of an attribute read"""
        bases = {id(n.value) for n in ast.walk(node) if isinstance(n, ast.Attribute)}
        out = set()
        for n in ast.walk(node):
            if isinstance(n, ast.Name) and n.id in st and id(n) not in bases:
                out.add(n.id)
        return out

    def kill_container(self, st, key, keep=None):
        for x in list(st):
            f = st[x]
            if x != keep and ((f[0] == "last" and f[1] == key) or (f[0] == "item" and (f[1] == key or f[2] == key))):
                del st[x]

    # -- statements
    def block(self, stmts, st):
        out = []
        for s in stmts:
            new, term = self.stmt(s, st)
            out.extend(new)
            if term:
                return out, True
        return out, False

    def stmt(self, s, st):
        if isinstance(s, (ast.Return, ast.Raise, ast.Break, ast.Continue)):
            return [s], True
        if isinstance(s, ast.If):
            st1, st2 = dict(st), dict(st)
            b1, t1 = self.block(s.body, st1)
            b2, t2 = self.block(s.orelse, st2)
            st.clear()
            if t1 and t2:
                pass
            elif t1:
                st.update(st2)
            elif t2:
                st.update(st1)
            else:
                st.update({k: v for k, v in st1.items() if st2.get(k) == v})
            new = ast.copy_location(ast.If(test=s.test, body=b1 or [ast.Pass()], orelse=b2), s)
            return [new], (t1 and t2)
        if isinstance(s, ast.For):
            for n in ast.walk(s.target):
                if isinstance(n, ast.Name):
                    st.pop(n.id, None)
                    self.kill_container(st, n.id)
            head = dict(st)
            for _ in range(4):
                trial = dict(head)
                self.block(_copy.deepcopy(s.body), trial)
                nxt = {k: v for k, v in head.items() if trial.get(k) == v}
                if nxt == head:
                    break
                head = nxt
            else:
                self.die("line %d: alias facts of the loop do not stabilise" % s.lineno)
            body_st = dict(head)
            b, _ = self.block(s.body, body_st)
            st.clear()
            st.update(head)
            new = ast.copy_location(ast.For(target=s.target, iter=s.iter, body=b, orelse=s.orelse), s)
            return [new], False
        if isinstance(s, ast.Try):
            st0 = dict(st)
            b, tb = self.block(s.body, st)
            hs = []
            outs = [] if tb else [dict(st)]
            for hd in s.handlers:
                sth = {}
                hb, th = self.block(hd.body, sth)
                hs.append(ast.copy_location(ast.ExceptHandler(type=hd.type, name=hd.name, body=hb), hd))
                if not th:
                    outs.append(sth)
            if s.orelse or s.finalbody:
                self.die("line %d: try with else / finally" % s.lineno)
            st.clear()
            if outs:
                st.update({k: v for k, v in outs[0].items() if all(o.get(k) == v for o in outs[1:])})
            del st0
            new = ast.copy_location(ast.Try(body=b, handlers=hs, orelse=[], finalbody=[]), s)
            return [new], not outs
        if isinstance(s, ast.With):
            b, t = self.block(s.body, st)
            return [ast.copy_location(ast.With(items=s.items, body=b), s)], t
        if isinstance(s, ast.AugAssign):
            return self.aug(s, st), False
        if isinstance(s, ast.Assign):
            return self.assign_stmt(s, st), False
        if isinstance(s, ast.Expr) and isinstance(s.value, ast.Call):
            return self.call_stmt(s, st), False
        for x in self.escapes(s, st):
            del st[x]
        return [s], False

    def attr_target(self, t):
        """X.a  /  X.a[k]  with X a plain name (not self) -> (X, a, k or None)"""
        if isinstance(t, ast.Attribute) and isinstance(t.value, ast.Name) and t.value.id != "self":
            return t.value.id, t.attr, None
        if isinstance(t, ast.Subscript) and isinstance(t.value, ast.Attribute) and isinstance(t.value.value, ast.Name) \
                and t.value.value.id != "self":
            return t.value.value.id, t.value.attr, t.slice
        return None

    def aug(self, s, st):
        at = self.attr_target(s.target)
        if at is None:
            for x in self.escapes(s.value, st):
                del st[x]
            k = T.key_of(s.target)
            if k is not None:
                st.pop(k, None)
                self.kill_container(st, k)
            return [s]
        x, a, sub = at
        if sub is not None:
            self.die("line %d: augmented item assignment through an attribute" % s.lineno)
        if self.mentions(s.value, x) and x in self.escapes(s.value, st):
            self.die("line %d: `%s` escapes inside its own update" % (s.lineno, x))
        cur = ast.Attribute(value=name(x), attr=a, ctx=ast.Load())
        val = ast.BinOp(left=cur, op=s.op, right=s.value)
        new = assign(name(x, ast.Store()), call("setattr__", name(x), ast.Constant(value=a), val), s)
        return [new] + self.writeback(x, st, s)

    def assign_stmt(self, s, st):
        if len(s.targets) != 1:
            self.die("line %d: multiple assignment targets" % s.lineno)
        t = s.targets[0]
        at = self.attr_target(t)
        if at is not None:
            x, a, sub = at
            for y in self.escapes(s.value, st):
                del st[y]                   # the stored value is shared from now on
            if x not in st:
                self.die("line %d: store through `%s`, an object whose aliases are not known: %s" % (s.lineno, x, unp(s)))
            if sub is None:
                val = s.value
            else:
                val = call("setitem__", ast.Attribute(value=name(x), attr=a, ctx=ast.Load()), sub, s.value)
            new = assign(name(x, ast.Store()), call("setattr__", name(x), ast.Constant(value=a), val), s)
            return [new] + self.writeback(x, st, s)
        if isinstance(t, (ast.Attribute, ast.Subscript)) and T.key_of(t) is None and not \
                (isinstance(t, ast.Subscript) and T.key_of(t.value) is not None):
            self.die("line %d: store through %s" % (s.lineno, unp(t)))
        # a plain rebinding  X = ..  /  self.a = ..  /  D[k] = ..  /  (a, b) = ..
        v = s.value
        fact = None
        if isinstance(v, ast.Call):
            fn = unp(v.func)
            if fn == "copy" and len(v.args) == 1 and not v.keywords:
                fact = ("fresh",)
            elif fn in self.fresh_calls:
                fact = ("fresh",)
            elif fn in self.getters and len(v.args) == 1 and isinstance(v.args[0], ast.Name):
                fact = ("item", self.getters[fn], v.args[0].id)
        esc = self.escapes(v, st)
        if fact is not None and fact[0] == "fresh" and unp(v.func) == "copy":
            esc = set()                     # copy(x) does not share x
        for y in esc:
            del st[y]
        targets = t.elts if isinstance(t, ast.Tuple) else [t]
        for tt in targets:
            if isinstance(tt, ast.Subscript):
                k = T.key_of(tt.value)
                if k is not None and not getattr(s, "_dealias_writeback", False):
                    self.kill_container(st, k)
                continue
            k = T.key_of(tt)
            if k is None:
                self.die("line %d: assignment target %s" % (s.lineno, unp(tt)))
            st.pop(k, None)
            self.kill_container(st, k)
        if fact is not None and isinstance(t, ast.Name):
            if fact[0] == "item":
                self.kill_container(st, fact[1])      # one tracked alias per container
            st[t.id] = fact
        return [s]

    def call_stmt(self, s, st):
        c = s.value
        f = c.func
        # L.append(X)
        if isinstance(f, ast.Attribute) and f.attr == "append" and len(c.args) == 1 and not c.keywords \
                and T.key_of(f.value) is not None:
            lk = T.key_of(f.value)
            self.kill_container(st, lk)
            a = c.args[0]
            if isinstance(a, ast.Name) and st.get(a.id) == ("fresh",):
                st[a.id] = ("last", lk)
            else:
                for y in self.escapes(a, st):
                    del st[y]
            return [s]
        # X.<mutating method>(..)
        if isinstance(f, ast.Attribute) and isinstance(f.value, ast.Name) and f.attr in self.mutating_methods \
                and f.value.id != "self":
            x = f.value.id
            for a in c.args:
                if x in self.escapes(a, st):
                    self.die("line %d: `%s` passed to its own method" % (s.lineno, x))
            if x not in st:
                self.die("line %d: %s on an object whose aliases are not known" % (s.lineno, unp(f)))
            new = assign(name(x, ast.Store()), self.mutating_methods[f.attr](c, x), s)
            return [new] + self.writeback(x, st, s)
        # <mutating function>(.., X, ..)
        if unp(f) in self.mutating_funcs and not c.keywords:
            i = self.mutating_funcs[unp(f)]
            if i >= len(c.args) or not isinstance(c.args[i], ast.Name):
                self.die("line %d: the object argument of %s" % (s.lineno, unp(f)))
            x = c.args[i].id
            for j, a in enumerate(c.args):
                if j != i and x in self.escapes(a, st):
                    self.die("line %d: `%s` passed twice" % (s.lineno, x))
            if x not in st:
                self.die("line %d: %s mutates an object whose aliases are not known" % (s.lineno, unp(f)))
            new = assign(name(x, ast.Store()), c, s)
            return [new] + self.writeback(x, st, s)
        for y in self.escapes(c, st):
            del st[y]
        return [s]

    def run(self, stmts):
        st = {p: ("owned",) for p in self.owned}
        out, _ = self.block(_copy.deepcopy(stmts), st)
        mod = ast.Module(body=out, type_ignores=[])
        ast.fix_missing_locations(mod)
        # nothing may still store through an attribute of a local object
        for n in ast.walk(mod):
            if isinstance(n, (ast.Assign, ast.AugAssign)):
                for t in (n.targets if isinstance(n, ast.Assign) else [n.target]):
                    if self.attr_target(t) is not None:
                        self.die("line %d: unhandled store %s" % (n.lineno, unp(t)))
        return out


# ---------------------------------------------------------------------------
# 2. hooks

PRELUDE_OBJECTS = """\
(* list[-1] = x for the element appended last (an object mutated after it was appended) *)
Definition set_last__ {A} (l : list A) (x : A) : list A :=
  match rev l with [] => [] | _ :: r => rev r ++ [x] end.
(* enumerate(l) *)
Fixpoint py_enumerate_from {A} (i : Z) (l : list A) : list (Z * A) :=
  match l with [] => [] | x :: r => (i, x) :: py_enumerate_from (i + 1) r end.
Definition py_enumerate {A} (l : list A) : list (Z * A) := py_enumerate_from 0 l.
(* {k: v for ..} / dict((k, v) for ..): later bindings of a key replace the value in place *)
Definition dict_of_pairs {V} (l : list (bytes * V)) : alist V :=
  fold_left (fun d kv => aset (fst kv) (snd kv) d) l [].
(* a class (TdmsType subclass) or None, compared with == / != : identity of classes *)
Definition cls_eqb (a b : option Z) : bool :=
  match a, b with
  | None, None => true
  | Some x, Some y => x =? y
  | _, _ => false
  end.
"""


def iter_term(it, env, h, cx):
    """iterable of a comprehension: a list expression or enumerate(<list>) -> (term, element type)"""
    if isinstance(it, ast.Call) and isinstance(it.func, ast.Name) and it.func.id == "enumerate" and len(it.args) == 1 \
            and not it.keywords:
        t, ty = T.ex(it.args[0], env, h, cx)
        t, ty = T.need(t, ty, "list", "EType", h, it)
        if ty[0] != "list":
            T.fail(it, "enumerate of %r" % (ty,))
        return "(py_enumerate %s)" % t, TUP(Z, ty[1])
    t, ty = T.ex(it, env, h, cx)
    t, ty = T.need(t, ty, "list", "EType", h, it)
    if ty[0] != "list":
        T.fail(it, "iteration over %r" % (ty,))
    return t, ty[1]


def pairs_dict(node, key, value, gens, env, h, cx):
    """{key: value for target in iter}  /  dict((key, value) for target in iter)"""
    if len(gens) != 1 or gens[0].ifs or gens[0].is_async:
        T.fail(node, "dict comprehension shape")
    it, ety = iter_term(gens[0].iter, env, h, cx)
    pat, binds = T.pattern(gens[0].target, ety, node)
    inner = dict(env)
    inner.update(binds)
    k, kty = T.ex(key, inner, None, cx)
    v, vty = T.ex(value, inner, None, cx)
    if kty != BYTES:
        T.fail(node, "dict key of type %r" % (kty,))
    return "(dict_of_pairs (List.map %s %s))" % (T.lam(pat, "(%s, %s)" % (k, v)), it), ("adict", vty)


class Hooks:
    """installs the shared call / statement / compare rules on an NpSem instance"""

    def __init__(self, sem, setters, cls_type=None):
        self.sem = sem
        self.setters = setters                  # (record name, attribute) -> (setter function, value type)
        self.cls_type = cls_type                # the type of a class-valued expression (a TdmsType subclass)
        sem.extra_calls.append(self.calls)
        sem.extra_statements.append(self.statements)
        sem.extra_compare.append(self.compare)

    def calls(self, e, env, h, cx):
        f = e.func
        fn = f.id if isinstance(f, ast.Name) else None
        if e.keywords:
            return None
        if fn == "bool" and len(e.args) == 1:
            return T.cond(e.args[0], env, h, cx), B
        if fn == "copy" and len(e.args) == 1:
            t, ty = T.ex(e.args[0], env, h, cx)
            if ty[0] != "rec":
                T.fail(e, "copy of %r" % (ty,))
            return t, ty
        if fn == "setattr__" and len(e.args) == 3:
            o, oty = T.ex(e.args[0], env, h, cx)
            ent = self.setters.get((oty[1] if oty[0] == "rec" else None, e.args[1].value))
            if ent is None:
                T.fail(e, "no setter for attribute %s of %r" % (e.args[1].value, oty))
            setter, vty = ent
            v, ty = T.ex(e.args[2], env, h, cx)
            if ty != vty:
                v = T.coerce(v, ty, vty)
            return "(%s %s %s)" % (setter, o, v), oty
        if fn == "setitem__" and len(e.args) == 3:
            d, dty = T.ex(e.args[0], env, h, cx)
            k, kty = T.ex(e.args[1], env, h, cx)
            v, vty = T.ex(e.args[2], env, h, cx)
            if dty[0] != "adict" or kty != BYTES or vty != dty[1]:
                T.fail(e, "item store of %r at %r into %r" % (vty, kty, dty))
            return "(aset %s %s %s)" % (k, v, d), dty
        if fn == "set_last__" and len(e.args) == 2:
            l, lty = T.ex(e.args[0], env, h, cx)
            x, xty = T.ex(e.args[1], env, h, cx)
            if lty != LIST(xty):
                T.fail(e, "set_last__ of %r into %r" % (xty, lty))
            return "(set_last__ %s %s)" % (l, x), lty
        if fn == "dict" and len(e.args) == 1 and isinstance(e.args[0], ast.GeneratorExp) \
                and isinstance(e.args[0].elt, ast.Tuple) and len(e.args[0].elt.elts) == 2:
            g = e.args[0]
            return pairs_dict(e, g.elt.elts[0], g.elt.elts[1], g.generators, env, h, cx)
        return None

    def statements(self, s, rest, env, K, sc, cx):
        # X = {k: v for ..}
        if isinstance(s, ast.Assign) and len(s.targets) == 1 and isinstance(s.value, ast.DictComp) \
                and T.key_of(s.targets[0]) is not None:
            h = T.Hoist()
            t, ty = pairs_dict(s, s.value.key, s.value.value, s.value.generators, env, h, cx)
            k = T.key_of(s.targets[0])
            env2 = dict(env)
            env2[k] = (T.cname(k), ty)
            return T.wrap(h.pre, "let %s := %s in\n" % (T.cname(k), t)) + T.block(rest, env2, K, sc, cx)
        return None

    def compare(self, e, env, h, cx):
        if len(e.ops) != 1:
            return None
        op, right = e.ops[0], e.comparators[0]
        # x in (A, B, ..) / x not in (..) on integers
        if isinstance(op, (ast.In, ast.NotIn)) and isinstance(right, ast.Tuple) and right.elts:
            x = T.as_int(e.left, env, h, cx)
            parts = ["(%s =? %s)" % (x, T.as_int(a, env, None, cx)) for a in right.elts]
            c = "(" + " || ".join(parts) + ")"
            return ("(negb %s)" % c if isinstance(op, ast.NotIn) else c), B
        # == / != of classes-or-None
        if isinstance(op, (ast.Eq, ast.NotEq)):
            if self.cls_type is None:
                return None
            try:
                a, aty = T.ex(e.left, env, None, cx)
                b, bty = T.ex(right, env, None, cx)
            except T.Unsupported:
                return None
            ok = (self.cls_type, OPT(self.cls_type), NONE)
            if aty in ok and bty in ok and (aty, bty) != (NONE, NONE):
                c = "(cls_eqb %s %s)" % (T.coerce(a, aty, OPT(self.cls_type)), T.coerce(b, bty, OPT(self.cls_type)))
                return ("(negb %s)" % c if isinstance(op, ast.NotEq) else c), B
        return None
