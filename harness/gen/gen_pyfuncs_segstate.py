#!/venv/bin/python
"""Fail-closed translator: the METADATA STATE MACHINE of npTDMS's reader -> coq/theories/Gen/PyFuncsSegState.v

Translated with Python `ast` (harness/gen/py2gallina.py + harness/gen/meta_common.py; nptdms is imported only for
the self-test, harness/gen/segstate_selftest.py):

  nptdms/tdms_segment.py  TdmsSegment.read_segment_objects, _update_existing_object, _reuse_previous_object,
                          _reuse_previous_segment_metadata, _get_existing_object, _new_segment_object,
                          _read_object_properties, SegmentIndexCache.get_index,
                          ObjectListKey.__init__ / __eq__ / __hash__
  nptdms/reader.py        TdmsReader._update_object_metadata, _update_object_properties, _get_or_create_object,
                          _update_object_data_type, _update_object_scaler_data_types, and the segment loop of
                          read_metadata (one iteration: _read_segment_metadata's TdmsSegment(..) construction and
                          read_segment_objects call, the three updates, previous_segment, segment_position)

What comes from the AST: the new-object-list / first-segment test, the existing-objects map built ONCE from
the copied list, the three raw-data-index headers and their comparison constants, when an object is copied
before has_data is changed and when it is shared, replace-at-index versus append, the lookup order existing
list -> previous-object map -> new object, the "not seen before" error, which property lists are returned and
under which key, the index cache (key equality, key hash, insertion on a miss), the data-type and scaler-type
consistency checks and their errors, num_values accumulation, last-value-wins property update and the
insertion order of object_metadata.

Conventions.
 * File reads are PARAMETERS: the metadata block a segment's `file.read` calls consume is given LEXED, as the
   model's `list entry` (Model/Tokens.v; byte parsing is tied elsewhere: Proofs/FileSynProofs.v, C01).
   The driver replaces, after checking their exact text,
       num_objects_bytes = file.read(4); num_objects = _struct_unpack(..)[0]   by  num_objects = len(lexed_entries)
       for _ in range(num_objects):                                            by  for lexed_entry in lexed_entries[:num_objects]:
       object_path = types.String.read(file, endianness)                       by  object_path = lexed_entry.path
       raw_data_index_header(_bytes) = ..                                      by  raw_data_index_header = lexed_entry.index_header
       (.., file, endianness) in the calls of the helper methods               by  (.., lexed_entry.idx) / (lexed_entry.props)
       [read_property(file, endianness) for _ in range(num_properties)]        by  lexed_props[:num_properties]
   `endianness` and `file` are NOT in the environment: any other use of them stops the translation.
   `X.read_raw_data_index(file, hdr, endianness)` is the primitive obj_read_raw_data_index X hdr idx: the
   semantic part of TdmsSegmentObject / DaqmxSegmentObject.read_raw_data_index (Model/SegState.v new_object,
   itself tied to the source by Gen/PyFuncsIndex.v), dispatched on the CLASS of X as Python does; a lexed index
   that does not belong to that class or header (impossible for what the lexer returns) is Err EOther.
 * Objects are references: harness/gen/meta_common.py Dealias turns mutation into functional update plus
   write-back, and stops on any mutation whose alias situation is not established (e.g. `new_obj = existing_object`
   followed by `new_obj.has_data = ..`, which would change an earlier segment's object).
 * A TdmsSegmentObject / DaqmxSegmentObject is a Model/SegState.v `sobj`; a fresh DaqmxSegmentObject carries
   `so_daqmx = Some blank_dq` (its class), a fresh TdmsSegmentObject `None` (BaseSegmentObject.__init__ and
   DaqmxSegmentObject.__init__ are checked against their expected text).  A TdmsType class is its enum value.
 * ObjectMetadata is Model/SegState.v `ometa`; a property (name, value) pair read from the file is
   (p_name p, p): the value is represented by the whole typed property.
 * A dict keyed by ObjectListKey is CPython's: an entry matches when the STORED HASHES are equal and
   stored_key.__eq__(lookup_key) holds; hash(str) is a section variable (any function).
 * `self._calculate_chunks()` is Gen/PyFuncsReader.v calculate_chunks_gen on the segment's fields;
   `_number_of_segment_values` is number_of_segment_values_gen.
 * `try: <use of previous_segment.attr ..> except AttributeError: raise ValueError` is entered exactly when
   previous_segment is None, ASSUMING _calculate_chunks raises no AttributeError (its model-level
   AttributeError is unreachable: Proofs/GenSegStateEquiv.v calculate_chunks_no_attribute_error).
 * read_metadata / _read_segment_metadata: the file is its position (`file.tell()`, `file.seek(p, os.SEEK_SET)`);
   `_read_lead_in(file, segment_position, is_index_file)` at a position is the section variable read_lead_in_io
   (the five values it returns; Err EEof is its EOFError; its position arithmetic is Gen/PyFuncsReader.v
   read_lead_in_gen); the metadata block lexed after the lead-in is the section variable lexed_at_io.
   `segment = TdmsSegment(..); properties = segment.read_segment_objects(..)` is new_segment_read_objects (the
   arguments are matched to the parameter names of TdmsSegment.__init__ / read_segment_objects); `while True:` is
   a Fixpoint on fuel whose body is the translated iteration (`break`: the state is final).

Anything unrecognised: message on stderr, exit 1, nothing written.
"""
import ast
import os
import sys

HERE = os.path.dirname(os.path.abspath(__file__))
sys.path.insert(0, HERE)
import py2gallina as T                                             # noqa: E402
from py2gallina import Z, B, NONE, DICT, BYTES, OPT, LIST, TUP, REC  # noqa: E402
import np_sem as N                                                 # noqa: E402
import meta_common as M                                            # noqa: E402
from meta_common import unp, body_of, comment_of                    # noqa: E402

VERIF = M.VERIF
REPO = M.REPO
OUT = os.path.join(VERIF, "coq", "theories", "Gen", "PyFuncsSegState.v")
ME = "gen_pyfuncs_segstate"
D = M.Driver(ME)
die = D.die

SOBJ, ENTRY, IDX, PROP, GSEG, SEGMENT, OMETA, OLKEY = (REC("sobj"), REC("entry"), REC("idx"), REC("prop"), REC("gseg"),
                                                       REC("segment"), REC("ometa"), REC("olkey"))
CLS = ("clsv",)
ZDICT = ("zdict",)
HDICT = ("hdict",)
PAIRS = LIST(TUP(BYTES, PROP))


def ADICT(v):
    return ("adict", v)


ATTR = {
    ("sobj", "path"): ("so_path", BYTES, None),
    ("sobj", "has_data"): ("so_has_data", B, None),
    ("sobj", "number_values"): ("so_nvals", Z, None),
    ("sobj", "data_size"): ("so_dsize", Z, None),
    ("sobj", "data_type"): ("so_dtype", OPT(CLS), None),
    ("sobj", "scaler_data_types"): ("obj_scaler_data_types", OPT(ZDICT), None),
    ("entry", "path"): ("e_path", BYTES, None),
    ("entry", "idx"): ("e_idx", IDX, None),
    ("entry", "index_header"): ("lexed_index_header", Z, None),
    ("entry", "props"): ("lexed_props", PAIRS, None),
    ("gseg", "ordered_objects"): ("gs_objs", LIST(SOBJ), None),
    ("gseg", "object_index"): ("gs_index", OPT(ADICT(Z)), None),
    ("gseg", "next_segment_pos"): ("gs_next", Z, None),
    ("gseg", "data_position"): ("gs_data", Z, None),
    ("gseg", "position"): ("gs_pos", Z, None),
    ("gseg", "toc_mask"): ("gs_toc", Z, None),
    ("gseg", "segment_incomplete"): ("gs_incomplete", B, None),
    ("gseg", "num_chunks"): ("gs_nchunks", Z, None),
    ("gseg", "final_chunk_lengths_override"): ("gs_final", OPT(DICT), None),
    ("segment", "ordered_objects"): ("sg_objs", LIST(SOBJ), None),
    ("segment", "toc_mask"): ("sg_toc", Z, None),
    ("segment", "num_chunks"): ("sg_nchunks", Z, None),
    ("segment", "final_chunk_lengths_override"): ("sg_final", OPT(DICT), None),
    ("segment", "position"): ("sg_pos", Z, None),
    ("segment", "next_segment_pos"): ("sg_next", Z, None),
    ("segment", "data_position"): ("sg_data", Z, None),
    ("segment", "segment_incomplete"): ("sg_incomplete", B, None),
    ("ometa", "properties"): ("om_props", ADICT(PROP), None),
    ("ometa", "data_type"): ("om_dtype", OPT(CLS), None),
    ("ometa", "scaler_data_types"): ("om_scalers", OPT(ZDICT), None),
    ("ometa", "num_values"): ("om_len", Z, None),
    ("olkey", "objects"): ("fst", LIST(SOBJ), None),
    ("olkey", "_hash"): ("snd", Z, None),
}
SETTERS = {
    ("sobj", "has_data"): ("set_has_data", B),
    ("ometa", "properties"): ("om_set_props", ADICT(PROP)),
    ("ometa", "data_type"): ("om_set_dtype", OPT(CLS)),
    ("ometa", "scaler_data_types"): ("om_set_scalers", OPT(ZDICT)),
    ("ometa", "num_values"): ("om_set_len", Z),
}

PRELUDE = """\
(* ---- the Python primitives the translation relies on (fixed text) ---- *)
Definition err_eqb (a b : err) : bool :=
  match a, b with
  | EEof, EEof | EValue, EValue | EKey, EKey | EStruct, EStruct | ENotImpl, ENotImpl | EIndex, EIndex
  | ERuntime, ERuntime | EType, EType | EOther, EOther | EFuel, EFuel => true
  | _, _ => false
  end.
(* try: r  except E: h *)
Definition py_catch {A} (e : err) (r h : res A) : res A :=
  match r with
  | Err e' => if err_eqb e' e then h else r
  | Ok _ => r
  end.
""" + M.PRELUDE_OBJECTS + """\

(* ---- the lexed metadata block: what the file reads of read_segment_objects deliver ---- *)
(* struct.unpack(endianness + 'L', file.read(4))[0] at the position of a raw data index *)
Definition idx_header (i : idx) : Z :=
  match i with
  | INoData => RAW_DATA_INDEX_NO_DATA
  | IMatchPrev => RAW_DATA_INDEX_MATCHES_PREVIOUS
  | IFull lf _ _ _ _ => lf
  | IDaqmx kind _ _ _ _ _ => kind
  end.
Definition lexed_index_header (x : entry) : Z := idx_header (e_idx x).
(* read_property(file, endianness) -> (prop_name, value): the value is the typed property *)
Definition lexed_props (x : entry) : list (bytes * prop) := map (fun p => (p_name p, p)) (e_props x).

(* ---- segment objects ---- *)
(* BaseSegmentObject.__init__(path) [TdmsSegmentObject has no __init__ of its own] *)
Definition new_tdms_object (p : bytes) : sobj := mkSobj p false 0 0 None None.
(* DaqmxSegmentObject.__init__(path): the same fields, daqmx_metadata = None; the CLASS is recorded as
   so_daqmx = Some blank_dq *)
Definition blank_dq : dq := mkDq 0 [] [].
Definition new_daqmx_object (p : bytes) : sobj := mkSobj p false 0 0 None (Some blank_dq).
(* X.read_raw_data_index(file, raw_data_index_header, endianness): the class of X decides which reader
   runs; the fields are those of Model/SegState.v new_object on the lexed index; has_data is not touched *)
Definition obj_read_raw_data_index (o : sobj) (hdr : Z) (i : idx) : res sobj :=
  if negb (hdr =? idx_header i) then Err EOther
  else
    match so_daqmx o, i with
    | None, IFull _ _ _ _ _ | Some _, IDaqmx _ _ _ _ _ _ =>
      do o' <- new_object (so_path o) i;
      Ok (mkSobj (so_path o) (so_has_data o) (so_nvals o') (so_dsize o') (so_dtype o') (so_daqmx o'))
    | _, _ => Err EOther
    end.
(* DaqmxSegmentObject.scaler_data_types / BaseSegmentObject.scaler_data_types (checked against their text):
   None without DAQmx metadata, else dict(scale_id -> data type) *)
Definition obj_scaler_data_types (o : sobj) : option (list (Z * Z)) :=
  match so_daqmx o with
  | None => None
  | Some q => Some (scaler_types q)
  end.
(* dict == dict / None *)
Definition opt_zdict_eqb (a b : option (list (Z * Z))) : bool :=
  match a, b with
  | None, None => true
  | Some x, Some y => scaler_types_eqb x y
  | _, _ => false
  end.

(* a TdmsSegment as the NEXT segment sees it *)
Record gseg := mkGseg {
  gs_pos : Z; gs_toc : Z; gs_next : Z; gs_data : Z; gs_incomplete : bool;      (* TdmsSegment.__init__'s arguments *)
  gs_objs : list sobj; gs_index : option (alist Z);                             (* ordered_objects, object_index *)
  gs_nchunks : Z; gs_final : option (alist Z) }.                                (* num_chunks, final_chunk_lengths_override *)
(* the same segment as Model/SegState.v / Gen/PyFuncsReader.v see it (object_index is not used there) *)
Definition gseg_segment (g : gseg) : segment :=
  mkSeg (gs_pos g) (gs_toc g) (gs_next g) (gs_data g) (gs_incomplete g) (gs_objs g) [] (gs_nchunks g) (gs_final g).

(* ---- ObjectMetadata ---- *)
Definition om_set_props (m : ometa) (v : alist prop) : ometa := mkOmeta v (om_dtype m) (om_scalers m) (om_len m).
Definition om_set_dtype (m : ometa) (v : option Z) : ometa := mkOmeta (om_props m) v (om_scalers m) (om_len m).
Definition om_set_scalers (m : ometa) (v : option (list (Z * Z))) : ometa := mkOmeta (om_props m) (om_dtype m) v (om_len m).
Definition om_set_len (m : ometa) (v : Z) : ometa := mkOmeta (om_props m) (om_dtype m) (om_scalers m) v.

(* ---- ObjectListKey: (objects, _hash) ---- *)
Definition olkey := (list sobj * Z)%type.
"""

PRELUDE_HDICT = """\
(* ---- a dict keyed by ObjectListKey (CPython lookup: equal stored hash, then stored.__eq__(key)) ---- *)
Definition hdict := list (olkey * alist Z).
Fixpoint hdict_get (k : olkey) (d : hdict) : res (option (alist Z)) :=
  match d with
  | [] => Ok None
  | (k', v) :: r =>
    do h1 <- object_list_key_hash_gen k';
    do h2 <- object_list_key_hash_gen k;
    if h1 =? h2 then
      do same <- object_list_key_eq_gen k' k;
      if same then Ok (Some v) else hdict_get k r
    else hdict_get k r
  end.
Fixpoint hdict_set (k : olkey) (v : alist Z) (d : hdict) : res hdict :=
  match d with
  | [] => Ok [(k, v)]
  | (k', v') :: r =>
    do h1 <- object_list_key_hash_gen k';
    do h2 <- object_list_key_hash_gen k;
    do same <- (if h1 =? h2 then object_list_key_eq_gen k' k else Ok false);
    if same then Ok ((k', v) :: r) else do r' <- hdict_set k v r; Ok ((k', v') :: r')
  end.
"""

PRELUDE_LOOP = """\
(* segment = TdmsSegment(position, toc_mask, next_segment_pos, data_position, segment_incomplete);
   properties = segment.read_segment_objects(file, previous_segment_objects, index_cache, previous_segment):
   the segment object afterwards, the returned properties, the index cache *)
Definition new_segment_read_objects (position toc_mask next_segment_pos data_position : Z) (segment_incomplete : bool)
           (lexed : list entry) (previous_segment_objects : alist sobj) (index_cache : option hdict) (previous_segment : option gseg)
  : res (option (alist (list (bytes * prop))) * gseg * option hdict) :=
  do r__ <- read_segment_objects_gen str_hash position toc_mask next_segment_pos data_position segment_incomplete lexed
                                     previous_segment_objects index_cache previous_segment;
  let '(props, (objs, idx, nch, fin, cache)) := r__ in
  Ok (props, mkGseg position toc_mask next_segment_pos data_position segment_incomplete objs idx nch fin, cache).
"""

PRELUDE_LOOP2 = """\
(* try: segment, properties = self._read_segment_metadata(..)  except EOFError: break  -- None: the loop ends *)
Definition read_segment_metadata_or_eof (self__prev_segment_objects : alist sobj) (file_pos segment_position : Z)
           (index_cache : option hdict) (previous_segment : option gseg)
  : res (option (gseg * option (alist (list (bytes * prop))) * option hdict)) :=
  match read_segment_metadata_gen self__prev_segment_objects file_pos segment_position index_cache previous_segment with
  | Ok (seg, props, cache) => Ok (Some (seg, props, cache))
  | Err EEof => Ok None
  | Err e => Err e
  end.
"""

PRELUDE_LOOP3 = """\
(* while True: <iteration> *)
Fixpoint read_metadata_loop_gen (fuel : nat) (reading_index_file : bool) (st : rm_state) : res rm_state :=
  match fuel with
  | O => Err EFuel
  | S f =>
    let '(prev, om, segs, pseg, segpos, cache, fpos) := st in
    do r__ <- read_metadata_iteration_gen prev om segs pseg segpos cache fpos reading_index_file;
    match r__ with
    | None => Ok st
    | Some st' => read_metadata_loop_gen f reading_index_file st'
    end
  end.
"""

BASE_INIT = ["self.path = path", "self.number_values = 0", "self.data_size = 0", "self.has_data = False", "self.data_type = None"]
DAQMX_INIT = ["super(DaqmxSegmentObject, self).__init__(path)", "self.daqmx_metadata = None"]
OMETA_INIT = ["self.properties = OrderedDict()", "self.data_type = None", "self.scaler_data_types = None", "self.num_values = 0"]
SEGMENT_INIT = ["self.position = position", "self.toc_mask = toc_mask", "self.next_segment_pos = next_segment_pos",
                "self.data_position = data_position", "self.num_chunks = 0", "self.final_chunk_lengths_override = None",
                "self.ordered_objects = None", "self.object_index = None", "self.segment_incomplete = segment_incomplete",
                "self.has_daqmx_objects_cached = None", "self.chunk_size_cached = None", "self.data_objects_cached = None"]


class Lex(ast.NodeTransformer):
    """(.., file, endianness) -> the lexed argument of the callee"""

    def __init__(self, lexed):
        self.lexed = lexed          # callee text -> expression text replacing the trailing (file, endianness)

    def visit_Call(self, n):
        self.generic_visit(n)
        fn = unp(n.func)
        if fn in self.lexed and len(n.args) >= 2 and [unp(a) for a in n.args[-2:]] == ["file", "endianness"] and not n.keywords:
            n.args = n.args[:-2] + [ast.parse(self.lexed[fn], mode="eval").body]
        return n


def replace_stmts(stmts, table, where):
    """exact-text statement replacement (each entry must be used exactly once); value None deletes"""
    used = {k: 0 for k in table}

    def go(ss):
        out = []
        for s in ss:
            if T.is_skip(s):
                continue
            txt = unp(s)
            if txt in table:
                used[txt] += 1
                if table[txt] is not None:
                    new = ast.parse(table[txt]).body
                    for x in new:
                        ast.copy_location(x, s)
                        for y in ast.walk(x):
                            ast.copy_location(y, s)
                    out.extend(new)
                continue
            for fld in ("body", "orelse"):
                if isinstance(getattr(s, fld, None), list) and not isinstance(s, ast.Try):
                    setattr(s, fld, go(getattr(s, fld)))
            if isinstance(s, ast.Try):
                s.body = go(s.body)
                for hd in s.handlers:
                    hd.body = go(hd.body)
            out.append(s)
        return out
    out = go(stmts)
    for k, n in used.items():
        if n != 1:
            die("%s: expected exactly one statement `%s`, found %d" % (where, k, n))
    return out


def translate():
    import copy as _copy
    src_c, tree_c = D.parse("common.py")
    src_b, tree_b = D.parse("base_segment.py")
    src_d, tree_d = D.parse("daqmx.py")
    src_s, tree_s = D.parse("tdms_segment.py")
    src_r, tree_r = D.parse("reader.py")

    # ---- fixed-text checks of what the prelude states
    D.expect_body(D.find(tree_b, "__init__", "BaseSegmentObject"), BASE_INIT, "BaseSegmentObject.__init__")
    D.expect_body(D.find(tree_b, "scaler_data_types", "BaseSegmentObject", decorators=("property",)), ["return None"],
                  "BaseSegmentObject.scaler_data_types")
    D.expect_body(D.find(tree_d, "__init__", "DaqmxSegmentObject"), DAQMX_INIT, "DaqmxSegmentObject.__init__")
    D.expect_body(D.find(tree_d, "scaler_data_types", "DaqmxSegmentObject", decorators=("property",)),
                  ["if self.daqmx_metadata is None:\n    return None",
                   "return dict(((s.scale_id, s.data_type) for s in self.daqmx_metadata.scalers))"],
                  "DaqmxSegmentObject.scaler_data_types")
    tso = D.klass(tree_s, "TdmsSegmentObject")
    if [unp(b_) for b_ in tso.bases] != ["BaseSegmentObject"] or any(isinstance(n, ast.FunctionDef) and n.name in
                                                                      ("__init__", "scaler_data_types", "__eq__", "__hash__", "__copy__")
                                                                      for n in tso.body):
        die("TdmsSegmentObject: bases / special methods")
    dso = D.klass(tree_d, "DaqmxSegmentObject")
    if [unp(b_) for b_ in dso.bases] != ["BaseSegmentObject"] or any(isinstance(n, ast.FunctionDef) and n.name in
                                                                      ("__eq__", "__hash__", "__copy__", "__deepcopy__") for n in dso.body):
        die("DaqmxSegmentObject: bases / special methods")
    D.no_special_methods(tree_s, "TdmsSegment", ("__bool__", "__len__", "__eq__", "__getattr__", "__setattr__"))
    D.expect_body(D.find(tree_s, "__init__", "TdmsSegment"), SEGMENT_INIT, "TdmsSegment.__init__")
    D.expect_args(D.find(tree_s, "__init__", "TdmsSegment"),
                  ["self", "position", "toc_mask", "next_segment_pos", "data_position", "segment_incomplete"])
    D.expect_body(D.find(tree_r, "__init__", "ObjectMetadata"), OMETA_INIT, "ObjectMetadata.__init__")
    D.expect_body(D.find(tree_s, "__init__", "SegmentIndexCache"), ["self._indexes = {}"], "SegmentIndexCache.__init__")
    imp = [n for n in tree_s.body if isinstance(n, ast.ImportFrom) and n.module == "nptdms.daqmx"]
    if len(imp) != 1 or not {"FORMAT_CHANGING_SCALER", "DIGITAL_LINE_SCALER", "DaqmxSegmentObject"} <= {a.name for a in imp[0].names
                                                                                                           if a.asname is None}:
        die("tdms_segment.py no longer imports FORMAT_CHANGING_SCALER, DIGITAL_LINE_SCALER, DaqmxSegmentObject from nptdms.daqmx")
    if not any(isinstance(n, ast.ImportFrom) and n.module == "copy" and [(a.name, a.asname) for a in n.names] == [("copy", None)]
               for n in tree_s.body):
        die("tdms_segment.py no longer has `from copy import copy`")

    cx = T.Cx(dict(ATTR), M.toc_constants(tree_c, die), {}, {("sobj", "DaqmxSegmentObject"): "(negb (is_none (so_daqmx %s)))"})
    cx.kwcalls = False
    cx.genexp_as_list = True
    cx.try_catch = True
    sem = N.NpSem()
    cx.np = sem
    hooks = M.Hooks(sem, SETTERS, cls_type=CLS)
    for nm, tree in (("RAW_DATA_INDEX_NO_DATA", tree_s), ("RAW_DATA_INDEX_MATCHES_PREVIOUS", tree_s),
                     ("FORMAT_CHANGING_SCALER", tree_d), ("DIGITAL_LINE_SCALER", tree_d)):
        cx.globals[nm] = ("%d" % D.module_int(tree, nm), Z)
    sigs = {}

    def fun(gen, stmts, params, env0, outputs, comment, **kw):
        rty = T.function(cx, gen, stmts, params, env0, outputs, comment, **kw)
        sigs[gen] = (params, rty)
        return rty

    SEGFIELDS = [("self.position", Z), ("self.toc_mask", Z), ("self.next_segment_pos", Z), ("self.data_position", Z),
                 ("self.segment_incomplete", B)]

    def calls(e, env, h, cx_):
        f = e.func
        fn = unp(f)
        if e.keywords:
            return None
        if fn in ("TdmsSegmentObject", "DaqmxSegmentObject") and len(e.args) == 1:
            p, pty = T.ex(e.args[0], env, h, cx_)
            if pty != BYTES:
                T.fail(e, "%s of %r" % (fn, pty))
            return "(%s %s)" % ("new_tdms_object" if fn == "TdmsSegmentObject" else "new_daqmx_object", p), SOBJ
        if fn == "read_raw_data_index__" and len(e.args) == 3:
            o, oty = T.ex(e.args[0], env, h, cx_)
            hd = T.as_int(e.args[1], env, h, cx_)
            i, ity = T.ex(e.args[2], env, h, cx_)
            if oty != SOBJ or ity != IDX:
                T.fail(e, "read_raw_data_index of %r with %r" % (oty, ity))
            return sem.hoist(e, h, cx_, "obj_read_raw_data_index %s %s %s" % (o, hd, i)), SOBJ
        if fn == "calculate_chunks__" and not e.args:
            for k, _ in SEGFIELDS + [("self.ordered_objects", None)]:
                if k not in env:
                    T.fail(e, "_calculate_chunks: %s is not known here" % k)
            if env["self.ordered_objects"][1] != LIST(SOBJ):
                T.fail(e, "_calculate_chunks with ordered_objects of type %r" % (env["self.ordered_objects"][1],))
            seg = "(mkSeg %s %s %s %s %s %s [] 0 None)" % (
                env["self.position"][0], env["self.toc_mask"][0], env["self.next_segment_pos"][0], env["self.data_position"][0],
                env["self.segment_incomplete"][0], env["self.ordered_objects"][0])
            return sem.hoist(e, h, cx_, "calculate_chunks_gen %s" % seg), TUP(Z, OPT(DICT))
        if fn == "hash" and len(e.args) == 1:
            t, ty = T.ex(e.args[0], env, h, cx_)
            if ty != BYTES:
                T.fail(e, "hash of %r" % (ty,))
            return "(str_hash %s)" % t, Z
        if fn == "ObjectListKey" and len(e.args) == 1 and "ObjectListKey" in cx_.callees:
            return None         # an ordinary call of the translated __init__
        if fn == "new_props_dict__" and not e.args:
            return "[]", ADICT(PAIRS)
        if fn == "new_hdict__" and not e.args:
            return "[]", HDICT
        if fn == "ObjectMetadata" and not e.args:
            return "ometa0", OMETA
        if fn == "SegmentIndexCache" and not e.args:
            return "[]", HDICT
        if fn == "hdict_get__" and len(e.args) == 2:
            d, dty = T.ex(e.args[0], env, h, cx_)
            k, kty = T.ex(e.args[1], env, h, cx_)
            if dty != HDICT or kty != OLKEY:
                T.fail(e, "dict lookup of %r in %r" % (kty, dty))
            o = sem.hoist(e, h, cx_, "hdict_get %s %s" % (k, d))
            return sem.hoist(e, h, cx_, "need EKey %s" % o), ADICT(Z)
        if fn == "hdict_set__" and len(e.args) == 3:
            d, dty = T.ex(e.args[0], env, h, cx_)
            k, kty = T.ex(e.args[1], env, h, cx_)
            v, vty = T.ex(e.args[2], env, h, cx_)
            if dty != HDICT or kty != OLKEY or vty != ADICT(Z):
                T.fail(e, "dict store of %r at %r into %r" % (vty, kty, dty))
            return sem.hoist(e, h, cx_, "hdict_set %s %s %s" % (k, v, d)), HDICT
        return None

    def compare(e, env, h, cx_):
        if len(e.ops) == 1 and isinstance(e.ops[0], (ast.Eq, ast.NotEq)):
            try:
                a, aty = T.ex(e.left, env, None, cx_)
                b, bty = T.ex(e.comparators[0], env, None, cx_)
            except T.Unsupported:
                return None
            ok = (ZDICT, OPT(ZDICT))
            if aty in ok and bty in ok:
                c = "(opt_zdict_eqb %s %s)" % (T.coerce(a, aty, OPT(ZDICT)), T.coerce(b, bty, OPT(ZDICT)))
                return ("(negb %s)" % c if isinstance(e.ops[0], ast.NotEq) else c), B
        return None

    sem.extra_calls.append(calls)
    sem.extra_compare.append(compare)
    old_coqty = T.coqty

    def coqty2(t):
        if t == CLS:
            return "Z"
        if t == ZDICT:
            return "(list (Z * Z))"
        if t == HDICT:
            return "hdict"
        return old_coqty(t)
    T.coqty = coqty2
    try:
        CS = "TdmsSegment"

        def read_index_call(c, x):
            # X.read_raw_data_index(file, hdr, endianness)
            if [unp(a) for a in c.args] != ["file", "raw_data_index_header", "endianness"] or c.keywords:
                die("line %d: arguments of read_raw_data_index" % c.lineno)
            return M.call("read_raw_data_index__", M.name(x), M.name("raw_data_index_header"), M.name("lexed_idx"))

        def dealias(stmts, **kw):
            return M.Dealias(die, fresh_calls=("self._new_segment_object", "TdmsSegmentObject", "DaqmxSegmentObject", "ObjectMetadata"),
                             getters={"self._get_or_create_object": "self.object_metadata"},
                             mutating_methods={"read_raw_data_index": read_index_call},
                             mutating_funcs={"_update_object_data_type": 1, "_update_object_scaler_data_types": 1}, **kw).run(stmts)

        # ---- _new_segment_object(self, object_path, raw_data_index_header)
        f = D.find(tree_s, "_new_segment_object", CS)
        D.expect_args(f, ["self", "object_path", "raw_data_index_header"])
        params = [("object_path", BYTES), ("raw_data_index_header", Z)]
        rty = fun("new_segment_object_gen", f.body, params, {n: (n, t) for n, t in params}, [], comment_of("tdms_segment.py", CS, f))
        if rty != SOBJ:
            die("_new_segment_object returns %r" % (rty,))
        cx.callees["self._new_segment_object"] = ("new_segment_object_gen", [BYTES, Z], SOBJ, [])

        # ---- _update_existing_object(self, existing_object_index, existing_object, raw_data_index_header, file, endianness)
        f = D.find(tree_s, "_update_existing_object", CS)
        D.expect_args(f, ["self", "existing_object_index", "existing_object", "raw_data_index_header", "file", "endianness"])
        params = [("self_ordered_objects", LIST(SOBJ)), ("existing_object_index", Z), ("existing_object", SOBJ),
                  ("raw_data_index_header", Z), ("lexed_idx", IDX)]
        env0 = {"self.ordered_objects": ("self_ordered_objects", LIST(SOBJ))}
        env0.update({n: (n, t) for n, t in params[1:]})
        fun("update_existing_object_gen", dealias(f.body), params, env0, ["self.ordered_objects"], comment_of("tdms_segment.py", CS, f))
        cx.callees["update_existing_object__"] = ("update_existing_object_gen", [LIST(SOBJ), Z, SOBJ, Z, IDX], LIST(SOBJ), [])

        # ---- _reuse_previous_object(self, previous_segment_obj, raw_data_index_header, file, endianness)
        f = D.find(tree_s, "_reuse_previous_object", CS)
        D.expect_args(f, ["self", "previous_segment_obj", "raw_data_index_header", "file", "endianness"])
        params = [("self_ordered_objects", LIST(SOBJ)), ("previous_segment_obj", SOBJ), ("raw_data_index_header", Z), ("lexed_idx", IDX)]
        env0 = {"self.ordered_objects": ("self_ordered_objects", LIST(SOBJ))}
        env0.update({n: (n, t) for n, t in params[1:]})
        fun("reuse_previous_object_gen", dealias(f.body), params, env0, ["self.ordered_objects"], comment_of("tdms_segment.py", CS, f))
        cx.callees["reuse_previous_object__"] = ("reuse_previous_object_gen", [LIST(SOBJ), SOBJ, Z, IDX], LIST(SOBJ), [])

        # ---- _get_existing_object(self, existing_objects, object_path)
        f = D.find(tree_s, "_get_existing_object", CS)
        D.expect_args(f, ["self", "existing_objects", "object_path"])
        D.expect_body(f, ["try:\n    return existing_objects[object_path]\nexcept KeyError:\n    return (None, None)"], "_get_existing_object")
        body = replace_stmts(_copy.deepcopy(body_of(f)), {"return existing_objects[object_path]":
                                                         "(found_index__v, found_object__v) = existing_objects[object_path]\n"
                                                         "return (found_index__v, found_object__v)"}, "_get_existing_object")
        EXISTING = ADICT(TUP(Z, SOBJ))
        params = [("existing_objects", EXISTING), ("object_path", BYTES)]
        rty = fun("get_existing_object_gen", body, params, {n: (n, t) for n, t in params}, [], comment_of("tdms_segment.py", CS, f))
        if rty != TUP(OPT(Z), OPT(SOBJ)):
            die("_get_existing_object returns %r" % (rty,))
        cx.callees["self._get_existing_object"] = ("get_existing_object_gen", [EXISTING, BYTES], rty, [])

        # ---- _read_object_properties(self, file, endianness)
        f = D.find(tree_s, "_read_object_properties", CS)
        D.expect_args(f, ["self", "file", "endianness"])
        body = replace_stmts(_copy.deepcopy(body_of(f)), {
            "num_properties_bytes = file.read(4)": None,
            "num_properties = _struct_unpack(endianness + 'L', num_properties_bytes)[0]": "num_properties = len(lexed_props)",
        }, "_read_object_properties")
        want = "[read_property(file, endianness) for _ in range(num_properties)]"
        n_comp = 0
        for s in body:
            for n in ast.walk(s):
                if isinstance(n, ast.Return) and n.value is not None and unp(n.value) == want:
                    n.value = ast.parse("lexed_props[:num_properties]", mode="eval").body
                    n_comp += 1
        if n_comp != 1:
            die("_read_object_properties: expected one `return %s`" % want)
        ast.fix_missing_locations(ast.Module(body=body, type_ignores=[]))
        params = [("lexed_props", PAIRS)]
        rty = fun("read_object_properties_gen", body, params, {"lexed_props": ("lexed_props", PAIRS)}, [],
                  comment_of("tdms_segment.py", CS, f, note=": `lexed_props` are the properties the reads deliver"))
        if rty != OPT(PAIRS):
            die("_read_object_properties returns %r" % (rty,))
        cx.callees["self._read_object_properties"] = ("read_object_properties_gen", [PAIRS], rty, [])

        cx.defs.append("Section SegStateGen.\n(* hash(str): any function *)\nVariable str_hash : bytes -> Z.")

        # ---- ObjectListKey
        CK = "ObjectListKey"
        D.no_special_methods(tree_s, CK, ("__ne__", "__lt__", "__le__", "__gt__", "__ge__"))
        f = D.find(tree_s, "__init__", CK)
        D.expect_args(f, ["self", "objects"])
        params = [("objects", LIST(SOBJ))]
        rty = fun("object_list_key_init_gen", f.body, params, {"objects": ("objects", LIST(SOBJ))}, ["self.objects", "self._hash"],
                  comment_of("tdms_segment.py", CK, f))
        if rty != TUP(LIST(SOBJ), Z):
            die("ObjectListKey.__init__ leaves %r" % (rty,))
        f = D.find(tree_s, "__eq__", CK)
        D.expect_args(f, ["self", "other"])
        params = [("self", OLKEY), ("other", OLKEY)]
        env0 = {"self.objects": ("(fst self)", LIST(SOBJ)), "self._hash": ("(snd self)", Z), "other": ("other", OLKEY)}
        rty = fun("object_list_key_eq_gen", f.body, params, env0, [], comment_of("tdms_segment.py", CK, f))
        if rty != B:
            die("ObjectListKey.__eq__ returns %r" % (rty,))
        f = D.find(tree_s, "__hash__", CK)
        D.expect_args(f, ["self"])
        rty = fun("object_list_key_hash_gen", f.body, [("self", OLKEY)],
                  {"self.objects": ("(fst self)", LIST(SOBJ)), "self._hash": ("(snd self)", Z)}, [], comment_of("tdms_segment.py", CK, f))
        if rty != Z:
            die("ObjectListKey.__hash__ returns %r" % (rty,))
        cx.defs.append(PRELUDE_HDICT)
        cx.callees["ObjectListKey"] = ("object_list_key_init_gen", [LIST(SOBJ)], OLKEY, [])

        # ---- SegmentIndexCache.get_index(self, object_list)
        CC = "SegmentIndexCache"
        f = D.find(tree_s, "get_index", CC)
        D.expect_args(f, ["self", "object_list"])
        body = replace_stmts(_copy.deepcopy(body_of(f)), {
            "return self._indexes[key]": "found_index__v = hdict_get__(self._indexes, key)\nreturn found_index__v",
            "self._indexes[key] = index": "self._indexes = hdict_set__(self._indexes, key, index)"}, "SegmentIndexCache.get_index")
        params = [("self__indexes", HDICT), ("object_list", LIST(SOBJ))]
        env0 = {"self._indexes": ("self__indexes", HDICT), "object_list": ("object_list", LIST(SOBJ))}
        rty = fun("get_index_gen", body, params, env0, [], comment_of("tdms_segment.py", CC, f), with_state=["self._indexes"])
        if rty != TUP(ADICT(Z), HDICT):
            die("SegmentIndexCache.get_index returns %r" % (rty,))
        cx.callees["get_index__"] = ("get_index_gen", [HDICT, LIST(SOBJ)], rty, [])

        # ---- _reuse_previous_segment_metadata(self, previous_segment)
        f = D.find(tree_s, "_reuse_previous_segment_metadata", CS)
        D.expect_args(f, ["self", "previous_segment"])
        body = body_of(f)
        ok = (len(body) == 1 and isinstance(body[0], ast.Try) and len(body[0].handlers) == 1 and not body[0].orelse
              and not body[0].finalbody and unp(body[0].handlers[0].type) == "AttributeError" and body[0].handlers[0].name is None
              and len(body[0].handlers[0].body) == 1 and isinstance(body[0].handlers[0].body[0], ast.Raise))
        if not ok:
            die("_reuse_previous_segment_metadata: shape (try: .. except AttributeError: raise ..)")
        tb = [s for s in body[0].body if not T.is_skip(s)]
        for s in tb:
            for n in ast.walk(s):
                if isinstance(n, ast.Attribute) and not (isinstance(n.value, ast.Name) and n.value.id in ("self", "previous_segment")):
                    die("_reuse_previous_segment_metadata: attribute access %s inside the try" % unp(n))
                if isinstance(n, ast.Call) and unp(n) != "self._calculate_chunks()":
                    die("_reuse_previous_segment_metadata: call %s inside the try" % unp(n))
        if not any(isinstance(n, ast.Attribute) and isinstance(n.value, ast.Name) and n.value.id == "previous_segment"
                   for n in ast.walk(tb[0])):
            die("_reuse_previous_segment_metadata: the first statement of the try does not read previous_segment")
        guard = ast.If(test=ast.parse("previous_segment is None", mode="eval").body, body=[body[0].handlers[0].body[0]], orelse=[])
        stmts = replace_stmts([guard] + _copy.deepcopy(tb), {
            "self._calculate_chunks()": "(self.num_chunks, self.final_chunk_lengths_override) = calculate_chunks__()"},
            "_reuse_previous_segment_metadata")
        ast.fix_missing_locations(ast.Module(body=stmts, type_ignores=[]))
        params = [(T.cname(k), t) for k, t in SEGFIELDS] + [("previous_segment", OPT(GSEG))]
        env0 = {k: (T.cname(k), t) for k, t in SEGFIELDS}
        env0["previous_segment"] = ("previous_segment", OPT(GSEG))
        outs = ["self.ordered_objects", "self.object_index", "self.num_chunks", "self.final_chunk_lengths_override"]
        STATE = TUP(LIST(SOBJ), OPT(ADICT(Z)), Z, OPT(DICT))
        rty = fun("reuse_previous_segment_metadata_gen", stmts, params, env0, outs, comment_of("tdms_segment.py", CS, f))
        if rty != STATE:
            die("_reuse_previous_segment_metadata leaves %r" % (rty,))
        cx.callees["self._reuse_previous_segment_metadata"] = ("reuse_previous_segment_metadata_gen", [OPT(GSEG)], STATE,
                                                               [k for k, _ in SEGFIELDS])

        # ---- read_segment_objects(self, file, previous_segment_objects, index_cache, previous_segment)
        f = D.find(tree_s, "read_segment_objects", CS)
        D.expect_args(f, ["self", "file", "previous_segment_objects", "index_cache", "previous_segment"])
        body = _copy.deepcopy(body_of(f))
        body = [Lex({"self._update_existing_object": "lexed_entry.idx", "self._reuse_previous_object": "lexed_entry.idx",
                     "self._read_object_properties": "lexed_entry.props"}
                    ).visit(s) for s in body]
        body = replace_stmts(body, {
            "self._reuse_previous_segment_metadata(previous_segment)":
                "(self.ordered_objects, self.object_index, self.num_chunks, self.final_chunk_lengths_override) = "
                "self._reuse_previous_segment_metadata(previous_segment)",
            "return": "return None",
            "endianness = '>' if self.toc_mask & toc_properties['kTocBigEndian'] else '<'": None,
            "num_objects_bytes = file.read(4)": None,
            "num_objects = _struct_unpack(endianness + 'L', num_objects_bytes)[0]": "num_objects = len(lexed_entries)",
            "object_path = types.String.read(file, endianness)": "object_path = lexed_entry.path",
            "raw_data_index_header_bytes = file.read(4)": None,
            "raw_data_index_header = _struct_unpack(endianness + 'L', raw_data_index_header_bytes)[0]":
                "raw_data_index_header = lexed_entry.index_header",
            "existing_object_index, existing_object = self._get_existing_object(existing_objects, object_path) "
            "if existing_objects is not None else (None, None)":
                "if existing_objects is not None:\n"
                "    (existing_object_index, existing_object) = self._get_existing_object(existing_objects, object_path)\n"
                "else:\n    existing_object_index = None\n    existing_object = None",
            "self._update_existing_object(existing_object_index, existing_object, raw_data_index_header, lexed_entry.idx)":
                "self.ordered_objects = update_existing_object__(self.ordered_objects, existing_object_index, existing_object, "
                "raw_data_index_header, lexed_entry.idx)",
            "self._reuse_previous_object(previous_segment_obj, raw_data_index_header, lexed_entry.idx)":
                "self.ordered_objects = reuse_previous_object__(self.ordered_objects, previous_segment_obj, raw_data_index_header, "
                "lexed_entry.idx)",
            "properties = {}": "properties = new_props_dict__()",
            "self.object_index = index_cache.get_index(self.ordered_objects)":
                "(self.object_index, index_cache) = get_index__(index_cache, self.ordered_objects)",
            "self._calculate_chunks()": "(self.num_chunks, self.final_chunk_lengths_override) = calculate_chunks__()",
        }, "read_segment_objects")
        loops = [s for s in body if isinstance(s, ast.For)]
        if len(loops) != 1 or unp(loops[0].target) != "_" or unp(loops[0].iter) != "range(num_objects)" or loops[0].orelse:
            die("read_segment_objects: the loop `for _ in range(num_objects):` was not found")
        loops[0].target = M.name("lexed_entry", ast.Store())
        loops[0].iter = ast.parse("lexed_entries[:num_objects]", mode="eval").body

        def read_index_call2(c, x):
            if [unp(a) for a in c.args] != ["file", "raw_data_index_header", "endianness"] or c.keywords:
                die("line %d: arguments of read_raw_data_index" % c.lineno)
            return M.call("read_raw_data_index__", M.name(x), M.name("raw_data_index_header"),
                          ast.parse("lexed_entry.idx", mode="eval").body)
        body = M.Dealias(die, fresh_calls=("self._new_segment_object",),
                         mutating_methods={"read_raw_data_index": read_index_call2}).run(body)
        params = [(T.cname(k), t) for k, t in SEGFIELDS] + [("lexed_entries", LIST(ENTRY)), ("previous_segment_objects", ADICT(SOBJ)),
                                                            ("index_cache", OPT(HDICT)), ("previous_segment", OPT(GSEG))]
        env0 = {k: (T.cname(k), t) for k, t in SEGFIELDS}
        env0.update({n: (n, t) for n, t in params[len(SEGFIELDS):]})
        env0.update({"self.ordered_objects": ("None", NONE), "self.object_index": ("None", NONE), "self.num_chunks": ("0", Z),
                     "self.final_chunk_lengths_override": ("None", NONE)})
        st_keys = ["self.ordered_objects", "self.object_index", "self.num_chunks", "self.final_chunk_lengths_override", "index_cache"]
        rty = fun("read_segment_objects_gen", body, params, env0, [],
                  comment_of("tdms_segment.py", CS, f, note=": `lexed_entries` is the metadata block the reads deliver; the result is\n"
                             "     (properties, (ordered_objects, object_index, num_chunks, final_chunk_lengths_override, index_cache))"),
                  with_state=st_keys)
        RSO = TUP(OPT(ADICT(PAIRS)), TUP(LIST(SOBJ), OPT(ADICT(Z)), Z, OPT(DICT), OPT(HDICT)))
        if rty != RSO:
            die("read_segment_objects returns %r" % (rty,))
        cx.defs.append("End SegStateGen.")

        # ---- reader.py
        CR = "TdmsReader"
        for nm, gen, cmp_attr in (("_update_object_data_type", "update_object_data_type_gen", "data_type"),
                                  ("_update_object_scaler_data_types", "update_object_scaler_data_types_gen", "scaler_data_types")):
            f = D.find(tree_r, nm)
            D.expect_args(f, ["path", "obj", "segment_object"])
            params = [("path", BYTES), ("obj", OMETA), ("segment_object", SOBJ)]
            rty = fun(gen, dealias(f.body, owned=("obj",)), params, {n: (n, t) for n, t in params}, ["obj"], comment_of("reader.py", None, f))
            if rty != OMETA:
                die("%s leaves %r" % (nm, rty))
            cx.callees[nm] = (gen, [BYTES, OMETA, SOBJ], OMETA, [])
        cx.callees["_number_of_segment_values"] = ("number_of_segment_values_gen", [SOBJ, SEGMENT], Z, [])

        f = D.find(tree_r, "_get_or_create_object", CR)
        D.expect_args(f, ["self", "path"])
        params = [("self_object_metadata", ADICT(OMETA)), ("path", BYTES)]
        env0 = {"self.object_metadata": ("self_object_metadata", ADICT(OMETA)), "path": ("path", BYTES)}
        rty = fun("get_or_create_object_gen", dealias(f.body), params, env0, [], comment_of("reader.py", CR, f), with_state=["self.object_metadata"])
        if rty != TUP(OMETA, ADICT(OMETA)):
            die("_get_or_create_object returns %r" % (rty,))
        cx.callees["self._get_or_create_object"] = ("get_or_create_object_gen", [BYTES], rty, ["self.object_metadata"])

        def with_getter(stmts, where):
            n_ = [0]

            class G(ast.NodeTransformer):
                def visit_Assign(self, s):
                    if unp(s) == "object_metadata = self._get_or_create_object(path)":
                        n_[0] += 1
                        new = ast.parse("(object_metadata, self.object_metadata) = self._get_or_create_object(path)").body[0]
                        return ast.copy_location(new, s)
                    return s
            out = [G().visit(s) for s in stmts]
            if n_[0] != 1:
                die("%s: expected one `object_metadata = self._get_or_create_object(path)`" % where)
            ast.fix_missing_locations(ast.Module(body=out, type_ignores=[]))
            return out

        f = D.find(tree_r, "_update_object_metadata", CR)
        D.expect_args(f, ["self", "segment"])
        params = [("self__prev_segment_objects", ADICT(SOBJ)), ("self_object_metadata", ADICT(OMETA)), ("segment", SEGMENT)]
        env0 = {"self._prev_segment_objects": ("self__prev_segment_objects", ADICT(SOBJ)),
                "self.object_metadata": ("self_object_metadata", ADICT(OMETA)), "segment": ("segment", SEGMENT)}
        rty = fun("update_object_metadata_gen", with_getter(dealias(f.body), "_update_object_metadata"), params, env0,
                  ["self._prev_segment_objects", "self.object_metadata"], comment_of("reader.py", CR, f))
        if rty != TUP(ADICT(SOBJ), ADICT(OMETA)):
            die("_update_object_metadata leaves %r" % (rty,))

        f = D.find(tree_r, "_update_object_properties", CR)
        D.expect_args(f, ["self", "segment_object_properties"])
        params = [("self_object_metadata", ADICT(OMETA)), ("segment_object_properties", OPT(ADICT(PAIRS)))]
        env0 = {"self.object_metadata": ("self_object_metadata", ADICT(OMETA)),
                "segment_object_properties": ("segment_object_properties", OPT(ADICT(PAIRS)))}
        rty = fun("update_object_properties_gen", with_getter(dealias(f.body), "_update_object_properties"), params, env0,
                  ["self.object_metadata"], comment_of("reader.py", CR, f))
        if rty != ADICT(OMETA):
            die("_update_object_properties leaves %r" % (rty,))

        # ---- the segment loop of read_metadata: _read_segment_metadata, one iteration, the loop
        RI = D.find(tree_r, "_read_lead_in", CR)
        if "lead_in_bytes = file.read(28)" not in [unp(x) for x in body_of(RI)]:
            die("_read_lead_in no longer reads the 28 bytes of the lead-in with `lead_in_bytes = file.read(28)`")
        D.expect_args(RI, ["self", "file", "segment_position", "is_index_file"], defaults=["False"])
        rets_li = [n for n in ast.walk(RI) if isinstance(n, ast.Return)]
        if len(rets_li) != 1 or unp(rets_li[0].value) != "(segment_position, toc_mask, data_position, next_segment_pos, segment_incomplete)":
            die("_read_lead_in no longer returns (segment_position, toc_mask, data_position, next_segment_pos, segment_incomplete)")
        init_r = [unp(x) for x in body_of(D.find(tree_r, "__init__", CR))]
        if "self._prev_segment_objects = {}" not in init_r or "self.object_metadata = OrderedDict()" not in init_r:
            die("TdmsReader.__init__ no longer initialises _prev_segment_objects = {} and object_metadata = OrderedDict()")
        cx.defs.append("Section ReadMetadataGen.\n(* hash(str): any function *)\nVariable str_hash : bytes -> Z.\n"
                       "(* self._read_lead_in(file, segment_position, is_index_file) with the file at a position: the five values it\n"
                       "   returns; Err EEof is its EOFError *)\nVariable read_lead_in_io : Z -> Z -> res (Z * Z * Z * Z * bool).\n"
                       "(* the metadata block lexed at a position under a ToC mask: what the reads of read_segment_objects deliver *)\n"
                       "Variable lexed_at_io : Z -> Z -> res (list entry).")
        cx.defs.append(PRELUDE_LOOP)
        NSR = TUP(OPT(ADICT(PAIRS)), GSEG, OPT(HDICT))
        RSM = TUP(GSEG, OPT(ADICT(PAIRS)), OPT(HDICT))
        RM_STATE = TUP(ADICT(SOBJ), ADICT(OMETA), LIST(GSEG), OPT(GSEG), Z, OPT(HDICT), Z)

        def calls_loop(e, env, h, cx_):
            fn = unp(e.func)
            if e.keywords:
                return None
            if fn == "read_lead_in__" and len(e.args) == 2:
                a = [T.as_int(x, env, h, cx_) for x in e.args]
                return sem.hoist(e, h, cx_, "read_lead_in_io %s %s" % tuple(a)), TUP(Z, Z, Z, Z, B)
            if fn == "lexed_at__" and len(e.args) == 2:
                a = [T.as_int(x, env, h, cx_) for x in e.args]
                return sem.hoist(e, h, cx_, "lexed_at_io %s %s" % tuple(a)), LIST(ENTRY)
            if fn == "new_segment_read_objects__" and len(e.args) == 9:
                a = [T.ex(x, env, h, cx_) for x in e.args]
                want = [Z, Z, Z, Z, B, LIST(ENTRY), ADICT(SOBJ), OPT(HDICT), OPT(GSEG)]
                if [t for _, t in a] != want:
                    T.fail(e, "TdmsSegment(..).read_segment_objects(..) with arguments of types %r" % ([t for _, t in a],))
                return sem.hoist(e, h, cx_, "new_segment_read_objects %s" % " ".join(t for t, _ in a)), NSR
            if fn == "read_segment_metadata_or_eof__" and len(e.args) == 4:
                a = [T.ex(x, env, h, cx_) for x in e.args]
                if [t for _, t in a] != [Z, Z, OPT(HDICT), OPT(GSEG)] or env.get("self._prev_segment_objects", (None, None))[1] != ADICT(SOBJ):
                    T.fail(e, "_read_segment_metadata with arguments of types %r" % ([t for _, t in a],))
                return sem.hoist(e, h, cx_, "read_segment_metadata_or_eof %s %s" % (env["self._prev_segment_objects"][0],
                                                                                 " ".join(t for t, _ in a))), OPT(RSM)
            if fn == "some__" and len(e.args) == 1:
                t, ty = T.ex(e.args[0], env, h, cx_)
                return (t, ty) if ty[0] == "opt" else ("(Some %s)" % t, OPT(ty))
            if fn == "empty_segments__" and not e.args:
                return "[]", LIST(GSEG)
            if fn == "no_segment__" and not e.args:
                return "None", OPT(GSEG)
            return None
        sem.extra_calls.append(calls_loop)
        T.EXTRA_COERCIONS[(GSEG, SEGMENT)] = "(gseg_segment %s)"

        f = D.find(tree_r, "_read_segment_metadata", CR)
        D.expect_args(f, ["self", "file", "segment_position", "index_cache", "previous_segment", "is_index_file"])
        b4 = body_of(f)
        ok = (len(b4) == 4 and isinstance(b4[0], ast.Assign) and isinstance(b4[0].targets[0], ast.Tuple) and len(b4[0].targets[0].elts) == 5
              and all(isinstance(x, ast.Name) for x in b4[0].targets[0].elts)
              and unp(b4[0].value) == "self._read_lead_in(file, segment_position, is_index_file)"
              and isinstance(b4[1], ast.Assign) and isinstance(b4[1].targets[0], ast.Name) and isinstance(b4[1].value, ast.Call)
              and unp(b4[1].value.func) == "TdmsSegment" and len(b4[1].value.args) == 5 and not b4[1].value.keywords
              and isinstance(b4[2], ast.Assign) and isinstance(b4[2].targets[0], ast.Name) and isinstance(b4[2].value, ast.Call)
              and unp(b4[2].value.func) == b4[1].targets[0].id + ".read_segment_objects" and len(b4[2].value.args) == 4
              and not b4[2].value.keywords and unp(b4[2].value.args[0]) == "file" and isinstance(b4[2].value.args[2], ast.Name)
              and unp(b4[3]) == "return (%s, %s)" % (b4[1].targets[0].id, b4[2].targets[0].id))
        if not ok:
            die("_read_segment_metadata: expected the lead-in tuple, `segment = TdmsSegment(5 arguments)`, "
                "`properties = segment.read_segment_objects(file, a, b, c)`, `return (segment, properties)`")
        seg_v, props_v, cache_v = b4[1].targets[0].id, b4[2].targets[0].id, b4[2].value.args[2].id
        init_args = dict(zip(["position", "toc_mask", "next_segment_pos", "data_position", "segment_incomplete"], b4[1].value.args))
        lead_names = [x.id for x in b4[0].targets[0].elts]
        stmts = [ast.Assign(targets=[b4[0].targets[0]], value=M.call("read_lead_in__", M.name("file_pos__v"), M.name("segment_position")), lineno=f.lineno),
                 ast.Assign(targets=[M.name("lexed_entries__v", ast.Store())],
                            value=M.call("lexed_at__", ast.BinOp(left=M.name("file_pos__v"), op=ast.Add(), right=ast.Constant(value=28)),
                                         init_args["toc_mask"]), lineno=f.lineno),
                 ast.Assign(targets=[ast.Tuple(elts=[M.name(props_v, ast.Store()), M.name(seg_v, ast.Store()), M.name(cache_v, ast.Store())],
                                               ctx=ast.Store())],
                            value=M.call("new_segment_read_objects__", init_args["position"], init_args["toc_mask"], init_args["next_segment_pos"],
                                         init_args["data_position"], init_args["segment_incomplete"], M.name("lexed_entries__v"),
                                         b4[2].value.args[1], b4[2].value.args[2], b4[2].value.args[3]), lineno=f.lineno),
                 ast.Return(value=ast.Tuple(elts=[M.name(seg_v), M.name(props_v), M.name(cache_v)], ctx=ast.Load()))]
        ast.fix_missing_locations(ast.Module(body=stmts, type_ignores=[]))
        del lead_names
        params = [("self__prev_segment_objects", ADICT(SOBJ)), ("file_pos__v", Z), ("segment_position", Z), ("index_cache", OPT(HDICT)),
                  ("previous_segment", OPT(GSEG))]
        env0 = {"self._prev_segment_objects": ("self__prev_segment_objects", ADICT(SOBJ))}
        env0.update({n: (n, t) for n, t in params[1:]})
        rty = fun("read_segment_metadata_gen", stmts, params, env0, [],
                  comment_of("reader.py", CR, f, note=": `file_pos__v` is the position of `file`; the result is (segment, properties, index_cache)"))
        if rty != RSM:
            die("_read_segment_metadata returns %r" % (rty,))
        cx.defs.append(PRELUDE_LOOP2)

        f = D.find(tree_r, "read_metadata", CR)
        D.expect_args(f, ["self", "require_segment_indexes"], defaults=["False"])
        bm = body_of(f)
        ok = (len(bm) == 4 and isinstance(bm[0], ast.If) and unp(bm[1]) == "self._segments = []" and unp(bm[2]) == "segment_position = 0"
              and isinstance(bm[3], ast.Try) and not bm[3].handlers and len(bm[3].body) == 1 and T.is_timer_with(bm[3].body[0]))
        if not ok:
            die("read_metadata: expected the file choice, `self._segments = []`, `segment_position = 0`, try: with Timer(..): .. finally: ..")
        inner = [x for x in bm[3].body[0].body if not T.is_skip(x)]
        if len(inner) != 3 or unp(inner[0]) != "previous_segment = None" or not isinstance(inner[2], ast.While) or unp(inner[2].test) != "True" \
                or inner[2].orelse or unp(inner[1]) != "index_cache = SegmentIndexCache() if require_segment_indexes else None":
            die("read_metadata: expected previous_segment = None, index_cache = .., while True:")
        for x in bm[3].finalbody:
            for n in ast.walk(x):
                if isinstance(n, ast.Attribute) and n.attr in ("_segments", "_prev_segment_objects", "object_metadata"):
                    die("read_metadata: the finally block touches the reader state")
        wb = [x for x in inner[2].body if not T.is_skip(x)]
        want_try = ("try:\n    segment, properties = self._read_segment_metadata(file, segment_position, index_cache, previous_segment, "
                    "reading_index_file)\nexcept EOFError:\n    break")
        if len(wb) < 3 or unp(wb[0]) != "start_position = file.tell()" or unp(wb[1]) != want_try:
            die("read_metadata: the loop no longer starts with start_position = file.tell() and the try / except EOFError: break "
                "around _read_segment_metadata(file, segment_position, index_cache, previous_segment, reading_index_file)")

        class Seek(ast.NodeTransformer):
            def visit_Expr(self, n):
                if isinstance(n.value, ast.Call) and unp(n.value.func) == "file.seek" and len(n.value.args) == 2 \
                        and unp(n.value.args[1]) == "os.SEEK_SET" and not n.value.keywords:
                    return ast.copy_location(ast.Assign(targets=[M.name("file_pos__v", ast.Store())], value=n.value.args[0], lineno=n.lineno), n)
                return self.generic_visit(n)
        import copy as _copy2
        rest_w = replace_stmts([Seek().visit(x) for x in _copy2.deepcopy(wb[2:])], {
            "self._update_object_metadata(segment)":
                "(self._prev_segment_objects, self.object_metadata) = update_object_metadata__(self._prev_segment_objects, "
                "self.object_metadata, segment)",
            "self._update_object_properties(properties)":
                "self.object_metadata = update_object_properties__(self.object_metadata, properties)"}, "read_metadata")
        head_w = ast.parse("start_position = file_pos__v\n"
                           "r__v = read_segment_metadata_or_eof__(start_position, segment_position, index_cache, previous_segment)\n"
                           "if r__v is None:\n    return None\n(segment, properties, index_cache) = r__v").body
        tail_w = ast.parse("return (self._prev_segment_objects, self.object_metadata, self._segments, some__(previous_segment), segment_position, "
                           "index_cache, file_pos__v)").body
        stmts = head_w + rest_w + tail_w
        ast.fix_missing_locations(ast.Module(body=stmts, type_ignores=[]))
        for x in stmts:
            for n in ast.walk(x):
                if isinstance(n, ast.Name) and n.id == "file":
                    die("read_metadata: unrecognised use of `file` in the loop")
        cx.callees["update_object_metadata__"] = ("update_object_metadata_gen", [ADICT(SOBJ), ADICT(OMETA), SEGMENT], TUP(ADICT(SOBJ), ADICT(OMETA)), [])
        cx.callees["update_object_properties__"] = ("update_object_properties_gen", [ADICT(OMETA), OPT(ADICT(PAIRS))], ADICT(OMETA), [])
        params = [("self__prev_segment_objects", ADICT(SOBJ)), ("self_object_metadata", ADICT(OMETA)), ("self__segments", LIST(GSEG)),
                  ("previous_segment", OPT(GSEG)), ("segment_position", Z), ("index_cache", OPT(HDICT)), ("file_pos__v", Z),
                  ("reading_index_file", B)]
        env0 = {"self._prev_segment_objects": ("self__prev_segment_objects", ADICT(SOBJ)), "self.object_metadata": ("self_object_metadata", ADICT(OMETA)),
                "self._segments": ("self__segments", LIST(GSEG))}
        env0.update({n: (n, t) for n, t in params[3:]})
        rty = fun("read_metadata_iteration_gen", stmts, params, env0, [],
                  comment_of("reader.py", CR, f, inner[2].body, note=": one iteration of `while True:`; None: `break`; else the state after it\n"
                             "     (_prev_segment_objects, object_metadata, _segments, previous_segment, segment_position, index_cache, file position)"))
        if rty != OPT(RM_STATE):
            die("the iteration of read_metadata returns %r" % (rty,))
        cx.defs.append("Definition rm_state := (alist sobj * alist ometa * list gseg * option gseg * Z * option hdict * Z)%type.\n" + PRELUDE_LOOP3)
        stmts = replace_stmts(_copy2.deepcopy([bm[1], bm[2], inner[0], inner[1]]), {
            "self._segments = []": "self._segments = empty_segments__()",
            "previous_segment = None": "previous_segment = no_segment__()"}, "read_metadata")
        stmts += ast.parse("return (self._prev_segment_objects, self.object_metadata, self._segments, previous_segment, segment_position, "
                           "index_cache, 0)").body
        ast.fix_missing_locations(ast.Module(body=stmts, type_ignores=[]))
        rty = fun("read_metadata_init_gen", stmts, [("require_segment_indexes", B)],
                  {"require_segment_indexes": ("require_segment_indexes", B), "self._prev_segment_objects": ("[]", ADICT(SOBJ)),
                   "self.object_metadata": ("[]", ADICT(OMETA))}, [],
                  comment_of("reader.py", CR, f, [bm[1], bm[2], inner[0], inner[1]],
                             note=": the state before the loop (_prev_segment_objects and object_metadata as TdmsReader.__init__ leaves them,\n"
                                  "     the file at position 0)"))
        if rty != RM_STATE:
            die("the initial state of read_metadata is %r" % (rty,))
        cx.defs.append("(* read_metadata: the state the loop leaves *)\n"
                       "Definition read_metadata_gen (fuel : nat) (require_segment_indexes reading_index_file : bool) : res rm_state :=\n"
                       "  do st0 <- read_metadata_init_gen require_segment_indexes;\n  read_metadata_loop_gen fuel reading_index_file st0.\n"
                       "End ReadMetadataGen.")
    finally:
        T.coqty = old_coqty
        T.EXTRA_COERCIONS.pop((GSEG, SEGMENT), None)
    del hooks
    return cx, sigs


def header():
    return ("(* GENERATED by harness/gen/gen_pyfuncs_segstate.py from nptdms/{tdms_segment,reader,base_segment,daqmx,common}.py\n"
            "   -- do not edit.  Shallow monadic translation of the reader's metadata state machine; see the script for the\n"
            "   conventions (file reads are the lexed entries; objects are de-aliased). *)\n"
            "From Coq Require Import String.\n"
            "From Coq Require Import ZArith List Bool.\n"
            "From Coq Require Import Init.Byte.\n"
            "Import ListNotations.\n"
            "From NpTdms Require Import Base.Bytes Base.Res Base.PySlice Model.Tokens Model.SegState Gen.TypeTable Gen.PyFuncsReader.\n"
            "Local Open Scope Z_scope.\n\n")


def main():
    try:
        cx, sigs = translate()
    except T.Unsupported as e:
        die(str(e))
    import segstate_selftest as S
    st_text, counts = S.selftest(REPO, die)
    text = header() + PRELUDE + "\n" + "\n\n".join(cx.defs) + "\n\n" + st_text
    D.write_if_changed(OUT, text)
    print("%s: %d functions translated; self-test cases: %s"
          % (ME, len(sigs), ", ".join("%s %d" % kv for kv in counts.items())))


if __name__ == "__main__":
    main()
