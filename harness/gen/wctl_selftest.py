"""Self-test cases for gen_pyfuncs_wctl.py.

The REAL code is run: TdmsWriter.write_segment on real RootObject / GroupObject / ChannelObject lists
with every combination of writer state (TdmsSegment.write replaced by a recorder that logs the object
paths, version and is_index_file, and can be told to fail on the index file), TdmsSegment.__init__,
and TdmsWriter.defragment on real files (write_segment of the destination writer recorded).  Inputs and
observed results become Gallina `Example`s checked by vm_compute when Gen/PyFuncsWCtl.v is built.
"""
import io
import itertools
import random
import warnings

EXC = {"ValueError": "EValue", "TypeError": "EType", "KeyError": "EKey", "IndexError": "EIndex",
       "RuntimeError": "ERuntime", "AttributeError": "EOther"}


def z(n):
    n = int(n)
    return "%d" % n if n >= 0 else "(%d)" % n


def b(x):
    return "true" if x else "false"


def hexs(s):
    return '(hex "%s"%%string)' % s.encode("utf-8").hex()


def clist(items):
    return "[" + "; ".join(items) + "]"


PRELUDE = """\
(* ---- self test: results of the real code ---- *)
Definition st_err (a b : err) : bool :=
  match a, b with
  | EEof, EEof | EValue, EValue | EKey, EKey | EStruct, EStruct | ENotImpl, ENotImpl | EIndex, EIndex
  | ERuntime, ERuntime | EType, EType | EOther, EOther | EFuel, EFuel => true
  | _, _ => false
  end.
Definition st_res {A} (eq : A -> A -> bool) (a b : res A) : bool :=
  match a, b with Ok x, Ok y => eq x y | Err x, Err y => st_err x y | _, _ => false end.
Fixpoint st_list {A} (eq : A -> A -> bool) (a b : list A) : bool :=
  match a, b with
  | [], [] => true
  | x :: a', y :: b' => eq x y && st_list eq a' b'
  | _, _ => false
  end.
Fixpoint st_list2 {A B} (eq : A -> B -> bool) (a : list A) (b : list B) : bool :=
  match a, b with
  | [], [] => true
  | x :: a', y :: b' => eq x y && st_list2 eq a' b'
  | _, _ => false
  end.
Definition st_paths := st_list bytes_eqb.
(* sets are compared as sets *)
Definition st_set (a b : list bytes) : bool := forallb (fun x => bmem x b) a && forallb (fun x => bmem x a) b.
(* the recording file: the log of (paths of the segment's objects, version, is_index_file) *)
Definition st_file := list (list bytes * Z * bool).
Definition st_write (fail_index : bool) (f : st_file) (sg : list wobj * Z * bool) : res st_file :=
  let '(objs, v, isx) := sg in
  if fail_index && isx then Err EOther else Ok (f ++ [(map obj_path objs, v, isx)]).
Definition st_seg (a b : list bytes * Z * bool) : bool :=
  let '(p1, v1, x1) := a in let '(p2, v2, x2) := b in st_paths p1 p2 && (v1 =? v2) && Bool.eqb x1 x2.
Definition st_log := st_list st_seg.
Definition st_optlog (a b : option st_file) : bool :=
  match a, b with Some x, Some y => st_log x y | None, None => true | _, _ => false end.
Definition st_wstate (a b : bool * list bytes * st_file * option st_file) : bool :=
  let '(r1, g1, f1, i1) := a in let '(r2, g2, f2, i2) := b in
  Bool.eqb r1 r2 && st_set g1 g2 && st_log f1 f2 && st_optlog i1 i2.
(* objects of the grid: no properties, no data (the control logic never looks at them) *)
Definition st_chan (g c : bytes) : wobj := WChan g c 3 [] [].
"""


def selftest(repo, die):
    import sys
    import os
    sys.path.insert(0, repo)
    import nptdms
    here = os.path.realpath(os.path.dirname(nptdms.__file__))
    if here != os.path.realpath(os.path.join(repo, "nptdms")):
        die("nptdms imported from %s, expected %s/nptdms" % (here, repo))
    import logging
    logging.disable(logging.CRITICAL)
    import numpy as np
    from nptdms import writer as W
    from nptdms import TdmsWriter, TdmsFile, RootObject, GroupObject, ChannelObject
    out, counts = [PRELUDE], {}

    def example(name, ctype, cases, check):
        if len(cases) < 10:
            die("self-test grid of %s is too small (%d cases)" % (name, len(cases)))
        counts[name] = len(cases)
        if check.startswith("fun '("):        # give the case its type before it is destructured
            pat, body = check[len("fun '"):].split(" => ", 1)
            check = "fun (c__ : %s) => let '%s := c__ in %s" % (ctype, pat, body)
        out.append("Definition st_%s_cases : list (%s) :=\n  [%s].\n"
                   "Example st_%s : forallb (%s) st_%s_cases = true.\nProof. vm_compute. reflexivity. Qed.\n"
                   % (name, ctype, ";\n   ".join(cases), name, check, name))

    def observe(fn, enc):
        with warnings.catch_warnings():
            warnings.simplefilter("ignore")
            try:
                r = fn()
            except Exception as e:                       # noqa: BLE001
                n = type(e).__name__
                if n in EXC:
                    return "Err %s" % EXC[n]
                if n == "Boom":
                    return "Err EOther"
                raise
        return "Ok %s" % enc(r)

    # descriptions of objects: ("r",) | ("g", name) | ("c", group, channel)
    def py_obj(d):
        if d[0] == "r":
            return RootObject()
        if d[0] == "g":
            return GroupObject(d[1])
        return ChannelObject(d[1], d[2], np.array([], dtype=np.int32))

    def coq_obj(d):
        if d[0] == "r":
            return "(WRoot [])"
        if d[0] == "g":
            return "(WGroup %s [])" % hexs(d[1])
        return "(st_chan %s %s)" % (hexs(d[1]), hexs(d[2]))

    class Boom(Exception):
        pass

    real_write = W.TdmsSegment.write

    def recorder(fail_index):
        def write(self, file):
            if fail_index and self.is_index_file:
                raise Boom()
            file.log.append(([o.path for o in self.objects], self._tdms_version, self.is_index_file))
        return write

    class RecFile(object):
        def __init__(self):
            self.log = []

        def read(self):          # TdmsWriter.__init__ looks for a `read` attribute
            return b""

    def enc_log(l):
        return clist(["(%s, %s, %s)" % (clist([hexs(p) for p in ps]), z(v), b(x)) for ps, v, x in l])

    def enc_set(s):
        return clist([hexs(g) for g in sorted(s)])

    names = ["g", "h", "a'b", "x/y", "é", ""]
    pool = [("r",)] + [("g", n) for n in names[:5]] + [("c", "g", "c"), ("c", "g", "d"), ("c", "h", "c"), ("c", "a'b", "q'"),
                                                          ("c", "x/y", "/"), ("c", "é", "z"), ("c", "zz", "c"), ("c", "", "c")]
    rnd = random.Random(20270)
    lists = [[], [("r",)], [("g", "g")], [("c", "g", "c")], [("c", "h", "c"), ("c", "g", "c")], [("c", "g", "c"), ("g", "g"), ("r",)],
             [("c", "g", "c"), ("c", "g", "c")], [("r",), ("r",)], [("g", "g"), ("c", "g", "c"), ("g", "g")],
             [("c", "zz", "c"), ("c", "a'b", "q'"), ("c", "g", "d")], [("g", "h"), ("c", "h", "c"), ("c", "g", "c"), ("c", "g", "d")],
             [("c", "", "c")], [("c", "x/y", "/"), ("g", "x/y")], [("c", "é", "z"), ("c", "g", "c")]]
    for _ in range(60):
        lists.append([rnd.choice(pool) for _ in range(rnd.choice([1, 2, 3, 4, 5]))])
    states = [(False, set()), (True, set()), (True, {"g"}), (False, {"g", "h"}), (True, {"a'b", "zz", "é"})]

    # --- TdmsSegment.__init__
    cases = []
    for l in lists[:40]:
        for isx, ver in ((False, 4712), (True, 4713)):
            def go():
                s = W.TdmsSegment([py_obj(d) for d in l], is_index_file=isx, version=ver)
                return ([o.path for o in s.objects], s._tdms_version, s.is_index_file)
            cases.append("(%s, %s, %s, %s)" % (clist([coq_obj(d) for d in l]), b(isx), z(ver),
                                             observe(go, lambda r: "(%s, %s, %s)" % (clist([hexs(p) for p in r[0]]), z(r[1]), b(r[2])))))
    example("tdms_segment_init", "list wobj * bool * Z * res (list bytes * Z * bool)", cases,
            "fun '(objs, isx, v, r) => st_res st_seg (match tdms_segment_init_gen objs isx v with "
            "Ok (o, v', x) => Ok (map obj_path o, v', x) | Err e => Err e end) r")

    # --- TdmsWriter.write_segment: every list x writer state x index file (absent / present / failing)
    cases, pre_cases = [], []
    try:
        for li, l in enumerate(lists):
            for si, (rw, gw) in enumerate(states if li < 30 else [rnd.choice(states)]):
                for mode in ("none", "index", "fail"):
                    if mode != "none" and (li + si) % 2:
                        continue
                    ver = 4712 if (li + si) % 3 else 4713
                    W.TdmsSegment.write = recorder(mode == "fail")
                    f, fi = RecFile(), (RecFile() if mode != "none" else None)
                    w = TdmsWriter(f, version=ver, index_file=(fi if fi is not None else False))
                    w._root_written, w._groups_written = rw, set(gw)

                    def enc_state(_):
                        return "(%s, %s, %s, %s)" % (b(w._root_written), enc_set(w._groups_written), enc_log(f.log),
                                                     "None" if fi is None else "(Some %s)" % enc_log(fi.log))
                    boom = []

                    def call():
                        try:
                            w.write_segment([py_obj(d) for d in l])
                        except Boom:
                            boom.append(1)
                            raise
                    r = observe(call, enc_state)
                    inp = "(%s, %s, %s, %s, %s, %s" % (b(rw), enc_set(gw), b(mode == "fail"), b(fi is not None), z(ver),
                                                      clist([coq_obj(d) for d in l]))
                    cases.append("%s, %s)" % (inp, r))
                    if boom:
                        # the state the failing index write leaves behind (the exception has propagated)
                        pre_cases.append("%s, %s, %s, %s)" % (inp, b(w._root_written), enc_set(w._groups_written), enc_log(f.log)))
    finally:
        W.TdmsSegment.write = real_write
    ctype = "bool * list bytes * bool * bool * Z * list wobj * res (bool * list bytes * st_file * option st_file)"
    example("write_segment", ctype, cases,
            "fun '(rw, gw, fail, isx, v, objs, r) => st_res st_wstate "
            "(write_segment_gen st_file (st_write fail) rw gw [] (if isx then Some [] else None) v objs) r")
    if len(pre_cases) < 10:
        die("self-test grid of the failing index write is too small")
    counts["write_segment_failing_index_write"] = len(pre_cases)
    out.append("Definition st_write_segment_fail_cases : list (bool * list bytes * bool * bool * Z * list wobj * bool * list bytes * st_file) :=\n  [%s].\n"
               "(* after the index write has failed: the state is the one the translated prefix computes *)\n"
               "Example st_write_segment_fail : forallb (fun '(rw, gw, fail, isx, v, objs, rw', gw', f') =>\n"
               "    match write_segment_before_last_write_gen st_file (st_write false) rw gw [] (Some []) v objs with\n"
               "    | Ok (_, rw2, gw2, f2, _) => Bool.eqb rw2 rw' && st_set gw2 gw' && st_log f2 f'\n"
               "    | Err _ => false\n"
               "    end) st_write_segment_fail_cases = true.\nProof. vm_compute. reflexivity. Qed.\n"
               % ";\n   ".join(pre_cases))

    # --- TdmsWriter.defragment on real files: the calls the new writer receives
    def write_source(spec):
        f = io.BytesIO()
        with TdmsWriter(f) as w:
            for seg in spec:
                objs = []
                for d in seg:
                    if d[0] == "r":
                        objs.append(RootObject(d[1]))
                    elif d[0] == "g":
                        objs.append(GroupObject(d[1], d[2]))
                    else:
                        objs.append(ChannelObject(d[1], d[2], d[3], d[4]))
                w.write_segment(objs)
        f.seek(0)
        return f

    i32 = lambda *v: np.array(v, dtype=np.int32)          # noqa: E731
    f64 = lambda *v: np.array(v, dtype=np.float64)        # noqa: E731
    specs = [
        [[("r", {"t": 1}), ("g", "g", {"p": 2}), ("c", "g", "a", i32(1, 2, 3), {"u": 5})]],
        [[("c", "g", "a", i32(1, 2), {})], [("c", "g", "a", i32(3), {}), ("c", "h", "b", f64(1.5), {"k": 7})]],
        [[("g", "g", {}), ("g", "h", {"x": 1}), ("c", "h", "b", i32(), {}), ("c", "g", "a", i32(4, 5), {})]],
        [[("r", {})]],
        [[("c", "g", "s", ["ab", "c"], {}), ("c", "g", "e", [], {})]],
        [[("g", "a'b", {"q": 3}), ("c", "a'b", "x/y", i32(9), {"w": 1}), ("c", "zz", "c", i32(8, 7), {})], [("c", "zz", "c", i32(6), {})]],
    ]
    cases = []
    real_ws = TdmsWriter.write_segment
    for sp in specs:
        for ver in (None, 4712, 4713):
            src = write_source(sp)
            tf = TdmsFile(src, raw_timestamps=True)
            src.seek(0)
            calls, versions = [], []

            def rec(self, objects):
                versions.append(self._tdms_version)
                calls.append([(o.path, sorted(o.properties.keys()) if o.properties else [],
                               None if not isinstance(o, ChannelObject) else len(o.data)) for o in objects])
            TdmsWriter.write_segment = rec
            try:
                if ver is None:
                    TdmsWriter.defragment(src, io.BytesIO())
                else:
                    TdmsWriter.defragment(src, io.BytesIO(), version=ver)
            finally:
                TdmsWriter.write_segment = real_ws
            if len(set(versions)) != 1:
                die("defragment used several writer versions")

            def props(d):
                return clist(["mkProp %s 3 []" % hexs(k) for k in d.keys()])
            content = "(mkDContent %s %s)" % (props(tf.properties), clist([
                "(mkDGroup %s %s %s)" % (hexs(g.name), props(g.properties), clist([
                    "(mkDChan %s %s %s %s)" % (hexs(c.name), "None" if c.data_type is None else "(Some %d)" % c.data_type.enum_value,
                                               clist(["[]"] * len(c)), props(c.properties))
                    for c in g.channels()])) for g in tf.groups()]))
            obs = clist([clist(["(%s, %s, %s)" % (hexs(p), clist([hexs(k) for k in ks]), z(-1 if n is None else n)) for p, ks, n in call])
                         for call in calls])
            cases.append("(%s, %s, %s, %s)" % (content, "None" if ver is None else "(Some %d)" % ver, z(versions[0]), obs))
    example("defragment", "dcontent * option Z * Z * list (list (bytes * list bytes * Z))", cases,
            "fun '(c, ver, v', calls) => match defragment_gen c (match ver with Some v => v | None => defragment_default_version end) with\n"
            "     | Ok (v2, cs) => (v2 =? v') && st_list2 (st_list2 (fun (o : wobj) (x : bytes * list bytes * Z) => let '(p, ks, n) := x in\n"
            "           bytes_eqb (obj_path o) p && st_list bytes_eqb (map p_name (obj_props o)) ks &&\n"
            "           (match o with WChan _ _ _ vs _ => Z.of_nat (length vs) | _ => -1 end =? n))) cs calls\n"
            "     | Err _ => false end")
    return "\n".join(out), counts
