#!/venv/bin/python
"""Fail-closed translator: the LAZY INDEX PATH of npTDMS -> coq/theories/Gen/PyFuncsLazyIdx.v

Translated with Python `ast` (harness/gen/py2gallina.py; nptdms is imported only for the self-test):

  nptdms/reader.py  _array_equal (the chunk_size = 100 block loop), _deduplicate_array,
                    TdmsReader._build_index, TdmsReader.read_channel_chunk_for_index,
                    the index arithmetic of _trim_channel_chunk (`chunk.data[skip:len(chunk.data) - trim]`)
  nptdms/tdms.py    TdmsChannel._read_channel_data_chunk_for_index, TdmsChannel._read_at_index (whole),
                    TdmsChannel._read_channel_data: argument validation and the number of values allocated
                    (statements up to `channel_data = get_data_receiver(..)`),
                    TdmsChannel.data_chunks and TdmsFile.data_chunks: the running-offset accounting

Conventions (in addition to those of gen_pyfuncs_reader.py, whose attribute table is re-used).
 * File I/O is NOT translated; it is a parameter of the generated Section:
     io_verify f j      = self._verify_segment_start(self._segments[j])              (seek + 4-byte tag check)
     io_next f j c n    = next(self._segments[j].read_raw_data_for_channel(self._file, path, c, n))
   over an abstract file state `F` (threaded through every call, so the calls made are observable);
   the driver checks that `segment` is `self._segments[segment_index]` and that neither is reassigned.
   `_convert_channel_data_chunk` (timestamp conversion) and `self._scale_data` are parameters too.
 * NumPy int64 arrays are lists of Z: `np.zeros(n, dtype=np.int64)` -> np_zeros_i64 (ValueError for n < 0),
   `a[i] = v` -> range check of v (OverflowError -> Err EOther) then py_setitem, `np.cumsum` -> wrapping
   running sum, `(x == y).all()` -> np_all_eq (ValueError when the lengths differ and neither is 1),
   `np.searchsorted(a, v, side=..)` -> the number of entries <= v (right) / < v (left): its value on a
   SORTED array (the offsets are running sums of non-negative counts).  Other arithmetic on values taken
   from such arrays is arithmetic on Z (no wrap-around: the theorems assume totals below 2^63).
 * `//` raises for a zero divisor (Err EOther): ZeroDivisionError for Python ints; for a NumPy int64
   dividend NumPy only warns -- the self-test runs under np.errstate(all='raise').
 * self._segment_channel_offsets is an insertion-ordered association list; the generator expression
   over its values is consumed once (checked) and read as a list; `_deduplicate_array` returns a value
   (object identity is not modelled -- its point, proved in Proofs/GenLazyIdxEquiv.v, is that the value
   is the one it was given).
 * self._ensure_open() is the precondition "the reader is open" (not translated; recognised and skipped).
 * `yield x` appends x to the list of yielded values (the generators are pure between yields apart from
   the I/O of the chunk source, which is their input list).

Self-test: `Example`s with the results of the REAL code (real TdmsReader / TdmsSegment / TdmsChannel
objects; only the segment's raw read is a recording stand-in).

Anything unrecognised: message on stderr, exit 1, nothing written.
"""
import ast
import os
import sys

HERE = os.path.dirname(os.path.abspath(__file__))
sys.path.insert(0, HERE)
import py2gallina as T                                             # noqa: E402
from py2gallina import Z, B, NONE, BYTES, OPT, LIST, TUP, REC       # noqa: E402
import np_sem as N                                                 # noqa: E402
import gen_pyfuncs_reader as R                                     # noqa: E402

VERIF = os.path.dirname(os.path.dirname(HERE))
REPO = os.environ.get("NPTDMS_REPO", "/repo")
OUT = os.path.join(VERIF, "coq", "theories", "Gen", "PyFuncsLazyIdx.v")
ME = "gen_pyfuncs_lazyidx"

SOBJ, SEGMENT = REC("sobj"), REC("segment")
TV, TC, TF = ("tyvar", "V"), ("tyvar", "C"), ("tyvar", "F")
ENTRY = TUP(Z, LIST(Z))
TBL = ("adict", ENTRY)


def die(msg):
    sys.stderr.write("%s: UNSUPPORTED / unrecognised source, nothing written: %s\n" % (ME, msg))
    sys.exit(1)


def parse(fn):
    path = os.path.join(REPO, "nptdms", fn)
    try:
        src = open(path).read()
        return src, ast.parse(src)
    except (OSError, SyntaxError) as e:
        die("cannot read/parse %s: %s" % (path, e))


def find(tree, name, cls=None, defaults_ok=False):
    body = tree.body
    if cls is not None:
        cs = [n for n in tree.body if isinstance(n, ast.ClassDef) and n.name == cls]
        if len(cs) != 1:
            die("class %s not found" % cls)
        body = cs[0].body
    fs = [n for n in body if isinstance(n, ast.FunctionDef) and n.name == name]
    if len(fs) != 1:
        die("expected exactly one def %s%s" % (cls + "." if cls else "", name))
    f = fs[0]
    if f.decorator_list or f.args.vararg or f.args.kwarg or f.args.kwonlyargs or (f.args.defaults and not defaults_ok):
        die("signature of %s" % name)
    return f


def comment_of(fn, f, stmts=None):
    stmts = f.body if stmts is None else stmts
    txt = "\n".join(ast.unparse(s) for s in stmts if not T.is_skip(s))
    txt = txt.replace("(*", "( *").replace("*)", "* )")
    return "nptdms/%s: %s (line %d)\n%s\n" % (fn, f.name, f.lineno, "\n".join("     " + l for l in txt.split("\n")))


def unp(n):
    return ast.unparse(n)


PRELUDE = """\
(* ---- the Python / NumPy primitives the translation relies on (fixed text) ---- *)

(* range(a, b) *)
Definition py_range (a b : Z) : list Z := map (fun k => a + Z.of_nat k) (seq 0 (Z.to_nat (b - a))).
(* a // b, a % b: ZeroDivisionError for b = 0 *)
Definition py_floordiv (a b : Z) : res Z := if b =? 0 then Err EOther else Ok (a / b).
Definition py_mod (a b : Z) : res Z := if b =? 0 then Err EOther else Ok (a mod b).
(* defaultdict(int)[k] *)
Definition alookup_z0 (k : bytes) (d : alist Z) : Z := match alookup k d with Some v => v | None => 0 end.
(* segment.object_index.get(path) *)
Definition object_index_get (s : segment) (path : bytes) : option Z :=
  match alookup path (sg_index s) with Some i => Some (Z.of_nat i) | None => None end.
(* np.zeros(n, dtype=np.int64): ValueError for a negative size *)
Definition np_zeros_i64 (n : Z) : res (list Z) := if n <? 0 then Err EValue else Ok (List.repeat 0 (Z.to_nat n)).
(* storing a Python int into an int64 array: OverflowError outside the int64 range *)
Definition np_i64_store (v : Z) : res Z :=
  if (- 2 ^ 63 <=? v) && (v <? 2 ^ 63) then Ok v else Err EOther.
(* int64 addition wraps *)
Definition np_wrap_i64 (v : Z) : Z := (v + 2 ^ 63) mod 2 ^ 64 - 2 ^ 63.
(* np.cumsum of an int64 array *)
Fixpoint np_cumsum_from (acc : Z) (l : list Z) : list Z :=
  match l with
  | [] => []
  | x :: r => np_wrap_i64 (acc + x) :: np_cumsum_from (np_wrap_i64 (acc + x)) r
  end.
Definition np_cumsum_i64 (l : list Z) : list Z := np_cumsum_from 0 l.
(* (x == y).all() on 1-D arrays: element-wise with broadcasting of a length-1 operand; ValueError when the
   shapes do not broadcast *)
Fixpoint all_eq2 (x y : list Z) : bool :=
  match x, y with
  | a :: x', b :: y' => (a =? b) && all_eq2 x' y'
  | _, _ => true
  end.
Definition np_all_eq (x y : list Z) : res bool :=
  if zlen x =? zlen y then Ok (all_eq2 x y)
  else match x, y with
       | [a], _ => Ok (forallb (fun b => a =? b) y)
       | _, [b] => Ok (forallb (fun a => a =? b) x)
       | _, _ => Err EValue
       end.
(* np.searchsorted(a, v, side=..) on a sorted array: the number of entries <= v (right) / < v (left) *)
Definition np_searchsorted (right : bool) (a : list Z) (v : Z) : Z :=
  zlen (filter (fun x => if right then x <=? v else x <? v) a).
"""


def make_cx():
    cx = T.Cx(dict(R.ATTR), {}, {}, dict(R.ISINST), R.MEMO)
    cx.methods = dict(R.METHODS)
    cx.checked_div = True
    cx.kwcalls = True
    cx.genexp_as_list = True
    sem = N.NpSem()
    cx.np = sem
    return cx, sem


def np_attr(f, attr):
    return N.NpSem.is_np(f, attr)


def install_hooks(cx, sem, st):
    """st: dict shared with the drivers of the individual functions (which statements were recognised)"""

    def calls(e, env, h, cx_):
        f = e.func
        # np.zeros(n, dtype=np.int64)
        if np_attr(f, "zeros") and len(e.args) == 1 and len(e.keywords) == 1 and e.keywords[0].arg == "dtype" \
                and unp(e.keywords[0].value) == "np.int64":
            n = T.as_int(e.args[0], env, h, cx_)
            return sem.hoist(e, h, cx_, "np_zeros_i64 %s" % n), LIST(Z)
        if np_attr(f, "cumsum") and len(e.args) == 1 and not e.keywords:
            a, aty = T.ex(e.args[0], env, h, cx_)
            if aty != LIST(Z):
                T.fail(e, "np.cumsum of %r" % (aty,))
            return "(np_cumsum_i64 %s)" % a, LIST(Z)
        if np_attr(f, "searchsorted") and len(e.args) == 2 and len(e.keywords) == 1 and e.keywords[0].arg == "side" \
                and isinstance(e.keywords[0].value, ast.Constant) and e.keywords[0].value.value in ("left", "right"):
            a, aty = T.ex(e.args[0], env, h, cx_)
            if aty != LIST(Z):
                T.fail(e, "np.searchsorted of %r" % (aty,))
            v = T.as_int(e.args[1], env, h, cx_)
            return "(np_searchsorted %s %s %s)" % ("true" if e.keywords[0].value.value == "right" else "false", a, v), Z
        if e.keywords:
            return None
        # (x == y).all()
        if isinstance(f, ast.Attribute) and f.attr == "all" and not e.args and isinstance(f.value, ast.Compare) \
                and len(f.value.ops) == 1 and isinstance(f.value.ops[0], ast.Eq):
            a, aty = T.ex(f.value.left, env, h, cx_)
            b, bty = T.ex(f.value.comparators[0], env, h, cx_)
            if aty != LIST(Z) or bty != LIST(Z):
                T.fail(e, "(x == y).all() of %r and %r" % (aty, bty))
            return sem.hoist(e, h, cx_, "np_all_eq %s %s" % (a, b)), B
        # segment.object_index.get(path)
        if isinstance(f, ast.Attribute) and f.attr == "get" and len(e.args) == 1 and isinstance(f.value, ast.Attribute) \
                and f.value.attr == "object_index":
            s, sty = T.ex(f.value.value, env, h, cx_)
            k, kty = T.ex(e.args[0], env, h, cx_)
            if sty != SEGMENT or kty != BYTES:
                T.fail(e, "object_index.get of %r with key %r" % (sty, kty))
            return "(object_index_get %s %s)" % (s, k), OPT(Z)
        # next(segment.read_raw_data_for_channel(self._file, channel_path, chunk_index, 1))
        if isinstance(f, ast.Name) and f.id == "next" and len(e.args) == 1 and "<io>" in env:
            c = e.args[0]
            if not (isinstance(c, ast.Call) and unp(c.func) == st["seg_var"] + ".read_raw_data_for_channel" and len(c.args) == 4
                    and not c.keywords and unp(c.args[0]) == "self._file" and unp(c.args[1]) == "channel_path"):
                T.fail(e, "next(..) of something that is not the segment's channel read")
            co = T.as_int(c.args[2], env, h, cx_)
            nc = T.as_int(c.args[3], env, h, cx_)
            if h is None:
                T.fail(e, "file read inside a short-circuit/lambda context")
            v = cx_.tmp()
            h.pre.append(("'(%s, self__file)" % v, "io_next %s %s %s %s" % (env["self._file"][0], env[st["seg_idx"]][0], co, nc)))
            return v, TC
        # self._scale_data(chunk)
        if unp(f) == "self._scale_data" and len(e.args) == 1 and "<scale>" in env:
            a, aty = T.ex(e.args[0], env, h, cx_)
            if aty != TC:
                T.fail(e, "_scale_data of %r" % (aty,))
            return sem.hoist(e, h, cx_, "scale_data %s" % a), LIST(TV)
        return None

    def statements(s, rest, env, K, sc, cx_):
        # self._ensure_open(): the precondition "the reader is open"
        if isinstance(s, ast.Expr) and unp(s.value) == "self._ensure_open()" and "<io>" in env:
            return T.block(rest, env, K, sc, cx_)
        # self._verify_segment_start(segment)
        if isinstance(s, ast.Expr) and "<io>" in env and unp(s.value) == "self._verify_segment_start(%s)" % st["seg_var"]:
            env2 = dict(env)
            env2["self._file"] = ("self__file", TF)
            return ("do self__file <- io_verify %s %s;\n" % (env["self._file"][0], env[st["seg_idx"]][0])) \
                + T.block(rest, env2, K, sc, cx_)
        # an assignment whose value reads the file: the file state is rebound by the hoisted read
        if isinstance(s, ast.Assign) and "<io>" in env and any(
                isinstance(n, ast.Call) and isinstance(n.func, ast.Name) and n.func.id == "next" for n in ast.walk(s.value)):
            if not (len(s.targets) == 1 and isinstance(s.targets[0], ast.Name)):
                T.fail(s, "target of a file read")
            h = T.Hoist()
            t, ty = T.ex(s.value, env, h, cx_)
            env2 = dict(env)
            env2["self._file"] = ("self__file", TF)
            n = T.cname(s.targets[0].id)
            env2[s.targets[0].id] = (n, ty)
            return T.wrap(h.pre, "let %s := %s in\n" % (n, t)) + T.block(rest, env2, K, sc, cx_)
        # segment_num_values[i] = num_values on an int64 array
        if isinstance(s, ast.Assign) and len(s.targets) == 1 and isinstance(s.targets[0], ast.Subscript) \
                and T.key_of(s.targets[0].value) in st.get("i64_arrays", ()):
            k = T.key_of(s.targets[0].value)
            h = T.Hoist()
            v = T.as_int(s.value, env, h, cx_)
            i = T.as_int(s.targets[0].slice, env, h, cx_)
            if not isinstance(s.targets[0].slice, (ast.Name, ast.Constant)):
                T.fail(s, "index of an int64 array store")
            n = T.cname(k)
            env2 = dict(env)
            env2[k] = (n, LIST(Z))
            return T.wrap(h.pre, "do v__ <- np_i64_store %s;\ndo %s <- py_setitem %s %s v__;\n" % (v, n, env[k][0], i)) \
                + T.block(rest, env2, K, sc, cx_)
        # X = np.zeros(.., dtype=np.int64): X is an int64 array from here on
        if isinstance(s, ast.Assign) and len(s.targets) == 1 and isinstance(s.targets[0], ast.Name) \
                and isinstance(s.value, ast.Call) and np_attr(s.value.func, "zeros"):
            st.setdefault("i64_arrays", set()).add(s.targets[0].id)
            return None
        # try: (a, b) = D[k]  except KeyError: <handler>       (D an association list)
        if isinstance(s, ast.Try):
            ok = (not s.orelse and not s.finalbody and len(s.handlers) == 1 and len(s.body) == 1
                  and isinstance(s.handlers[0].type, ast.Name) and s.handlers[0].type.id == "KeyError"
                  and s.handlers[0].name is None and isinstance(s.body[0], ast.Assign) and len(s.body[0].targets) == 1
                  and isinstance(s.body[0].value, ast.Subscript) and T.key_of(s.body[0].value.value) in env
                  and env[T.key_of(s.body[0].value.value)][1][0] == "adict")
            if not ok:
                T.fail(s, "unsupported try statement")
            d, dty = env[T.key_of(s.body[0].value.value)]
            h = T.Hoist()
            kt, kty = T.ex(s.body[0].value.slice, env, h, cx_)
            if kty != BYTES or h.pre:
                T.fail(s, "key of the guarded lookup")
            env_hit = dict(env)
            env_hit["<hit>"] = ("hit__", dty[1])
            asg = ast.Assign(targets=s.body[0].targets, value=ast.Name(id="<hit>", ctx=ast.Load()), lineno=s.lineno)
            a = T.block([asg] + rest, env_hit, K, sc, cx_)
            b = T.block(s.handlers[0].body + rest, env, K, sc, cx_)
            return "match alookup %s %s with\n| Some hit__ =>\n%s\n| None =>\n%s\nend" % (kt, d, T.ind(a), T.ind(b))
        # self._build_index(channel_path): updates self._segment_channel_offsets
        if isinstance(s, ast.Expr) and unp(s.value) == "self._build_index(channel_path)" and "build_index" in st:
            env2 = dict(env)
            env2["self._segment_channel_offsets"] = ("self__segment_channel_offsets", TBL)
            return ("do self__segment_channel_offsets <- build_index_gen %s %s %s;\n"
                    % (env["self._segments"][0], env["self._segment_channel_offsets"][0], env["channel_path"][0])) \
                + T.block(rest, env2, K, sc, cx_)
        # (chunk, offset) = self._reader.read_channel_chunk_for_index(self.path, index)
        if isinstance(s, ast.Assign) and unp(s.value) == "self._reader.read_channel_chunk_for_index(self.path, index)" \
                and "<reader>" in env:
            tg = s.targets[0]
            if not (isinstance(tg, ast.Tuple) and len(tg.elts) == 2 and all(isinstance(x, ast.Name) for x in tg.elts)):
                T.fail(s, "target of read_channel_chunk_for_index")
            a, b = tg.elts[0].id, tg.elts[1].id
            env2 = dict(env)
            env2[a] = (T.cname(a), TC)
            env2[b] = (T.cname(b), Z)
            env2["<tbl>"] = ("reader_offsets", TBL)
            env2["self._file"] = ("self__file", TF)
            return ("do '(%s, %s, (reader_offsets, self__file)) <- read_channel_chunk_for_index_gen %s %s %s %s %s;\n"
                    % (T.cname(a), T.cname(b), env["<segments>"][0], env["<tbl>"][0], env["self._file"][0],
                       env["self.path"][0], env["index"][0])) + T.block(rest, env2, K, sc, cx_)
        # _convert_channel_data_chunk(chunk, self._raw_timestamps): in-place conversion of the chunk
        if isinstance(s, ast.Expr) and isinstance(s.value, ast.Call) and unp(s.value.func) == "_convert_channel_data_chunk" \
                and len(s.value.args) == 2 and isinstance(s.value.args[0], ast.Name) and "<reader>" in env \
                and unp(s.value.args[1]) == "self._raw_timestamps":
            k = s.value.args[0].id
            if k not in env or env[k][1] != TC:
                T.fail(s, "conversion of something that is not a chunk")
            env2 = dict(env)
            env2[k] = (T.cname(k), TC)
            return "do %s <- convert_chunk %s;\n" % (T.cname(k), env[k][0]) + T.block(rest, env2, K, sc, cx_)
        # chunk, chunk_offset = self._read_channel_data_chunk_for_index(index)
        if isinstance(s, ast.Assign) and unp(s.value) == "self._read_channel_data_chunk_for_index(index)" and "<reader>" in env:
            tg = s.targets[0]
            if not (isinstance(tg, ast.Tuple) and len(tg.elts) == 2 and all(isinstance(x, ast.Name) for x in tg.elts)):
                T.fail(s, "target of _read_channel_data_chunk_for_index")
            a, b = tg.elts[0].id, tg.elts[1].id
            env2 = dict(env)
            env2[a] = (T.cname(a), TC)
            env2[b] = (T.cname(b), Z)
            env2["<tbl>"] = ("reader_offsets", TBL)
            env2["self._file"] = ("self__file", TF)
            return ("do '(%s, %s, (reader_offsets, self__file)) <- read_channel_data_chunk_for_index_gen %s %s %s %s %s;\n"
                    % (T.cname(a), T.cname(b), env["<segments>"][0], env["<tbl>"][0], env["self._file"][0],
                       env["self.path"][0], env["index"][0])) + T.block(rest, env2, K, sc, cx_)
        return None

    sem.extra_calls.append(calls)
    sem.extra_statements.append(statements)


def genexp_vars_single_use(f, die, where):
    """every variable bound to a generator expression must be consumed exactly once (it is read as a list)"""
    names = [s.targets[0].id for s in ast.walk(f) if isinstance(s, ast.Assign) and len(s.targets) == 1
             and isinstance(s.targets[0], ast.Name) and isinstance(s.value, ast.GeneratorExp)]
    for n in names:
        loads = sum(1 for x in ast.walk(f) if isinstance(x, ast.Name) and x.id == n and isinstance(x.ctx, ast.Load))
        stores = sum(1 for x in ast.walk(f) if isinstance(x, ast.Name) and x.id == n and isinstance(x.ctx, ast.Store))
        if loads != 1 or stores != 1:
            die("%s: the generator `%s` must be assigned once and consumed exactly once" % (where, n))


def translate():
    src_r, tree_r = parse("reader.py")
    src_t, tree_t = parse("tdms.py")
    cx, sem = make_cx()
    st = {}
    install_hooks(cx, sem, st)
    sigs = {}

    def fun(gen, stmts, params, env0, outputs, comment, **kw):
        rty = T.function(cx, gen, stmts, params, env0, outputs, comment, **kw)
        sigs[gen] = (params, rty)
        return rty

    cx.callees["_number_of_segment_values"] = ("number_of_segment_values_gen", [SOBJ, SEGMENT], Z, [])

    # ---- _array_equal(a, b, chunk_size=100)
    f = find(tree_r, "_array_equal", defaults_ok=True)
    if [a.arg for a in f.args.args] != ["a", "b", "chunk_size"] or len(f.args.defaults) != 1 \
            or not isinstance(f.args.defaults[0], ast.Constant) or type(f.args.defaults[0].value) is not int:
        die("signature of _array_equal")
    dflt = f.args.defaults[0].value
    params = [("a", LIST(Z)), ("b", LIST(Z)), ("chunk_size", Z)]
    rty = fun("array_equal_gen", f.body, params, {n: (n, t) for n, t in params}, [], comment_of("reader.py", f))
    cx.callees["_array_equal"] = ("array_equal_gen", [LIST(Z), LIST(Z), Z], rty, [], ["%d" % dflt])
    cx.defs.append("(* the default of the parameter chunk_size of _array_equal *)\n"
                   "Definition array_equal_default_chunk_size : Z := %d." % dflt)

    # ---- _deduplicate_array(xs, candidates)
    f = find(tree_r, "_deduplicate_array")
    if [a.arg for a in f.args.args] != ["xs", "candidates"]:
        die("signature of _deduplicate_array")
    params = [("xs", LIST(Z)), ("candidates", LIST(LIST(Z)))]
    rty = fun("deduplicate_array_gen", f.body, params, {n: (n, t) for n, t in params}, [], comment_of("reader.py", f))
    cx.callees["_deduplicate_array"] = ("deduplicate_array_gen", [LIST(Z), LIST(LIST(Z))], rty, [])

    # ---- TdmsReader._build_index(channel_path)
    f = find(tree_r, "_build_index", "TdmsReader")
    if [a.arg for a in f.args.args] != ["self", "channel_path"]:
        die("signature of _build_index")
    genexp_vars_single_use(f, die, "_build_index")
    params = [("self__segments", LIST(SEGMENT)), ("self__segment_channel_offsets", TBL), ("channel_path", BYTES)]
    env0 = {"self._segments": ("self__segments", LIST(SEGMENT)),
            "self._segment_channel_offsets": ("self__segment_channel_offsets", TBL),
            "channel_path": ("channel_path", BYTES)}
    fun("build_index_gen", f.body, params, env0, ["self._segment_channel_offsets"], comment_of("reader.py", f))
    st["build_index"] = True

    # ---- TdmsReader.read_raw_data_for_channel: the window arithmetic before the loop over segments
    f = find(tree_r, "read_raw_data_for_channel", "TdmsReader", defaults_ok=True)
    if [a.arg for a in f.args.args] != ["self", "channel_path", "offset", "length"] or [unp(d) for d in f.args.defaults] != ["0", "None"]:
        die("signature of read_raw_data_for_channel")
    body = [s_ for s_ in f.body if not T.is_skip(s_)]
    a = [i for i, s_ in enumerate(body) if unp(s_) == "object_metadata = self.object_metadata[channel_path]"]
    z_ = [i for i, s_ in enumerate(body) if unp(s_) == "values_read = 0"]
    loops = [s_ for s_ in body if isinstance(s_, ast.For)]
    if len(a) != 1 or len(z_) != 1 or a[0] >= z_[0] or len(loops) != 1 \
            or unp(loops[0].iter) != "enumerate(self._segments[start_segment:end_segment + 1], start_segment)":
        die("read_raw_data_for_channel: shape (object_metadata = ..; window arithmetic; values_read = 0; "
            "for .. in enumerate(self._segments[start_segment:end_segment + 1], start_segment))")
    frag = body[a[0] + 1:z_[0]]
    used_later = {n.id for s_ in body[z_[0]:] for n in ast.walk(s_) if isinstance(n, ast.Name)}
    outs = [k_ for k_ in T.assigned_keys(frag) if k_ in used_later]
    if sorted(outs) != ["end_index", "end_segment", "length", "start_segment"]:
        die("read_raw_data_for_channel: the loop uses %r of the window arithmetic" % (outs,))
    cx.attr[("ometa", "num_values")] = ("(fun n : Z => n)", Z, None)
    params = [("num_values", Z), ("first_segment", Z), ("segment_offsets", LIST(Z)), ("offset", Z), ("length", OPT(Z))]
    env0 = {"object_metadata": ("num_values", REC("ometa")), "first_segment": ("first_segment", Z),
            "segment_offsets": ("segment_offsets", LIST(Z)), "offset": ("offset", Z), "length": ("length", OPT(Z))}
    fun("read_window_bounds_gen", frag, params, env0, ["length", "end_index", "start_segment", "end_segment"],
        comment_of("reader.py", f, frag) + "     (object_metadata = self.object_metadata[channel_path] is represented by its num_values)\n")
    cx.fragments = {"read_window_bounds": frag}

    # ---- the generated Section: file state, chunk type, I/O primitives
    cx.defs.append(SECTION_OPEN)

    # ---- TdmsReader.read_channel_chunk_for_index(channel_path, index)
    f = find(tree_r, "read_channel_chunk_for_index", "TdmsReader")
    if [a.arg for a in f.args.args] != ["self", "channel_path", "index"]:
        die("signature of read_channel_chunk_for_index")
    asg = {}
    for s in ast.walk(f):
        if isinstance(s, ast.Assign):
            for t in s.targets:
                for n in ast.walk(t):
                    if isinstance(n, ast.Name):
                        asg.setdefault(n.id, []).append(unp(s.value))
    segv = [(k, v[0][len("self._segments["):-1]) for k, v in asg.items()
            if len(v) == 1 and v[0].startswith("self._segments[") and v[0].endswith("]") and v[0][len("self._segments["):-1].isidentifier()]
    if len(segv) != 1 or len(asg.get(segv[0][1], [])) != 1:
        die("read_channel_chunk_for_index: exactly one variable must be assigned (once) self._segments[<index variable>], "
            "the index variable assigned once")
    st["seg_var"], st["seg_idx"] = segv[0]
    io = [unp(n) for n in ast.walk(f) if isinstance(n, ast.Call) and
          (unp(n.func) in ("next", "self._verify_segment_start", "self._ensure_open") or "self._file" in unp(n))]
    rd = [n for n in ast.walk(f) if isinstance(n, ast.Call) and unp(n.func) == st["seg_var"] + ".read_raw_data_for_channel"]
    if len(rd) != 1 or len(rd[0].args) != 4 or rd[0].keywords or [unp(a) for a in rd[0].args[:2]] != ["self._file", "channel_path"] \
            or unp(rd[0].args[3]) != "1":
        die("read_channel_chunk_for_index: expected one read of ONE chunk: <segment>.read_raw_data_for_channel(self._file, channel_path, <chunk>, 1)")
    if sorted(io) != sorted(["self._ensure_open()", "self._verify_segment_start(%s)" % st["seg_var"],
                             "next(%s)" % unp(rd[0]), unp(rd[0])]):
        die("read_channel_chunk_for_index: the I/O statements changed: %r" % (io,))
    params = [("self__segments", OPT(LIST(SEGMENT))), ("self__segment_channel_offsets", TBL), ("self__file", TF),
              ("channel_path", BYTES), ("index", Z)]
    env0 = {"self._segments": ("self__segments", OPT(LIST(SEGMENT))),
            "self._segment_channel_offsets": ("self__segment_channel_offsets", TBL),
            "self._file": ("self__file", TF), "channel_path": ("channel_path", BYTES), "index": ("index", Z),
            "<io>": ("tt", T.UNIT)}
    # inside the `is None` guard the list is narrowed; _build_index takes the list
    fun("read_channel_chunk_for_index_gen", f.body, params, env0, [], comment_of("reader.py", f),
        with_state=["self._segment_channel_offsets", "self._file"])

    # ---- TdmsChannel._read_channel_data_chunk_for_index(index)
    f = find(tree_t, "_read_channel_data_chunk_for_index", "TdmsChannel")
    if [a.arg for a in f.args.args] != ["self", "index"]:
        die("signature of _read_channel_data_chunk_for_index")
    chan_params = [("reader_segments", OPT(LIST(SEGMENT))), ("reader_offsets", TBL), ("self__file", TF), ("self_path", BYTES)]
    chan_env = {"<segments>": ("reader_segments", OPT(LIST(SEGMENT))), "<tbl>": ("reader_offsets", TBL),
                "self._file": ("self__file", TF), "self.path": ("self_path", BYTES), "<reader>": ("tt", T.UNIT)}
    params = chan_params + [("index", Z)]
    env0 = dict(chan_env)
    env0["index"] = ("index", Z)
    fun("read_channel_data_chunk_for_index_gen", f.body, params, env0, [], comment_of("tdms.py", f),
        with_state=["<tbl>", "self._file"])

    # ---- TdmsChannel._read_at_index(index)
    f = find(tree_t, "_read_at_index", "TdmsChannel")
    if [a.arg for a in f.args.args] != ["self", "index"]:
        die("signature of _read_at_index")
    params = chan_params + [("self__length", Z), ("self__cached_chunk", OPT(LIST(TV))),
                            ("self__cached_chunk_bounds", OPT(TUP(Z, Z))), ("index", Z)]
    env0 = dict(chan_env)
    env0.update({"self._length": ("self__length", Z), "self._cached_chunk": ("self__cached_chunk", OPT(LIST(TV))),
                 "self._cached_chunk_bounds": ("self__cached_chunk_bounds", OPT(TUP(Z, Z))), "index": ("index", Z),
                 "<scale>": ("tt", T.UNIT)})
    fun("read_at_index_gen", f.body, params, env0, [], comment_of("tdms.py", f),
        with_state=["self._cached_chunk", "self._cached_chunk_bounds", "<tbl>", "self._file"])
    cx.defs.append(SECTION_CLOSE)

    # ---- _trim_channel_chunk: the slice `chunk.data[skip:len(chunk.data) - trim]`
    f = find(tree_r, "_trim_channel_chunk", defaults_ok=True)
    if [a.arg for a in f.args.args] != ["chunk", "skip", "trim"] or [unp(d) for d in f.args.defaults] != ["0", "0"]:
        die("signature of _trim_channel_chunk")
    body = [s for s in f.body if not T.is_skip(s)]
    ok = (len(body) == 6 and unp(body[0]) == "if skip == 0 and trim == 0:\n    return chunk"
          and unp(body[1]) == "data = None" and unp(body[2]) == "scaler_data = None"
          and unp(body[3]).startswith("if chunk.data is not None:\n    data = ")
          and unp(body[4]).startswith("if chunk.scaler_data is not None:\n    scaler_data = {scale_id: ")
          and unp(body[5]) == "return RawChannelDataChunk(data, scaler_data)")
    if not ok:
        die("_trim_channel_chunk: shape changed")
    sl_data = body[3].body[0].value
    dc = body[4].body[0].value
    if not (isinstance(dc, ast.DictComp) and unp(dc.key) == "scale_id" and len(dc.generators) == 1
            and unp(dc.generators[0].target) == "(scale_id, d)" and unp(dc.generators[0].iter) == "chunk.scaler_data.items()"
            and unp(dc.value).replace("d", "chunk.data") == unp(sl_data)):
        die("_trim_channel_chunk: the scaler data is not trimmed by the same slice as the data")
    class ChunkData(ast.NodeTransformer):        # the chunk is represented by its .data
        def visit_Attribute(self, n):
            return ast.copy_location(ast.Name(id="chunk_data", ctx=ast.Load()), n) if unp(n) == "chunk.data" else n

        def visit_Name(self, n):
            return ast.copy_location(ast.Name(id="chunk_data", ctx=n.ctx), n) if n.id == "chunk" else n
    trim_stmts = [ChunkData().visit(body[0]), ast.Return(value=ChunkData().visit(sl_data))]
    ast.fix_missing_locations(ast.Module(body=trim_stmts, type_ignores=[]))
    cx.defs.append("Section TrimGen.\nVariable V : Type.")
    params = [("chunk_data", LIST(TV)), ("skip", Z), ("trim", Z)]
    fun("trim_channel_chunk_gen", trim_stmts, params, {n: (n, t) for n, t in params}, [],
        "nptdms/reader.py: _trim_channel_chunk (line %d), the early return and the slice of chunk.data\n"
        "     (the chunk is represented by its .data; every scaler array is cut by the same slice -- checked by the driver)\n%s\n"
        % (f.lineno, "\n".join("     " + l for s_ in trim_stmts for l in unp(s_).split("\n"))))
    cx.defs.append("End TrimGen.")

    # ---- TdmsChannel._read_channel_data: argument validation and the number of values allocated
    f = find(tree_t, "_read_channel_data", "TdmsChannel", defaults_ok=True)
    if [a.arg for a in f.args.args] != ["self", "offset", "length"] or [unp(d) for d in f.args.defaults] != ["0", "None"]:
        die("signature of _read_channel_data")
    k = [i for i, s in enumerate(f.body) if T.is_timer_with(s)]
    if len(k) != 2 or k[1] != k[0] + 1 or unp(f.body[-1]) != "return channel_data":
        die("_read_channel_data: shape (two `with Timer` blocks, then `return channel_data`)")
    alloc = f.body[k[0]]
    if not unp(alloc.body[-1]).startswith("channel_data = get_data_receiver(self, num_values, "):
        die("_read_channel_data: the receiver is not allocated with num_values")
    loop = f.body[k[1]].body
    if not (len(loop) == 1 and isinstance(loop[0], ast.For)
            and unp(loop[0].iter) == "self._reader.read_raw_data_for_channel(self.path, offset, length)"):
        die("_read_channel_data: the read loop does not pass (self.path, offset, length)")
    stmts = f.body[:k[0]] + alloc.body[:-1] + [ast.Return(value=ast.Name(id="num_values", ctx=ast.Load()))]
    ast.fix_missing_locations(ast.Module(body=stmts, type_ignores=[]))
    params = [("self_data_type", OPT(Z)), ("index_file_only", B), ("len_self", Z), ("offset", Z), ("length", OPT(Z))]
    env0 = {"self.data_type": ("self_data_type", OPT(Z)), "offset": ("offset", Z), "length": ("length", OPT(Z)),
            "<len_self>": ("len_self", Z), "<index_only>": ("index_file_only", B)}

    def calls2(e, env, h, cx_):
        if unp(e) == "self._reader.is_index_file_only()" and "<index_only>" in env:
            return env["<index_only>"]
        if unp(e) == "len(self)" and "<len_self>" in env:
            return env["<len_self>"]
        return None
    sem.extra_calls.insert(0, calls2)
    fun("read_channel_data_alloc_gen", stmts, params, env0, [],
        "nptdms/tdms.py: TdmsChannel._read_channel_data (line %d): the statements before the receiver is allocated;\n"
        "     the result is None when the channel has no data type, else num_values\n%s\n"
        % (f.lineno, "\n".join("     " + l for s_ in stmts[:-1] for l in unp(s_).replace("(*", "( *").replace("*)", "* )").split("\n"))))

    # ---- TdmsChannel.data_chunks: the offsets of the yielded ChannelDataChunk objects
    f = find(tree_t, "data_chunks", "TdmsChannel")
    body = [s for s in f.body if not T.is_skip(s)]
    ok = (len(body) == 2 and unp(body[0]) == "channel_offset = 0" and isinstance(body[1], ast.For)
          and unp(body[1].iter) == "self._read_channel_data_chunks()" and len(body[1].body) == 2
          and unp(body[1].body[0]) == "yield ChannelDataChunk(self, raw_data_chunk, channel_offset)")
    if not ok:
        die("TdmsChannel.data_chunks: shape changed")
    cls = find(tree_t, "__init__", "ChannelDataChunk")
    if [a.arg for a in cls.args.args] != ["self", "channel", "raw_data_chunk", "offset"] \
            or "self.offset = offset" not in [unp(s) for s in cls.body]:
        die("ChannelDataChunk.__init__: the third argument is not stored as .offset")

    def calls3(e, env, h, cx_):
        # ChannelDataChunk(self, raw_data_chunk, channel_offset): observed through .offset
        if unp(e.func) == "ChannelDataChunk" and len(e.args) == 3 and not e.keywords and "<chunks>" in env:
            return T.ex(e.args[2], env, h, cx_)
        if unp(e) == "self._read_channel_data_chunks()" and "<chunks>" in env:
            return env["<chunks>"]
        if unp(e) == "self._reader.read_raw_data()" and "<file_chunks>" in env:
            return env["<file_chunks>"]
        # DataChunk(self, chunk, channel_offsets): GroupDataChunk.__init__ reads channel_offsets[path] at construction
        if unp(e.func) == "DataChunk" and len(e.args) == 3 and not e.keywords and "<file_chunks>" in env:
            return T.ex(e.args[2], env, h, cx_)
        if unp(e) == "defaultdict(int)":
            return "[]", ("ddict",)
        if unp(e.func) == "len" and len(e.args) == 1 and isinstance(e.args[0], ast.Name) and e.args[0].id in env \
                and env[e.args[0].id][1] == ("chunklen",):
            return env[e.args[0].id][0], Z
        return None
    sem.extra_calls.insert(0, calls3)
    T_coqty = T.coqty

    def coqty2(t):
        if t == ("chunklen",):
            return "Z"
        return T_coqty(t)
    T.coqty = coqty2
    try:
        params = [("chunk_lengths", LIST(("chunklen",)))]
        env0 = {"<chunks>": ("chunk_lengths", LIST(("chunklen",))), "<yield>": ("[]", LIST(None))}
        fun("channel_data_chunks_gen", body, params, env0, ["<yield>"],
            comment_of("tdms.py", f) + "     (each raw chunk is represented by its len(); the yielded ChannelDataChunk by its .offset)\n")

        # ---- TdmsFile.data_chunks: the channel_offsets each DataChunk is constructed with
        f = find(tree_t, "data_chunks", "TdmsFile")
        body = [s for s in f.body if not T.is_skip(s)]
        ok = (len(body) == 2 and unp(body[0]) == "channel_offsets = defaultdict(int)" and isinstance(body[1], ast.For)
              and unp(body[1].iter) == "self._reader.read_raw_data()" and len(body[1].body) == 3
              and unp(body[1].body[0]) == "_convert_data_chunk(chunk, self._raw_timestamps)"
              and unp(body[1].body[1]) == "yield DataChunk(self, chunk, channel_offsets)"
              and isinstance(body[1].body[2], ast.For) and unp(body[1].body[2].iter) == "chunk.channel_data.items()")
        if not ok:
            die("TdmsFile.data_chunks: shape changed")
        g = find(tree_t, "__init__", "GroupDataChunk")
        if "channel_offsets[channel.path]" not in unp(g):
            die("GroupDataChunk.__init__ does not read channel_offsets[channel.path] at construction")
        body2 = [body[0], ast.For(target=body[1].target, iter=body[1].iter, body=body[1].body[1:], orelse=[], lineno=body[1].lineno)]
        ast.fix_missing_locations(ast.Module(body=body2, type_ignores=[]))
        CH = LIST(TUP(BYTES, ("chunklen",)))
        params = [("file_chunks", LIST(CH))]
        env0 = {"<file_chunks>": ("file_chunks", LIST(CH)), "<yield>": ("[]", LIST(None))}

        def calls4(e, env, h, cx_):
            if unp(e) == "chunk.channel_data.items()" and "chunk" in env:
                return env["chunk"][0], CH
            return None
        sem.extra_calls.insert(0, calls4)

        fun("file_data_chunks_gen", body2, params, env0, ["<yield>"],
            comment_of("tdms.py", f, body2) + "     (a raw chunk is its channel_data as (path, len(data)) pairs; the yielded DataChunk is the\n"
            "      channel_offsets it was constructed with; _convert_data_chunk changes values only)\n")
    finally:
        T.coqty = T_coqty
    return cx, sigs


SECTION_OPEN = """\
(* ---- functions that read the file: the I/O is a parameter ---- *)
Section LazyIdxGen.
(* F: state of the open file; C: a raw channel chunk; V: a value of the scaled chunk *)
Variable F C V : Type.
(* self._verify_segment_start(self._segments[j]) *)
Variable io_verify : F -> Z -> res F.
(* next(self._segments[j].read_raw_data_for_channel(self._file, path, chunk_offset, num_chunks)) *)
Variable io_next : F -> Z -> Z -> Z -> res (C * F).
(* _convert_channel_data_chunk(chunk, self._raw_timestamps); self._scale_data(chunk) *)
Variable convert_chunk : C -> res C.
Variable scale_data : C -> res (list V)."""

SECTION_CLOSE = "End LazyIdxGen."


def header():
    return ("(* GENERATED by harness/gen/gen_pyfuncs_lazyidx.py from nptdms/{reader,tdms}.py -- do not edit.\n"
            "   Shallow monadic translation of the lazy index path; see the script for the conventions. *)\n"
            "From Coq Require Import String.\n"
            "From Coq Require Import ZArith List Bool.\n"
            "Import ListNotations.\n"
            "From NpTdms Require Import Base.Bytes Base.Res Base.PySlice Model.Tokens Model.SegState Gen.TypeTable "
            "Gen.PyFuncsReader.\n"
            "Local Open Scope Z_scope.\n\n")


def write_if_changed(path, text):
    old = None
    try:
        old = open(path).read()
    except OSError:
        pass
    if old != text:
        os.makedirs(os.path.dirname(path), exist_ok=True)
        tmp = path + ".tmp.%d" % os.getpid()
        with open(tmp, "w") as fh:
            fh.write(text)
        os.replace(tmp, path)
        print("%s: wrote %s" % (ME, os.path.relpath(path, VERIF)))
    else:
        print("%s: %s up to date" % (ME, os.path.relpath(path, VERIF)))


def main():
    try:
        cx, sigs = translate()
    except T.Unsupported as e:
        die(str(e))
    import lazyidx_selftest as S
    st_text, counts = S.selftest(REPO, die, cx.fragments)
    text = header() + PRELUDE + "\n" + "\n\n".join(cx.defs) + "\n\n" + st_text
    write_if_changed(OUT, text)
    print("%s: %d functions translated; self-test cases: %s"
          % (ME, len(sigs), ", ".join("%s %d" % kv for kv in counts.items())))


if __name__ == "__main__":
    main()
