#!/venv/bin/python
"""Fail-closed translator: the DAQmx CHUNK READER of npTDMS
-> coq/theories/Gen/PyFuncsDaqmxRead.v (definitions + self-test `Example`s)

Translated with Python `ast` on top of the decoding-path driver (its Driver object is built IN THIS PROCESS by calling
the decode driver's translate(); nothing of harness/gen is modified; the definitions that driver emits are NOT re-emitted,
the generated file imports them):

  nptdms/daqmx.py   DaqmxDataReader._read_data_chunk (whole), DaqMxScaler.byte_offset / postprocess_data,
                    DigitalLineScaler.byte_offset / postprocess_data (on ARRAYS: np.right_shift / np.bitwise_and with a
                    Python int operand); which of the two classes a scaler object belongs to is REFLECTED from
                    daqmx._scaler_classes (the class registered for the raw data index header of the object)

Conventions (in addition to those of the decode driver / decode_prelude.py).
 * `obj.daqmx_metadata` is the model's `so_daqmx` (None: AttributeError); `daqmx_metadata.scalers` is the list of scaler
   OBJECTS `dq_pyscalers`: the model's raw scaler records, each tagged with the header (dq_kind) that selected its class.
   Which unpacked field is raw_buffer_index / raw_byte_offset | raw_bit_offset / scale_id is checked on the AST of the two
   __init__ methods (positions 2, 3, 5 of the unpacked tuple, as in Model/Tokens.v `scaler`).
 * `scaler.data_type` is DAQMX_TYPES[code] (REFLECTED table `drd_daqmx_types`; a code outside the table cannot be
   constructed: it reads as KeyError).
 * `defaultdict(dict)` is an insertion-ordered dict of int-keyed dicts; `d[k1][k2] = v` on it creates the inner dict.
 * `get_buffer_dimensions` is the function translated by the reader driver (PyFuncsReader.v).
 * raw_data_widths holds np.int32 values in the real code; they are read as Python ints: the same for 0 < width and
   width * number of values < 2^31 (the domain of the equality theorem).  A width of 0 (NumPy: integer `//` by zero is 0 with
   a warning, then reshape raises ValueError; here ZeroDivisionError -> Err EOther) is left out of the self-test grid.
 * A loop target that shadows an outer variable (`for path, data in data.items()`) is accepted only when the outer name
   is never read again afterwards except as a loop target (checked).
 * np.right_shift(a, k) / np.bitwise_and(a, k) with a Python int k: integer arrays only (TypeError otherwise); k must fit
   the array's dtype (NumPy 2: OverflowError); the result has the array's dtype in native (little-endian) byte order.

Self-test: `Example`s with the results of the REAL DaqmxDataReader._read_data_chunk on real bytes and real segment objects
(built by DaqmxSegmentObject.read_raw_data_index from real index bytes), values and file positions.

Anything unrecognised: message on stderr, exit 1, nothing written.
"""
import ast
import os
import sys

HERE = os.path.dirname(os.path.abspath(__file__))
sys.path.insert(0, HERE)
import py2gallina as T                                                      # noqa: E402
from py2gallina import Z, B, NONE, BYTES, OPT, LIST, TUP, REC               # noqa: E402
import decode_sem as S                                                      # noqa: E402
from decode_sem import CLS, SOBJ, NPARR, NPARR2, ENDIAN, FILE, DYN, RCDC, unp  # noqa: E402
import gen_pyfuncs_decode as GD                                             # noqa: E402

VERIF = os.path.dirname(os.path.dirname(HERE))
REPO = os.environ.get("NPTDMS_REPO", "/repo")
OUT = os.path.join(VERIF, "coq", "theories", "Gen", "PyFuncsDaqmxRead.v")      # Gen/PyFuncsDaqmxRead.v
ME = "gen_pyfuncs_daqmxread"

DQ, PYSC = REC("dq"), REC("pyscaler")
SDD = ("adict", S.ZDICT(NPARR))            # defaultdict(dict): path -> {scale_id: array}


def die(msg):
    sys.stderr.write("%s: UNSUPPORTED / unrecognised source, nothing written: %s\n" % (ME, msg))
    sys.exit(1)


GD.die = die
GD.ME = ME


PRELUDE = """\
(* ---- fixed text: scaler objects, defaultdict(dict), integer ufuncs with a Python int operand ---- *)

(* a scaler object of obj.daqmx_metadata.scalers: the raw fields (Model/Tokens.v) and the raw data index header
   (FORMAT_CHANGING_SCALER / DIGITAL_LINE_SCALER) that selected its class in DaqMxMetadata.__init__ *)
Record pyscaler := mkPyScaler { ps_kind : Z; ps_raw : scaler }.
Definition dq_pyscalers (q : dq) : list pyscaler := map (mkPyScaler (dq_kind q)) (dq_scalers q).
Definition ps_buf (s : pyscaler) : Z := sc_buf (ps_raw s).        (* raw_buffer_index *)
Definition ps_off (s : pyscaler) : Z := sc_off (ps_raw s).        (* raw_byte_offset / raw_bit_offset *)
Definition ps_id (s : pyscaler) : Z := sc_id (ps_raw s).          (* scale_id *)

(* defaultdict(dict): d[k] of a missing key is a new empty dict *)
Definition dd_item {V} (k : bytes) (d : alist (list (Z * V))) : list (Z * V) :=
  match alookup k d with Some x => x | None => [] end.

(* one item of an integer array as a Python int, and back (two's complement, the dtype's byte order) *)
Definition np_int_dec (k : ascii) (o : endian) (it : bytes) : Z :=
  if ceq k "i" then s_dec o it else u_dec o it.
Definition np_int_enc (w : Z) (o : endian) (v : Z) : bytes := u_enc o (Z.to_nat w) (v mod 256 ^ w).
(* a Python int operand of a ufunc whose other operand is an array: it must fit the array's dtype
   (NumPy 2 / NEP 50: OverflowError); only integer dtypes have the bitwise ufuncs (TypeError) *)
Definition np_weak_operand (a : nparr) (v : Z) : res Z :=
  match a_dtype a with
  | DNum k w _ =>
    if ceq k "i" then (if (- (256 ^ w / 2) <=? v) && (v <? 256 ^ w / 2) then Ok v else Err EOther)
    else if ceq k "u" then (if (0 <=? v) && (v <? 256 ^ w) then Ok v else Err EOther)
    else Err EType
  | DStruct _ => Err EType
  end.
Definition np_int_map (f : Z -> Z) (a : nparr) : res nparr :=
  match a_dtype a with
  | DNum k w o =>
    if ceq k "i" || ceq k "u" then
      Ok (mkArr (DNum k w LE) (flat_map (fun it => np_int_enc w LE (f (np_int_dec k o it))) (items w (a_raw a))))
    else Err EType
  | DStruct _ => Err EType
  end.
(* np.right_shift(a, k) / np.bitwise_and(a, k), k a Python int (a ufunc's result is in NATIVE byte order) *)
Definition np_right_shift (a : nparr) (k : Z) : res nparr :=
  do k' <- np_weak_operand a k; np_int_map (fun x => Z.shiftr x k') a.
Definition np_bitwise_and (a : nparr) (k : Z) : res nparr :=
  do k' <- np_weak_operand a k; np_int_map (fun x => Z.land x k') a.
"""


class Hooks:
    """call / statement rules of the DAQmx chunk reader, put in front of the decode driver's"""

    def __init__(self, d):
        self.d = d
        self.sem = d.sem
        self.defaultdicts = set()
        d.sem.extra_calls.insert(0, self.calls)
        d.sem.extra_statements.insert(0, self.statements)

    def calls(self, e, env, h, cx):
        f = e.func
        sem = self.sem
        # scaler.byte_offset() / scaler.postprocess_data(a): the generated dispatchers over the scaler's class
        if isinstance(f, ast.Attribute) and isinstance(f.value, ast.Name) and f.value.id in env \
                and env[f.value.id][1] == PYSC and not e.keywords:
            ent = self.d.methods.get(("<pyscaler>", f.attr))
            if ent is None:
                T.fail(e, "method %s of a scaler object is not translated" % f.attr)
            return sem.call_translated(e, ent, [env[f.value.id][0]], list(e.args), env, h, cx)
        # np.right_shift(a, k) / np.bitwise_and(a, k)
        if S.N.NpSem.is_np(f, "right_shift") or S.N.NpSem.is_np(f, "bitwise_and"):
            if len(e.args) != 2 or e.keywords:
                T.fail(e, "arity of np.%s" % f.attr)
            a, aty = T.ex(e.args[0], env, h, cx)
            if aty != NPARR:
                T.fail(e, "np.%s of %r" % (f.attr, aty))
            k = sem.as_int(e.args[1], env, h, cx)
            return sem.hoist(e, h, cx, "np_%s %s %s" % (f.attr, a, k)), NPARR
        return None

    def statements(self, s, rest, env, K, sc, cx):
        # X = defaultdict(dict)
        if isinstance(s, ast.Assign) and len(s.targets) == 1 and isinstance(s.targets[0], ast.Name) \
                and unp(s.value) == "defaultdict(dict)":
            if not self.d.defaultdict_imported:
                T.fail(s, "defaultdict is not collections.defaultdict in this module")
            n = s.targets[0].id
            self.defaultdicts.add(n)
            env2 = dict(env)
            env2[n] = (T.cname(n), SDD)
            return "let %s := [] in\n" % T.cname(n) + T.block(rest, env2, K, sc, cx)
        # X[k1][k2] = v on a defaultdict(dict)
        if isinstance(s, ast.Assign) and len(s.targets) == 1 and isinstance(s.targets[0], ast.Subscript) \
                and isinstance(s.targets[0].value, ast.Subscript) and isinstance(s.targets[0].value.value, ast.Name):
            n = s.targets[0].value.value.id
            if n not in self.defaultdicts or n not in env or env[n][1] != SDD:
                T.fail(s, "nested item assignment into something that is not a defaultdict(dict)")
            h = T.Hoist()
            v, vty = T.ex(s.value, env, h, cx)
            if vty != NPARR:
                T.fail(s, "item of type %r stored into a dict of arrays" % (vty,))
            k1, k1ty = T.ex(s.targets[0].value.slice, env, h, cx)
            if k1ty != BYTES:
                T.fail(s, "dict key of type %r" % (k1ty,))
            k2 = self.sem.as_int(s.targets[0].slice, env, h, cx)
            c = T.cname(n)
            env2 = dict(env)
            env2[n] = (c, SDD)
            return T.wrap(h.pre, "let %s := aset %s (zset %s %s (dd_item %s %s)) %s in\n"
                          % (c, k1, k2, v, k1, env[n][0], env[n][0])) + T.block(rest, env2, K, sc, cx)
        return None


_prev_assigned_keys = None


def assigned_keys(stmts):
    """X[k1][k2] = v assigns X"""
    out = _prev_assigned_keys(stmts)
    for s in stmts:
        for n in ast.walk(s):
            if isinstance(n, ast.Assign) and len(n.targets) == 1 and isinstance(n.targets[0], ast.Subscript) \
                    and isinstance(n.targets[0].value, ast.Subscript) and isinstance(n.targets[0].value.value, ast.Name) \
                    and n.targets[0].value.value.id not in out:
                out.append(n.targets[0].value.value.id)
    return out


def check_shadowing(f):
    """a `for` target that shadows a variable assigned earlier: the name must not be read again after that loop except
    inside later loops that bind it again (the translation keeps the outer binding after the loop, Python the last item)"""
    body = f.body
    assigned = set(a.arg for a in f.args.args)

    def targets(t):
        return [n.id for n in ast.walk(t) if isinstance(n, ast.Name)]

    for i, s in enumerate(body):
        if isinstance(s, ast.For):
            shadow = [n for n in targets(s.target) if n in assigned]
            for later in body[i + 1:]:
                for n in shadow:
                    if isinstance(later, ast.For) and n in targets(later.target):
                        # bound again; its iterable is evaluated before the binding and may not read the name
                        if any(isinstance(x, ast.Name) and x.id == n for x in ast.walk(later.iter)):
                            die("%s: %s is read after a loop that rebinds it (line %d)" % (f.name, n, later.lineno))
                        continue
                    if any(isinstance(x, ast.Name) and x.id == n for x in ast.walk(later)):
                        die("%s: %s is read after a loop that rebinds it (line %d)" % (f.name, n, later.lineno))
        for n in ast.walk(s):
            if isinstance(n, (ast.Assign, ast.AugAssign)):
                for t in (n.targets if isinstance(n, ast.Assign) else [n.target]):
                    for x in ast.walk(t):
                        if isinstance(x, ast.Name) and isinstance(x.ctx, ast.Store):
                            assigned.add(x.id)
        # nested loops that shadow are not accepted at all
        if isinstance(s, ast.For):
            for inner in ast.walk(s):
                if isinstance(inner, ast.For) and inner is not s:
                    if any(n in assigned for n in targets(inner.target)):
                        die("%s: a nested loop rebinds %s" % (f.name, targets(inner.target)))


def scaler_init_fields(tree, cls, third):
    """the unpacked tuple of <cls>.__init__: (data_type_code, self.raw_buffer_index, self.<third>, self.sample_format_bitmap,
    self.scale_id) and self.data_type = DAQMX_TYPES[data_type_code]"""
    f, _ = GD.find(tree, "__init__", cls)
    got = [unp(s) for s in f.body if not T.is_skip(s)]
    unpack = [g for g in got if "_struct_unpack" in g]
    want_lhs = "data_type_code, self.raw_buffer_index, self.%s, self.sample_format_bitmap, self.scale_id" % third
    if len(unpack) != 1 or not unpack[0].startswith(want_lhs + " = _struct_unpack(endianness + '") \
            or "self.data_type = DAQMX_TYPES[data_type_code]" not in got or len(got) != 3:
        die("%s.__init__ does not have the expected shape: %r" % (cls, got))
    fmt = unpack[0].split("endianness + '")[1].split("'")[0]
    if len(fmt) != 5 or fmt[:3] != "LLL" or fmt[4] != "L":
        die("%s.__init__ unpack format %r" % (cls, fmt))


def translate():
    global _prev_assigned_keys
    d = GD.translate()
    n0 = len(d.cx.defs)
    _prev_assigned_keys = T.assigned_keys
    T.assigned_keys = assigned_keys
    T.EXTRA_COERCIONS[(S.ZDICT(NPARR), S.SCALERS)] = "%s"
    T.KEYWORDS.update({"zset", "zlookup", "dd_item"})
    tree = GD.parse("daqmx.py")
    d.trees["daqmx.py"] = tree
    d.defaultdict_imported = any(isinstance(n, ast.ImportFrom) and n.module == "collections"
                                 and any(a.name == "defaultdict" and a.asname is None for a in n.names) for n in tree.body)
    hooks = Hooks(d)
    cx = d.cx
    cx.n_loop = 0               # loop functions are named after the function they belong to: numbering restarts here

    # ---- reflection: the scaler classes and DAQMX_TYPES
    from nptdms import daqmx, types
    if sorted(daqmx._scaler_classes.items(), key=lambda kv: kv[0]) != sorted(
            [(daqmx.FORMAT_CHANGING_SCALER, daqmx.DaqMxScaler), (daqmx.DIGITAL_LINE_SCALER, daqmx.DigitalLineScaler)],
            key=lambda kv: kv[0]):
        die("daqmx._scaler_classes is not {FORMAT_CHANGING_SCALER: DaqMxScaler, DIGITAL_LINE_SCALER: DigitalLineScaler}")
    for c in (daqmx.DaqMxScaler, daqmx.DigitalLineScaler):
        if c.__mro__ != (c, object) or "byte_offset" not in c.__dict__ or "postprocess_data" not in c.__dict__:
            die("%s: unexpected class structure" % c.__name__)
    scaler_init_fields(tree, "DaqMxScaler", "raw_byte_offset")
    scaler_init_fields(tree, "DigitalLineScaler", "raw_bit_offset")
    rows = []
    for code, c in daqmx.DAQMX_TYPES.items():
        if type(code) is not int or c not in d.enum_of:
            die("DAQMX_TYPES[%r]" % (code,))
        rows.append((code, c))
    cx.defs.append("(* REFLECTED: daqmx.DAQMX_TYPES[code] (a class is its enum value; None: KeyError) *)\n"
                   "Definition drd_daqmx_types (code : Z) : option tdcls :=\n%s  None.\n"
                   "Definition ps_dtype (s : pyscaler) : option tdcls := drd_daqmx_types (sc_type (ps_raw s))."
                   % "".join("  if code =? %d then (* %s *) Some %d else\n" % (code, c.__name__, d.enum_of[c]) for code, c in rows))
    cx.defs.append("(* REFLECTED: daqmx.DIGITAL_LINE_SCALER, the header whose scaler class is DigitalLineScaler (the other\n"
                   "   registered header, FORMAT_CHANGING_SCALER = %d, selects DaqMxScaler) *)\n"
                   "Definition drd_DIGITAL_LINE_SCALER : Z := %d." % (daqmx.FORMAT_CHANGING_SCALER, daqmx.DIGITAL_LINE_SCALER))

    # ---- attributes
    cx.attr[("sobj", "daqmx_metadata")] = ("so_daqmx", OPT(DQ), "EOther")       # AttributeError when absent
    cx.attr[("dq", "scalers")] = ("dq_pyscalers", LIST(PYSC), None)
    cx.attr[("pyscaler", "raw_buffer_index")] = ("ps_buf", Z, None)
    cx.attr[("pyscaler", "scale_id")] = ("ps_id", Z, None)
    cx.attr[("pyscaler", "data_type")] = ("ps_dtype", OPT(CLS), "EKey")
    cx.isinst[("sobj", "DaqmxSegmentObject")] = "(negb (is_none (so_daqmx %s)))"

    # ---- the scaler methods
    d.fun("daqmx.py", "byte_offset", "DaqMxScaler", "daqmx_scaler_byte_offset_gen", [], filevars=(),
          recv={"self.raw_byte_offset": ("self_raw_byte_offset", Z)})
    d.fun("daqmx.py", "postprocess_data", "DaqMxScaler", "daqmx_scaler_postprocess_data_gen", [NPARR], filevars=())
    d.fun("daqmx.py", "byte_offset", "DigitalLineScaler", "digital_scaler_byte_offset_gen", [], filevars=(),
          recv={"self.raw_bit_offset": ("self_raw_bit_offset", Z)})
    d.fun("daqmx.py", "postprocess_data", "DigitalLineScaler", "digital_scaler_postprocess_data_gen", [NPARR], filevars=(),
          recv={"self.raw_bit_offset": ("self_raw_bit_offset", Z)})
    cx.defs.append("(* scaler.byte_offset() / scaler.postprocess_data(a): the method of the scaler's class (REFLECTED: the class\n"
                   "   registered in daqmx._scaler_classes for the header; there are exactly two) *)\n"
                   "Definition scaler_byte_offset_gen (s : pyscaler) : res Z :=\n"
                   "  if ps_kind s =? drd_DIGITAL_LINE_SCALER then (* DigitalLineScaler *) digital_scaler_byte_offset_gen (ps_off s)\n"
                   "  else (* DaqMxScaler *) daqmx_scaler_byte_offset_gen (ps_off s).\n"
                   "Definition scaler_postprocess_data_gen (s : pyscaler) (data : nparr) : res nparr :=\n"
                   "  if ps_kind s =? drd_DIGITAL_LINE_SCALER then (* DigitalLineScaler *) digital_scaler_postprocess_data_gen (ps_off s) data\n"
                   "  else (* DaqMxScaler *) daqmx_scaler_postprocess_data_gen data.")
    d.methods[("<pyscaler>", "byte_offset")] = {"fn": "scaler_byte_offset_gen", "params": [], "rty": Z, "kind": "method",
                                                "defaults": {}}
    d.methods[("<pyscaler>", "postprocess_data")] = {"fn": "scaler_postprocess_data_gen", "params": [("data", NPARR)],
                                                     "rty": NPARR, "kind": "method", "defaults": {}}

    # ---- get_buffer_dimensions: translated by the reader driver (PyFuncsReader.v)
    f, _ = GD.find(tree, "get_buffer_dimensions")
    if [a.arg for a in f.args.args] != ["ordered_objects"]:
        die("signature of get_buffer_dimensions")
    d.methods[("", "get_buffer_dimensions")] = {"fn": "get_buffer_dimensions_gen", "params": [("ordered_objects", LIST(SOBJ))],
                                                "rty": LIST(TUP(Z, Z)), "kind": "plain", "defaults": {}}

    # ---- DaqmxDataReader._read_data_chunk
    cd = [n for n in tree.body if isinstance(n, ast.ClassDef) and n.name == "DaqmxDataReader"]
    if len(cd) != 1 or [unp(b_) for b_ in cd[0].bases] != ["BaseDataReader"] \
            or any(isinstance(n, ast.FunctionDef) and n.name == "__init__" for n in cd[0].body):
        die("DaqmxDataReader is not a plain subclass of BaseDataReader")
    # every other method of the reader (read_data_chunks, read_channel_data_chunks, _read_channel_data_chunk) is
    # BaseDataReader's: the class itself defines _read_data_chunk and nothing else
    extra = [n.name for n in cd[0].body if isinstance(n, (ast.FunctionDef, ast.AsyncFunctionDef)) and n.name != "_read_data_chunk"]
    other = [n for n in cd[0].body if not isinstance(n, ast.FunctionDef) and not T.is_skip(n)]
    if extra or other:
        die("DaqmxDataReader defines more than _read_data_chunk: %s -- methods inherited from BaseDataReader are overridden"
            % ", ".join(extra or ["<statement>"]))
    if not any(isinstance(n, ast.ImportFrom) and n.module == "nptdms.base_segment"
               and any(a.name == "read_interleaved_segment_bytes" and a.asname is None for a in n.names) for n in tree.body):
        die("read_interleaved_segment_bytes is not nptdms.base_segment's in daqmx.py")
    f, _ = GD.find(tree, "_read_data_chunk", "DaqmxDataReader")
    check_shadowing(f)
    d.fun("daqmx.py", "_read_data_chunk", "DaqmxDataReader", "daqmx_read_data_chunk_gen", [FILE, LIST(SOBJ), Z],
          recv={"self.endianness": ("self_endianness", ENDIAN)}, with_state=["file"], key=("<daqmx>", "_read_data_chunk"))
    return d, n0


def header():
    return ("(* GENERATED by harness/gen/gen_pyfuncs_daqmxread.py from nptdms/daqmx.py -- do not edit.\n"
            "   Shallow monadic translation of the DAQmx chunk reader; see the script for the conventions. *)\n"
            "From Coq Require Import String Ascii.\n"
            "From Coq Require Import ZArith List Bool.\n"
            "From Coq Require Import Init.Byte.\n"
            "Import ListNotations.\n"
            "From NpTdms Require Import Base.Bytes Base.Res Base.PySlice Model.Tokens Model.SegState Model.Layout Model.Reader Gen.TypeTable\n"
            "     Gen.PyFuncsReader Gen.PyFuncsDecode.\n"
            "Local Open Scope Z_scope.\n")


def main():
    try:
        d, n0 = translate()
    except T.Unsupported as e:
        die(str(e))
    text = header() + PRELUDE + "\n" + "\n\n".join(d.cx.defs[n0:]) + "\n"
    if "--stdout" in sys.argv:
        sys.stdout.write(text)
        return
    import daqmxread_selftest as ST
    st_text, counts = ST.selftest(REPO, die)
    GD.write_if_changed(OUT, text + "\n" + st_text)
    print("%s: %d definitions; self-test cases: %s" % (ME, len(d.cx.defs) - n0, ", ".join("%s %d" % kv for kv in counts.items())))


if __name__ == "__main__":
    main()
