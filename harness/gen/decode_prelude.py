"""Fixed Gallina text for gen_pyfuncs_decode.py: the meaning of the CPython / struct / NumPy primitives the
translated data decoding path of npTDMS relies on.  Every primitive is run against the REAL one (CPython's
struct and UTF-8 codec, the installed NumPy) on boundary values by decode_selftest.py; the cases are embedded as
`Example`s in Gen/PyFuncsDecodeTest.v.

Representation.
  file object        the bytes from the current position to the end of the file (`pyfile`); a file object used
                     with tell()/seek() is the whole content and the position (`posfile`)
  str                its UTF-8 encoding (a byte list)
  struct value       `sval`: a Python int, or a float as the IEEE bits of the 'f' / 'd' field it was unpacked from
  NumPy dtype        `npdtype`: kind letter, item size, byte order ('|' and '=' are LE: the harness runs on a
                     little-endian machine) or a list of named fields
  NumPy array        `nparr`: dtype and the raw bytes of a C-contiguous 1-D array; `nparr2`: a 2-D one with the
                     number of items per row
  class              a TdmsType class is its enum_value (`tdcls`)
"""

PRELUDE = r"""
(* ---- the CPython / struct / NumPy primitives the translation relies on (fixed text; each one is run against
        the real one on boundary values by the self-test, Gen/PyFuncsDecodeTest.v) ---- *)

Definition need {A} (e : err) (o : option A) : res A :=
  match o with Some a => Ok a | None => Err e end.
Definition is_none {A} (o : option A) : bool :=
  match o with None => true | Some _ => false end.
Definition err_eqb (a b : err) : bool :=
  match a, b with
  | EEof, EEof | EValue, EValue | EKey, EKey | EStruct, EStruct | ENotImpl, ENotImpl | EIndex, EIndex
  | ERuntime, ERuntime | EType, EType | EOther, EOther | EFuel, EFuel => true
  | _, _ => false
  end.
(* try: r  except E: h *)
Definition py_catch {A} (e : err) (r h : res A) : res A :=
  match r with
  | Err e' => if err_eqb e' e then h else r
  | Ok _ => r
  end.
(* range(a, b) *)
Definition py_range (a b : Z) : list Z := map (fun k => a + Z.of_nat k) (seq 0 (Z.to_nat (b - a))).
(* a // b, a % b: ZeroDivisionError for b = 0 *)
Definition py_floordiv (a b : Z) : res Z := if b =? 0 then Err EOther else Ok (a / b).
Definition py_mod (a b : Z) : res Z := if b =? 0 then Err EOther else Ok (a mod b).
(* l[i] = x on a Python list *)
Definition py_setitem {A} (l : list A) (i : Z) (x : A) : res (list A) :=
  let len := zlen l in
  let i' := if i <? 0 then i + len else i in
  if (0 <=? i') && (i' <? len) then Ok (replace_nth (Z.to_nat i') x l) else Err EIndex.
(* (a, b) = <sequence>: ValueError unless it has exactly two items *)
Definition py_unpack2 {A} (l : list A) : res (A * A) :=
  match l with [a; b] => Ok (a, b) | _ => Err EValue end.
(* sum(<generator>) where an item may be None: TypeError *)
Fixpoint py_sum_opt (l : list (option Z)) : res Z :=
  match l with
  | [] => Ok 0
  | None :: _ => Err EType
  | Some x :: r => do s <- py_sum_opt r; Ok (x + s)
  end.

(* a TdmsType class is represented by its enum_value *)
Definition tdcls := Z.

(* ---- file objects ---- *)
(* the bytes from the current position to the end *)
Definition pyfile := bytes.
(* file.read(n): a negative n reads to the end; short at the end of the file *)
Definition py_read (f : pyfile) (n : Z) : res (bytes * pyfile) :=
  if n <? 0 then Ok (f, []) else Ok (take n f, drop n f).
(* a file object used with tell() / seek(): content and position *)
Record posfile := mkPf { pf_data : bytes; pf_pos : Z }.
Definition pf_tell (f : posfile) : Z := pf_pos f.
(* file.seek(p): ValueError (io.BytesIO) / OSError for a negative position; beyond the end is allowed *)
Definition pf_seek (f : posfile) (p : Z) : res posfile :=
  if p <? 0 then Err EValue else Ok (mkPf (pf_data f) p).
(* a function reading sequentially from the current position, run on a positioned file *)
Definition pf_run {A} (g : pyfile -> res (A * pyfile)) (f : posfile) : res (A * posfile) :=
  let cur := drop (pf_pos f) (pf_data f) in
  do '(a, cur') <- g cur;
  Ok (a, mkPf (pf_data f) (pf_pos f + (blen cur - blen cur'))).

(* ---- struct.unpack ---- *)
(* a Python int, or the float unpacked from an 'f' / 'd' field as that field's IEEE bits *)
Inductive sval := SInt (z : Z) | SF32 (bits : Z) | SF64 (bits : Z).
Definition ceq (a b : ascii) : bool := Ascii.eqb a b.
(* standard sizes ('<' and '>' formats: no alignment) *)
Definition struct_code_width (c : ascii) : option nat :=
  if ceq c "b" || ceq c "B" then Some 1%nat
  else if ceq c "h" || ceq c "H" then Some 2%nat
  else if ceq c "l" || ceq c "L" || ceq c "i" || ceq c "I" || ceq c "f" then Some 4%nat
  else if ceq c "q" || ceq c "Q" || ceq c "d" then Some 8%nat
  else None.
Definition struct_field (e : endian) (c : ascii) (b : bytes) : sval :=
  if ceq c "b" || ceq c "h" || ceq c "l" || ceq c "i" || ceq c "q" then SInt (s_dec e b)
  else if ceq c "f" then SF32 (u_dec e b)
  else if ceq c "d" then SF64 (u_dec e b)
  else SInt (u_dec e b).
Fixpoint struct_unpack_from (e : endian) (fmt : string) (b : bytes) : option (list sval) :=
  match fmt with
  | EmptyString => match b with [] => Some [] | _ => None end
  | String c r =>
    match struct_code_width c with
    | None => None
    | Some w =>
      if blen b <? Z.of_nat w then None
      else match struct_unpack_from e r (skipn w b) with
           | Some vs => Some (struct_field e c (firstn w b) :: vs)
           | None => None
           end
    end
  end.
(* struct.unpack(fmt, b): struct.error unless len(b) is the size of the format *)
Definition py_struct_unpack (fmt : endian * string) (b : bytes) : res (list sval) :=
  match struct_unpack_from (fst fmt) (snd fmt) b with Some l => Ok l | None => Err EStruct end.
(* a struct value used as an int (file.read(n), a dict key that is an enum value): a float is a TypeError *)
Definition sval_as_int (v : sval) : res Z :=
  match v with SInt z => Ok z | _ => Err EType end.
(* struct.unpack with a format that is literally made of integer codes: a list of ints *)
Definition py_struct_unpack_int (fmt : endian * string) (b : bytes) : res (list Z) :=
  do l <- py_struct_unpack fmt b; mapM sval_as_int l.
(* bool(v) *)
Definition sval_truth (v : sval) : bool :=
  match v with
  | SInt z => negb (z =? 0)
  | SF32 b => negb (Z.land b 0x7FFFFFFF =? 0)
  | SF64 b => negb (Z.land b 0x7FFFFFFFFFFFFFFF =? 0)
  end.
(* TdmsTimestamp(seconds, second_fractions): the two attributes as given *)
Record pyts := mkPyTs { ts_seconds : Z; ts_second_fractions : Z }.
(* the value a TdmsType.read returns: int / float, bool, str (its UTF-8 bytes), TdmsTimestamp *)
Inductive pyval := PVs (v : sval) | PVb (b : bool) | PVstr (s : bytes) | PVts (t : pyts).

(* ---- bytes.decode('utf-8') and bytes.decode('utf-8', errors='replace') (CPython's decoder) ---- *)
Definition utf8_cont (b : byte) : bool := (0x80 <=? b2z b) && (b2z b <=? 0xBF).
(* the next unit of the input: how many bytes it takes and whether they are a valid sequence; an invalid unit
   is what the decoder reports as ONE error (replaced by one U+FFFD) *)
Definition utf8_step (b : bytes) : nat * bool :=
  match b with
  | [] => (0%nat, true)
  | c0 :: r =>
    let z := b2z c0 in
    if z <? 0x80 then (1%nat, true)
    else if z <? 0xC2 then (1%nat, false)
    else if z <? 0xE0 then
      match r with
      | [] => (1%nat, false)
      | c1 :: _ => if utf8_cont c1 then (2%nat, true) else (1%nat, false)
      end
    else if z <? 0xF0 then
      match r with
      | [] => (1%nat, false)
      | c1 :: r1 =>
        if negb (utf8_cont c1) || (if b2z c1 <? 0xA0 then z =? 0xE0 else z =? 0xED) then (1%nat, false)
        else match r1 with
             | [] => (2%nat, false)
             | c2 :: _ => if utf8_cont c2 then (3%nat, true) else (2%nat, false)
             end
      end
    else if z <? 0xF5 then
      match r with
      | [] => (1%nat, false)
      | c1 :: r1 =>
        if negb (utf8_cont c1) || (if b2z c1 <? 0x90 then z =? 0xF0 else z =? 0xF4) then (1%nat, false)
        else match r1 with
             | [] => (2%nat, false)
             | c2 :: r2 =>
               if negb (utf8_cont c2) then (2%nat, false)
               else match r2 with
                    | [] => (3%nat, false)
                    | c3 :: _ => if utf8_cont c3 then (4%nat, true) else (3%nat, false)
                    end
             end
      end
    else (1%nat, false)
  end.
Fixpoint utf8_valid_fuel (fuel : nat) (b : bytes) : bool :=
  match fuel with
  | O => true
  | S f => match b with
           | [] => true
           | _ => let '(n, ok) := utf8_step b in ok && utf8_valid_fuel f (skipn n b)
           end
  end.
Definition utf8_valid (b : bytes) : bool := utf8_valid_fuel (length b) b.
Definition U_FFFD : bytes := [xef; xbf; xbd].
Fixpoint utf8_replace_fuel (fuel : nat) (b : bytes) : bytes :=
  match fuel with
  | O => []
  | S f => match b with
           | [] => []
           | _ => let '(n, ok) := utf8_step b in
                  (if ok then firstn n b else U_FFFD) ++ utf8_replace_fuel f (skipn n b)
           end
  end.
(* b.decode('utf-8'): UnicodeDecodeError (a ValueError) on invalid input *)
Definition py_decode_utf8 (b : bytes) : res bytes := if utf8_valid b then Ok b else Err EValue.
(* b.decode('utf-8', errors='replace') *)
Definition py_decode_utf8_replace (b : bytes) : res bytes := Ok (utf8_replace_fuel (length b) b).

(* ---- NumPy dtypes and arrays ---- *)
Inductive npdtype :=
| DNum (kind : ascii) (width : Z) (order : endian)
| DStruct (fields : list (string * (ascii * Z * endian))).
Definition dt_itemsize (d : npdtype) : Z :=
  match d with
  | DNum _ w _ => w
  | DStruct fs => fold_right (fun f s => snd (fst (snd f)) + s) 0 fs
  end.
(* dtype.newbyteorder(e): one-byte types have no byte order *)
Definition np_newbyteorder (d : npdtype) (e : endian) : npdtype :=
  match d with
  | DNum k w _ => DNum k w (if w =? 1 then LE else e)
  | DStruct fs => DStruct (map (fun f => let '(n, (k, w, _)) := f in (n, (k, w, if w =? 1 then LE else e))) fs)
  end.
Record nparr := mkArr { a_dtype : npdtype; a_raw : bytes }.
Record nparr2 := mkArr2 { a2_dtype : npdtype; a2_cols : Z; a2_raw : bytes }.
Definition U1 : npdtype := DNum "u" 1 LE.
(* len(a) *)
Definition np_len (a : nparr) : Z :=
  if dt_itemsize (a_dtype a) <=? 0 then 0 else blen (a_raw a) / dt_itemsize (a_dtype a).
(* np.zeros(n, dtype): ValueError for a negative size *)
Definition np_zeros (n : Z) (d : npdtype) : res nparr :=
  if n <? 0 then Err EValue else Ok (mkArr d (List.repeat x00 (Z.to_nat (n * dt_itemsize d)))).
(* a[lo:hi] of a 1-D array (Python slice index adjustment, step 1) *)
Definition np_slice (a : nparr) (lo hi : Z) : nparr :=
  let n := np_len a in
  let sz := dt_itemsize (a_dtype a) in
  let lo' := adjust_index n lo 1 in
  let hi' := adjust_index n hi 1 in
  mkArr (a_dtype a) (take ((hi' - lo') * sz) (drop (lo' * sz) (a_raw a))).
(* a.dtype = d on a C-contiguous 1-D array: ValueError unless the bytes divide into whole items *)
Definition np_set_dtype (a : nparr) (d : npdtype) : res nparr :=
  if dt_itemsize d <=? 0 then Err EType
  else if blen (a_raw a) mod dt_itemsize d =? 0 then Ok (mkArr d (a_raw a)) else Err EValue.
(* a.reshape((-1, k)) / a.reshape(-1, k): ValueError unless the size divides (always for k <= 0) *)
Definition np_reshape2 (a : nparr) (k : Z) : res nparr2 :=
  if k <=? 0 then Err EValue
  else if np_len a mod k =? 0 then Ok (mkArr2 (a_dtype a) k (a_raw a)) else Err EValue.
(* a.view(d) of a 2-D array: the last axis is re-divided; ValueError unless it divides *)
Definition np2_view (a : nparr2) (d : npdtype) : res nparr2 :=
  let rowbytes := a2_cols a * dt_itemsize (a2_dtype a) in
  if dt_itemsize d <=? 0 then Err EType
  else if rowbytes mod dt_itemsize d =? 0 then Ok (mkArr2 d (rowbytes / dt_itemsize d) (a2_raw a)) else Err EValue.
(* a.reshape(-1) / a.ravel() of a C-contiguous 2-D array *)
Definition np2_flatten (a : nparr2) : nparr := mkArr (a2_dtype a) (a2_raw a).
(* number of rows *)
Definition np2_rows (a : nparr2) : Z :=
  let rb := a2_cols a * dt_itemsize (a2_dtype a) in if rb <=? 0 then 0 else blen (a2_raw a) / rb.
(* a[:, cols] for a tuple of column indices (a C-contiguous copy): IndexError for a column outside the row *)
Definition np2_take_columns (a : nparr2) (cols : list Z) : res nparr2 :=
  let w := a2_cols a in
  let sz := dt_itemsize (a2_dtype a) in
  if forallb (fun c => (- w <=? c) && (c <? w)) cols then
    let rows := items (w * sz) (a2_raw a) in
    Ok (mkArr2 (a2_dtype a) (zlen cols)
              (flat_map (fun row => flat_map (fun c => take sz (drop ((if c <? 0 then c + w else c) * sz) row)) cols) rows))
  else Err EIndex.
(* file.readinto(<uint8 buffer>) repeated until it returns 0, on a file object whose readinto delivers what the
   file still has:   bytes_read = -1; offset = 0
                     while bytes_read != 0: bytes_read = file.readinto(buffer[offset:]); offset += bytes_read
   -> the buffer with its first min(len(buffer), remaining) bytes overwritten, that number, the file after them *)
Definition py_readinto_all (file : pyfile) (buffer : nparr) : res (nparr * Z * pyfile) :=
  let n := blen (a_raw buffer) in
  let got := take n file in
  Ok (mkArr (a_dtype buffer) (got ++ drop (blen got) (a_raw buffer)), blen got, drop n file).
(* the items of an array in canonical form: the bytes of each item in little-endian order (complex: each component) *)
Definition np_canon_num (k : ascii) (o : endian) (b : bytes) : bytes :=
  match o with
  | LE => b
  | BE => if ceq k "c" then let h := Z.to_nat (blen b / 2) in rev (firstn h b) ++ rev (skipn h b) else rev b
  end.
Definition np_values (a : nparr) : list bytes :=
  match a_dtype a with
  | DNum k w o => map (np_canon_num k o) (items w (a_raw a))
  | DStruct _ => items (dt_itemsize (a_dtype a)) (a_raw a)
  end.
(* a['name'] of a structured array (a copy of the field's column): ValueError for an unknown field *)
Fixpoint np_field_find (name : string) (fs : list (string * (ascii * Z * endian))) (off : Z)
  : option (Z * (ascii * Z * endian)) :=
  match fs with
  | [] => None
  | (n, t) :: r => if String.eqb n name then Some (off, t) else np_field_find name r (off + snd (fst t))
  end.
Definition np_field (a : nparr) (name : string) : res nparr :=
  match a_dtype a with
  | DNum _ _ _ => Err EIndex
  | DStruct fs =>
    match np_field_find name fs 0 with
    | None => Err EValue
    | Some (off, (k, w, o)) =>
      Ok (mkArr (DNum k w o) (flat_map (fun it => take w (drop off it)) (items (dt_itemsize (a_dtype a)) (a_raw a))))
    end
  end.

(* TimestampArray(a): a view; ValueError unless the fields are ('second_fractions', 'seconds') or
   ('seconds', 'second_fractions') *)
Definition py_timestamp_array (a : nparr) : res nparr :=
  match a_dtype a with
  | DStruct [(n1, _); (n2, _)] =>
    if (String.eqb n1 "second_fractions" && String.eqb n2 "seconds")
       || (String.eqb n1 "seconds" && String.eqb n2 "second_fractions") then Ok a else Err EValue
  | _ => Err EValue
  end.
(* what TdmsSegmentObject.read_values returns: an array, or a list of str *)
Inductive pydata := DArr (a : nparr) | DStrs (l : list bytes).
Definition pydata_len (d : pydata) : Z := match d with DArr a => np_len a | DStrs l => zlen l end.
(* RawChannelDataChunk(data, scaler_data) and RawDataChunk(channel_data) *)
Record rcdc := mkRcdc { rc_data : option pydata; rc_scaler_data : option (list (Z * nparr)) }.
Record rawchunk := mkRdc { rdc_channel_data : alist rcdc }.

(* ---- receivers (nptdms/channel_data.py) ---- *)
(* a dict with int keys (scaler ids), insertion-ordered *)
Fixpoint zlookup {V} (k : Z) (l : list (Z * V)) : option V :=
  match l with [] => None | (k', v) :: r => if k =? k' then Some v else zlookup k r end.
Fixpoint zset {V} (k : Z) (v : V) (l : list (Z * V)) : list (Z * V) :=
  match l with
  | [] => [(k, v)]
  | (k', v') :: r => if k =? k' then (k', v) :: r else (k', v') :: zset k v r
  end.
(* np.zeros(n, dtype=None) / np.memmap(.., dtype=None): NumPy's default dtype, float64 *)
Definition np_dtype_or_default (d : option npdtype) : npdtype :=
  match d with Some x => x | None => DNum "f" 8 LE end.
(* np.memmap(<new temporary file>, mode='w+', shape=(n,), dtype=d): a zero-filled array (in a file) *)
Definition np_memmap_new (n : Z) (d : npdtype) : res nparr := np_zeros n d.
(* one item of dtype ds stored as an item of dtype dd (assignment casts 'unsafe'): only same-width numeric
   items are modelled -- the bytes in dd's byte order; structured dtypes are assigned FIELD BY POSITION *)
Definition np_store_num (ks : ascii) (ws : Z) (os : endian) (kd : ascii) (wd : Z) (od : endian) (it : bytes) : option bytes :=
  if (ws =? wd) && negb (ceq ks "c" && negb (ceq kd "c")) && negb (ceq kd "c" && negb (ceq ks "c")) then
    Some (np_canon_num kd od (np_canon_num ks os it))
  else None.
Fixpoint np_store_fields (fs fd : list (string * (ascii * Z * endian))) (it : bytes) : option bytes :=
  match fs, fd with
  | [], [] => Some []
  | (_, (ks, ws, os)) :: rs, (_, (kd, wd, od)) :: rd =>
    match np_store_num ks ws os kd wd od (take ws it), np_store_fields rs rd (drop ws it) with
    | Some a, Some b => Some (a ++ b)
    | _, _ => None
    end
  | _, _ => None
  end.
Definition np_store_item (ds dd : npdtype) (it : bytes) : option bytes :=
  match ds, dd with
  | DNum ks ws os, DNum kd wd od => np_store_num ks ws os kd wd od it
  | DStruct fs, DStruct fd => np_store_fields fs fd it
  | _, _ => None
  end.
Fixpoint opt_all {A} (l : list (option A)) : option (list A) :=
  match l with
  | [] => Some []
  | None :: _ => None
  | Some x :: r => match opt_all r with Some xs => Some (x :: xs) | None => None end
  end.
Fixpoint opt_concat (l : list (option bytes)) : option bytes :=
  match l with
  | [] => Some []
  | Some x :: r => match opt_concat r with Some y => Some (x ++ y) | None => None end
  | None :: _ => None
  end.
(* a[lo:hi] = v on a 1-D array: ValueError unless v has as many items as the slice, or one (broadcast);
   a conversion that is not modelled is NotImplementedError here *)
Definition np_assign_slice (a : nparr) (lo hi : Z) (v : nparr) : res nparr :=
  let n := np_len a in
  let sz := dt_itemsize (a_dtype a) in
  let lo' := adjust_index n lo 1 in
  let hi' := adjust_index n hi 1 in
  let len := Z.max 0 (hi' - lo') in
  let src := items (dt_itemsize (a_dtype v)) (a_raw v) in
  if negb ((zlen src =? len) || (zlen src =? 1)) then Err EValue
  else
    let src' := if zlen src =? len then src else List.repeat (hd [] src) (Z.to_nat len) in
    match opt_concat (map (np_store_item (a_dtype v) (a_dtype a)) src') with
    | None => Err ENotImpl
    | Some bytes' => Ok (mkArr (a_dtype a) (take (lo' * sz) (a_raw a) ++ bytes' ++ drop ((lo' + len) * sz) (a_raw a)))
    end.
(* a['name'][lo:hi] = v on a structured array: the field's bytes of the items lo..hi are replaced *)
Definition np_set_field (off w : Z) (p : bytes * bytes) : bytes :=
  take off (fst p) ++ snd p ++ drop (off + w) (fst p).
Definition np_assign_field_slice (a : nparr) (name : string) (lo hi : Z) (v : nparr) : res nparr :=
  match a_dtype a with
  | DNum _ _ _ => Err EIndex
  | DStruct fs =>
    match np_field_find name fs 0 with
    | None => Err EValue
    | Some (off, (k, w, o)) =>
      let n := np_len a in
      let sz := dt_itemsize (a_dtype a) in
      let lo' := adjust_index n lo 1 in
      let hi' := adjust_index n hi 1 in
      let len := Z.max 0 (hi' - lo') in
      let src := items (dt_itemsize (a_dtype v)) (a_raw v) in
      if negb ((zlen src =? len) || (zlen src =? 1)) then Err EValue
      else
        let src' := if zlen src =? len then src else List.repeat (hd [] src) (Z.to_nat len) in
        match opt_all (map (np_store_item (a_dtype v) (DNum k w o)) src') with
        | None => Err ENotImpl
        | Some cs =>
          let its := items sz (a_raw a) in
          Ok (mkArr (a_dtype a)
                    (concat (firstn (Z.to_nat lo') its
                             ++ map (np_set_field off w) (combine (firstn (Z.to_nat len) (skipn (Z.to_nat lo') its)) cs)
                             ++ skipn (Z.to_nat (lo' + len)) its)))
        end
    end
  end.

(* the attributes the receiver classes keep (in the order of the generated __init__ functions) *)
Definition list_receiver := (option npdtype * list bytes * list (Z * nparr))%type.
Definition numpy_receiver := (bytes * nparr * list (Z * nparr) * Z)%type.
Definition daqmx_receiver := (bytes * list (Z * nparr) * list (Z * Z))%type.
Definition timestamp_receiver := (bytes * bool * nparr * list (Z * nparr) * Z)%type.
Inductive receiver :=
| RList (r : list_receiver) | RNumpy (r : numpy_receiver) | RDaqmx (r : daqmx_receiver) | RTimestamp (r : timestamp_receiver).
"""
