"""Self-test of gen_pyfuncs_timetrack.py: TdmsChannel.time_track of REAL TdmsFile objects (files written by
TdmsWriter with wf_increment / wf_start_offset / wf_start_time properties, read back eagerly and lazily, with and
without raw_timestamps) is run and its results are embedded as `Example`s about the translated functions
(coq/theories/Gen/PyFuncsTimeTrackTest.v):

  st_rel    time_track(): every float64 of the result bit for bit (lengths 0, 1, 2, 3, 7, 64; offsets / increments:
            zero, -0.0, tiny, huge, negative, inf, nan), KeyError when wf_increment / wf_start_offset is missing
  st_abs    time_track(absolute_time=True, accuracy=a), a in s / ms / us / ns: the int64 count of every element
            (NaT = None), start time a TdmsTimestamp (raw_timestamps=True, converted by as_datetime64(a)) or a
            datetime64[us] with accuracy 'us'; KeyError when wf_start_time is missing
  (mixed units -- a datetime64[us] start with another accuracy --, integer-typed wf properties and sums beyond
   int64 are outside the model and not in the grid)
"""
import io
import os
import random
import sys

import numpy as np


def cz(v):
    return "%d" % v if v >= 0 else "(%d)" % v


def cfloat(x):
    x = float(x)
    if x != x:
        return "nan"
    if x in (float("inf"), float("-inf")):
        return "infinity" if x > 0 else "neg_infinity"
    return "(%s)%%float" % x.hex()


def clist(items):
    return "[" + "; ".join(items) + "]"


def err_of(e):
    for cls, name in ((KeyError, "EKey"), (IndexError, "EIndex"), (ValueError, "EValue"), (TypeError, "EType")):
        if isinstance(e, cls):
            return name
    return "EOther"


def observe(fn, enc):
    try:
        return "Ok %s" % enc(fn())
    except Exception as e:          # noqa: BLE001
        return "Err %s" % err_of(e)


UNITS = {"s": "Rs", "ms": "Rms", "us": "Rus", "ns": "Rns"}


def selftest(repo, die):
    sys.path.insert(0, repo)
    import nptdms
    if os.path.realpath(os.path.dirname(nptdms.__file__)) != os.path.realpath(os.path.join(repo, "nptdms")):
        die("nptdms imported from %s" % nptdms.__file__)
    import logging
    import warnings
    logging.disable(logging.CRITICAL)
    warnings.simplefilter("ignore")
    np.seterr(all="ignore")
    from nptdms import TdmsFile, TdmsWriter, ChannelObject
    from nptdms.timestamp import TdmsTimestamp

    def cprops(d):
        items = []
        for k, v in d.items():
            if isinstance(v, TdmsTimestamp):
                t = "(TVTimestamp %s %s)" % (cz(int(v.seconds)), cz(int(v.second_fractions)))
            elif isinstance(v, np.datetime64):
                t = "(TVDatetime %s)" % cz(int(v.astype("datetime64[us]").astype("int64")))
            elif isinstance(v, float):
                t = "(TVFloat %s)" % cfloat(v)
            elif isinstance(v, int) and not isinstance(v, bool):
                t = "(TVInt %s)" % cz(v)
            elif isinstance(v, str):
                t = '(TVStr "%s"%%string)' % v
            else:
                raise ValueError("property value %r" % (v,))
            items.append('("%s"%%string, %s)' % (k, t))
        return clist(items)

    def cfl(a):
        return clist(cfloat(x) for x in a)

    def cdt(a):
        v = a.astype("int64")
        return clist("None" if int(x) == -2 ** 63 else "(Some %s)" % cz(int(x)) for x in v)

    rng = random.Random(1207)
    vals = [0.0, -0.0, 1.0, 0.25, 1e-3, 1e-6, 0.1, -2.5, 1e-300, 5e-324, 1e7, 123456.789, float("inf"), float("nan"), 3.0e-7]
    starts = [np.datetime64("2020-01-01T00:00:00.000000"), np.datetime64("1904-01-01T00:00:00.000001"),
              np.datetime64("1999-12-31T23:59:59.999999"), np.datetime64("1850-06-01T12:00:00.5")]
    lengths = [0, 1, 2, 3, 7, 64]
    combos = []
    for n in lengths:
        for _ in range(7):
            combos.append((n, rng.choice(vals), rng.choice(vals), rng.choice(starts), None))
    combos += [(3, 0.5, 1.5, starts[0], "wf_increment"), (3, 0.5, 1.5, starts[0], "wf_start_offset"),
               (3, 0.5, 1.5, starts[0], "wf_start_time"), (0, 0.5, 1.5, starts[0], "wf_start_time"),
               (10, 0.25, 1.5, starts[0], None), (5, 1e-6, 0.0, starts[0], None), (4, -1.0, 10.0, starts[2], None)]
    rel_cases, abs_cases = [], []
    n_files = 0
    for (n, inc, off, start, drop) in combos:
        props = {"unit_string": "V", "wf_increment": inc, "wf_start_offset": off, "wf_start_time": start, "wf_samples": 1}
        if drop:
            del props[drop]
        buf = io.BytesIO()
        with TdmsWriter(buf) as w:
            w.write_segment([ChannelObject("g", "c", np.arange(n, dtype="float64"), props)])
        for raw_ts in (True, False):
            for mode in ("read", "open"):
                n_files += 1
                bio = io.BytesIO(buf.getvalue())
                f = TdmsFile.read(bio, raw_timestamps=raw_ts) if mode == "read" else TdmsFile.open(bio, raw_timestamps=raw_ts)
                ch = f["g"]["c"]
                p, ln = cprops(ch.properties), cz(len(ch))
                rel_cases.append("(%s, %s, %s)" % (p, ln, observe(ch.time_track, cfl)))
                for acc in UNITS:
                    if not raw_ts and acc != "us" and drop is None:
                        continue                        # datetime64[us] + timedelta64[other unit]: not modelled
                    abs_cases.append("(%s, %s, %s, %s)" % (
                        p, ln, UNITS[acc], observe(lambda: ch.time_track(absolute_time=True, accuracy=acc), cdt)))
                f.close()
    rel_cases = list(dict.fromkeys(rel_cases))
    abs_cases = list(dict.fromkeys(abs_cases))
    counts = {"files": n_files, "rel": len(rel_cases), "abs": len(abs_cases)}
    out = ["(* GENERATED by harness/gen/gen_pyfuncs_timetrack.py (timetrack_selftest.py) -- do not edit.\n"
           "   Self-test of Gen/PyFuncsTimeTrack.v: TdmsChannel.time_track of real TdmsFile objects. *)\n"
           "From Coq Require Import String.\nFrom Coq Require Import ZArith List Bool PrimFloat.\nImport ListNotations.\n"
           "From NpTdms Require Import Base.Res Model.Timestamp Model.TimeTrackF Gen.PyFuncsTimeTrack.\n"
           "Local Open Scope Z_scope.\n\n"
           "Fixpoint st_list {A} (eq : A -> A -> bool) (a b : list A) : bool :=\n"
           "  match a, b with [], [] => true | x :: a', y :: b' => eq x y && st_list eq a' b' | _, _ => false end.\n"
           "Definition st_res {A} (eq : A -> A -> bool) (a b : res A) : bool :=\n"
           "  match a, b with Ok x, Ok y => eq x y | Err x, Err y => err_eqb x y | _, _ => false end.\n"
           "Definition st_optz (a b : option Z) : bool :=\n"
           "  match a, b with Some x, Some y => x =? y | None, None => true | _, _ => false end.\n"]
    out.append("Definition st_rel_cases : list (list (string * tpval) * Z * res (list float)) :=\n  [%s].\n"
               "Example st_rel : forallb (fun c => let '(p, n, r) := c in st_res (st_list fbits_eqb) (time_track_rel_gen p n) r) "
               "st_rel_cases = true.\nProof. vm_compute. reflexivity. Qed.\n" % ";\n   ".join(rel_cases))
    out.append("Definition st_abs_cases : list (list (string * tpval) * Z * resolution * res (list (option Z))) :=\n  [%s].\n"
               "Example st_abs : forallb (fun c => let '(p, n, a, r) := c in st_res (st_list st_optz) (time_track_abs_gen p n a) r) "
               "st_abs_cases = true.\nProof. vm_compute. reflexivity. Qed.\n" % ";\n   ".join(abs_cases))
    return "\n".join(out), counts
