#!/venv/bin/python
"""Fail-closed translator: the CONTROL LOGIC of npTDMS's writer -> coq/theories/Gen/PyFuncsWCtl.v

Translated with Python `ast` (harness/gen/py2gallina.py; nptdms is imported only for the self-test):

  nptdms/writer.py  TdmsSegment.__init__ (duplicate-path check),
                    TdmsWriter.write_segment (which root / group objects are added given _root_written /
                    _groups_written, the stable sort by _path_ordering_key, both writes, the state update),
                    the same method cut before its last write (the state in which a failing write leaves
                    the writer),
                    TdmsWriter.defragment (the list of write_segment calls and the version handed to the
                    new writer)
  nptdms/common.py  ObjectPath.is_root / is_group / is_channel (recognised one-line properties)

Conventions.
 * A TdmsObject is a Model/Writer.v `wobj`; `o.path` is obj_path (the UTF-8 bytes of the path string).
   `ObjectPath.from_string` is Model/Path.v from_string (the parser property C16 is about) on those bytes,
   ValueError when it rejects; an ObjectPath is its (group, channel) pair; `ObjectPath()`,
   `ObjectPath(g)`, `RootObject()`, `GroupObject(g)` are the corresponding constructors without properties.
 * A set of strings is a list (duplicates allowed) observed through membership only: `set(genexp)` is the
   list of the elements, `a - b` a filter, `s.update(t)` an append, `len(s)` the number of distinct
   elements, `sorted(s)` Model/Writer.v sorted_set (ascending byte order = code point order, no repetitions).
 * `l.sort(key=lambda p: _path_ordering_key(p[0]))` is a stable insertion sort on the keys computed by the
   already translated Gen/PyFuncsWriter.v path_ordering_key; a None key among two or more elements is the
   TypeError of comparing None.
 * `segment.write(f)` is the parameter io_write over an abstract file state (it receives the segment: its
   objects, version and is_index_file flag); everything TdmsSegment.write does is Gen/PyFuncsWSize.v and
   Model/Writer.v.
 * defragment: `new_file.write_segment(x)` is `yield x` (the list of calls); the source TdmsFile is a
   Model/Defrag.v `dcontent`; `channel.read_data(scaled=False)` is the channel's (type, raw values) and
   `ChannelObject(g, c, data, props)` types it as Model/Defrag.v defrag_type does (ChannelObject.data_type).
   Any other argument list of read_data stops the translation.

Self-test: `Example`s with the results of the REAL TdmsWriter (TdmsSegment.write replaced by a recorder that
can be told to fail) and the real TdmsWriter.defragment (write_segment recorded) on real files.

Anything unrecognised: message on stderr, exit 1, nothing written.
"""
import ast
import os
import sys

HERE = os.path.dirname(os.path.abspath(__file__))
sys.path.insert(0, HERE)
import py2gallina as T                                             # noqa: E402
from py2gallina import Z, B, BYTES, OPT, LIST, TUP, REC             # noqa: E402
import np_sem as N                                                 # noqa: E402

VERIF = os.path.dirname(os.path.dirname(HERE))
REPO = os.environ.get("NPTDMS_REPO", "/repo")
OUT = os.path.join(VERIF, "coq", "theories", "Gen", "PyFuncsWCtl.v")
ME = "gen_pyfuncs_wctl"

OBJ, OPATH = REC("wobj"), REC("opath")
BSET = ("bset",)
TF = ("tyvar", "F")
SEG = TUP(LIST(OBJ), Z, B)
PROPS = LIST(REC("prop"))
DCONTENT, DGROUP, DCHAN, DDATA = REC("dcontent"), REC("dgroup"), REC("dchan"), REC("ddata")

ATTR = {
    ("wobj", "path"): ("obj_path", BYTES, None),
    ("opath", "is_root"): ("op_is_root", B, None),
    ("opath", "is_group"): ("op_is_group", B, None),
    ("opath", "is_channel"): ("op_is_channel", B, None),
    ("opath", "group"): ("op_group_str", BYTES, None),
    ("dcontent", "properties"): ("d_root_props", PROPS, None),
    ("dgroup", "name"): ("dg_name", BYTES, None),
    ("dgroup", "properties"): ("dg_props", PROPS, None),
    ("dchan", "name"): ("dc_name", BYTES, None),
    ("dchan", "properties"): ("dc_props", PROPS, None),
}
METHODS = {("dcontent", "groups"): ("d_groups", [], LIST(DGROUP)),
           ("dgroup", "channels"): ("dg_chans", [], LIST(DCHAN))}
PROPERTIES = {"is_root": "return self.group is None",
              "is_group": "return self.group is not None and self.channel is None",
              "is_channel": "return self.channel is not None"}


def die(msg):
    sys.stderr.write("%s: UNSUPPORTED / unrecognised source, nothing written: %s\n" % (ME, msg))
    sys.exit(1)


def parse(fn):
    path = os.path.join(REPO, "nptdms", fn)
    try:
        src = open(path).read()
        return src, ast.parse(src)
    except (OSError, SyntaxError) as e:
        die("cannot read/parse %s: %s" % (path, e))


def find(tree, name, cls, decorators=()):
    cs = [n for n in tree.body if isinstance(n, ast.ClassDef) and n.name == cls]
    if len(cs) != 1:
        die("class %s not found" % cls)
    fs = [n for n in cs[0].body if isinstance(n, ast.FunctionDef) and n.name == name]
    if len(fs) != 1:
        die("expected exactly one def %s.%s" % (cls, name))
    f = fs[0]
    if [ast.unparse(d) for d in f.decorator_list] != list(decorators) or f.args.vararg or f.args.kwarg or f.args.kwonlyargs:
        die("signature of %s.%s" % (cls, name))
    return f


def unp(n):
    return ast.unparse(n)


def body_of(f):
    return [s for s in f.body if not T.is_skip(s)]


def comment_of(fn, cls, f, stmts, note=""):
    txt = "\n".join(unp(s) for s in stmts if not T.is_skip(s)).replace("(*", "( *").replace("*)", "* )")
    return "nptdms/%s: %s.%s (line %d)%s\n%s\n" % (fn, cls, f.name, f.lineno, note, "\n".join("     " + l for l in txt.split("\n")))


PRELUDE = """\
(* ---- the Python primitives the translation relies on (fixed text) ---- *)
Definition need {A} (e : err) (o : option A) : res A :=
  match o with Some a => Ok a | None => Err e end.
Definition is_none {A} (o : option A) : bool :=
  match o with None => true | Some _ => false end.

(* an ObjectPath: (group, channel) *)
Definition opath := (option bytes * option bytes)%type.
(* nptdms/common.py ObjectPath.is_root / is_group / is_channel (the driver checks their one-line bodies) *)
Definition op_is_root (p : opath) : bool := is_none (fst p).
Definition op_is_group (p : opath) : bool := negb (is_none (fst p)) && is_none (snd p).
Definition op_is_channel (p : opath) : bool := negb (is_none (snd p)).
(* path.group where it is a string (never read for a root path by the translated code: the generator
   expressions filter on is_group / is_channel first) *)
Definition op_group_str (p : opath) : bytes := match fst p with Some g => g | None => [] end.
(* ObjectPath.from_string: Model/Path.v from_string on the UTF-8 bytes; ValueError when rejected *)
Definition opath_from_string (s : bytes) : res opath :=
  match from_string byte byte_eqb QUOTE SLASH s with
  | inr p => Ok p
  | inl _ => Err EValue
  end.
Definition opath_root : opath := (None, None).
Definition opath_group (g : bytes) : opath := (Some g, None).

(* sets of strings: lists observed through membership *)
Definition bset_diff (a b : list bytes) : list bytes := filter (fun x => negb (bmem x b)) a.
Definition bset_union (a b : list bytes) : list bytes := a ++ b.
Fixpoint bset_distinct (l : list bytes) : list bytes :=
  match l with
  | [] => []
  | x :: r => if bmem x r then bset_distinct r else x :: bset_distinct r
  end.
Definition bset_len (l : list bytes) : Z := Z.of_nat (length (bset_distinct l)).

(* list.sort(key=..): the keys are computed first; with two or more elements a None key is compared
   (TypeError); stable insertion sort on the keys *)
Fixpoint insert_by_key {A} (x : Z * A) (l : list (Z * A)) : list (Z * A) :=
  match l with
  | [] => [x]
  | y :: r => if fst x <=? fst y then x :: l else y :: insert_by_key x r
  end.
Definition py_sort_by_optkey {A} (key : A -> option Z) (l : list A) : res (list A) :=
  match l with
  | [] | [_] => Ok l
  | _ => do keyed <- mapM (fun x => do k <- need EType (key x); Ok (k, x)) l;
         Ok (map snd (fold_right insert_by_key [] keyed))
  end.

(* channel.read_data(scaled=False) of a source channel: its TDMS type (None: never had a raw data index)
   and raw values; ChannelObject(group, channel, data, properties): typed as ChannelObject.data_type
   does (Model/Defrag.v defrag_type) *)
Definition ddata := (option Z * list bytes)%type.
Definition dc_read_unscaled (c : dchan) : ddata := (dc_type c, dc_vals c).
Definition channel_object (g c : bytes) (d : ddata) (ps : list prop) : wobj :=
  WChan g c (defrag_type (fst d) (snd d)) (snd d) ps.
"""

SECTION_OPEN = """\
(* ---- TdmsWriter.write_segment: writing is a parameter ---- *)
Section WCtlGen.
(* F: state of an open output file; io_write f segment = segment.write(f), the segment being
   (objects, version, is_index_file) *)
Variable F : Type.
Variable io_write : F -> list wobj * Z * bool -> res F."""


def translate():
    src_w, tree_w = parse("writer.py")
    src_c, tree_c = parse("common.py")
    for name, text in PROPERTIES.items():
        f = find(tree_c, name, "ObjectPath", decorators=("property",))
        if [unp(s) for s in body_of(f)] != [text]:
            die("ObjectPath.%s is no longer `%s`" % (name, text))
    cx = T.Cx(dict(ATTR), {}, {}, {})
    cx.methods = dict(METHODS)
    cx.kwcalls = True
    cx.genexp_as_list = True
    sem = N.NpSem()
    cx.np = sem
    sigs = {}
    st = {}

    def fun(gen, stmts, params, env0, outputs, comment, **kw):
        rty = T.function(cx, gen, stmts, params, env0, outputs, comment, **kw)
        sigs[gen] = (params, rty)
        return rty

    def is_name_call(e, name):
        return isinstance(e, ast.Call) and isinstance(e.func, ast.Name) and e.func.id == name

    def calls(e, env, h, cx_):
        f = e.func
        def is_read_unscaled(c):
            # <channel>.read_data(scaled=False) on a source channel
            return (isinstance(c, ast.Call) and isinstance(c.func, ast.Attribute) and c.func.attr == "read_data"
                    and isinstance(c.func.value, ast.Name) and env.get(c.func.value.id, (None, None))[1] == DCHAN
                    and not c.args and len(c.keywords) == 1 and c.keywords[0].arg == "scaled"
                    and isinstance(c.keywords[0].value, ast.Constant) and c.keywords[0].value.value is False)
        if e.keywords and not (is_name_call(e, "TdmsSegment") or is_read_unscaled(e)):
            return None
        if unp(f) == "ObjectPath" and not e.args:
            return "opath_root", OPATH
        if unp(f) == "ObjectPath" and len(e.args) == 1:
            g, gty = T.ex(e.args[0], env, h, cx_)
            if gty != BYTES:
                T.fail(e, "ObjectPath of %r" % (gty,))
            return "(opath_group %s)" % g, OPATH
        if unp(f) == "RootObject" and not e.args:
            return "(WRoot [])", OBJ
        if unp(f) == "RootObject" and len(e.args) == 1:
            p, pty = T.ex(e.args[0], env, h, cx_)
            if pty != PROPS:
                T.fail(e, "RootObject of %r" % (pty,))
            return "(WRoot %s)" % p, OBJ
        if unp(f) == "GroupObject" and len(e.args) in (1, 2):
            g, gty = T.ex(e.args[0], env, h, cx_)
            p, pty = T.ex(e.args[1], env, h, cx_) if len(e.args) == 2 else ("[]", PROPS)
            if gty != BYTES or pty != PROPS:
                T.fail(e, "GroupObject of %r, %r" % (gty, pty))
            return "(WGroup %s %s)" % (g, p), OBJ
        if unp(f) == "ChannelObject" and len(e.args) == 4:
            a = [T.ex(x, env, h, cx_) for x in e.args]
            if [t for _, t in a] != [BYTES, BYTES, DDATA, PROPS]:
                T.fail(e, "ChannelObject of %r" % ([t for _, t in a],))
            return "(channel_object %s)" % " ".join(t for t, _ in a), OBJ
        if is_read_unscaled(e):
            return "(dc_read_unscaled %s)" % env[e.func.value.id][0], DDATA
        if is_name_call(e, "set") and len(e.args) == 1 and isinstance(e.args[0], ast.GeneratorExp):
            g = e.args[0]
            it, pat, inner = T.genexp(g, env, h, cx_)
            b, bty = T.ex(g.elt, inner, None, cx_)
            if bty != BYTES:
                T.fail(e, "set of %r" % (bty,))
            return "(List.map %s %s)" % (T.lam(pat, b), it), BSET
        if is_name_call(e, "sorted") and len(e.args) == 1:
            a, aty = T.ex(e.args[0], env, h, cx_)
            if aty != BSET:
                T.fail(e, "sorted of %r" % (aty,))
            return "(sorted_set %s)" % a, LIST(BYTES)
        if is_name_call(e, "len") and len(e.args) == 1:
            a, aty = T.ex(e.args[0], env, h, cx_)
            if aty == BSET:
                return "(bset_len %s)" % a, Z
            return None
        if is_name_call(e, "_path_ordering_key") and len(e.args) == 1:
            a, aty = T.ex(e.args[0], env, h, cx_)
            if aty != OPATH:
                T.fail(e, "_path_ordering_key of %r" % (aty,))
            return "(path_ordering_key (op_is_root %s) (op_is_group %s) (op_is_channel %s))" % (a, a, a), OPT(Z)
        return None

    old_binop = sem.binop

    def binop(e, lt, lty, rt, rty, h, cx_):
        if isinstance(e.op, ast.Sub) and lty == BSET and rty == BSET:
            return "(bset_diff %s %s)" % (lt, rt), BSET
        return old_binop(e, lt, lty, rt, rty, h, cx_)
    sem.binop = binop

    def statements(s, rest, env, K, sc, cx_):
        # path_object_pairs = [(ObjectPath.from_string(o.path), o) for o in objects]
        if isinstance(s, ast.Assign) and len(s.targets) == 1 and isinstance(s.targets[0], ast.Name) \
                and unp(s.value) == "[(ObjectPath.from_string(o.path), o) for o in objects]" and "objects" in env \
                and env["objects"][1] == LIST(OBJ):
            n = T.cname(s.targets[0].id)
            env2 = dict(env)
            env2[s.targets[0].id] = (n, LIST(TUP(OPATH, OBJ)))
            return ("do %s <- mapM (fun o => do p__ <- opath_from_string (obj_path o); Ok (p__, o)) %s;\n"
                    % (n, env["objects"][0])) + T.block(rest, env2, K, sc, cx_)
        # X.sort(key=lambda p: <key of p>)
        if isinstance(s, ast.Expr) and isinstance(s.value, ast.Call) and isinstance(s.value.func, ast.Attribute) \
                and s.value.func.attr == "sort" and T.key_of(s.value.func.value) in env:
            c = s.value
            k = T.key_of(c.func.value)
            ok = (not c.args and len(c.keywords) == 1 and c.keywords[0].arg == "key" and isinstance(c.keywords[0].value, ast.Lambda)
                  and len(c.keywords[0].value.args.args) == 1 and env[k][1][0] == "list")
            if not ok:
                T.fail(s, "sort call")
            lam = c.keywords[0].value
            v = lam.args.args[0].arg
            inner = dict(env)
            inner[v] = (T.cname(v), env[k][1][1])
            kt, kty = T.ex(lam.body, inner, None, cx_)
            if kty != OPT(Z):
                T.fail(s, "sort key of type %r" % (kty,))
            env2 = dict(env)
            env2[k] = (T.cname(k), env[k][1])
            return "do %s <- py_sort_by_optkey (fun %s => %s) %s;\n" % (T.cname(k), T.cname(v), kt, env[k][0]) \
                + T.block(rest, env2, K, sc, cx_)
        # segment = TdmsSegment(objects[, is_index_file=True], version=self._tdms_version)
        if isinstance(s, ast.Assign) and is_name_call(s.value, "TdmsSegment") and "<init>" in st:
            c = s.value
            kw = {k.arg: k.value for k in c.keywords}
            if len(c.args) != 1 or not set(kw) <= {"is_index_file", "version"} or not isinstance(s.targets[0], ast.Name):
                T.fail(s, "TdmsSegment(..) call")
            h = T.Hoist()
            o, oty = T.ex(c.args[0], env, h, cx_)
            isx = T.cond(kw["is_index_file"], env, h, cx_) if "is_index_file" in kw else st["<init>"]["is_index_file"]
            ver = T.as_int(kw["version"], env, h, cx_) if "version" in kw else st["<init>"]["version"]
            if oty != LIST(OBJ):
                T.fail(s, "TdmsSegment of %r" % (oty,))
            n = T.cname(s.targets[0].id)
            env2 = dict(env)
            env2[s.targets[0].id] = (n, SEG)
            return T.wrap(h.pre, "do %s <- tdms_segment_init_gen %s %s %s;\n" % (n, o, isx, ver)) + T.block(rest, env2, K, sc, cx_)
        # segment.write(self._file) / segment.write(self._index_file)
        if isinstance(s, ast.Expr) and isinstance(s.value, ast.Call) and unp(s.value.func) == "segment.write" \
                and len(s.value.args) == 1 and not s.value.keywords and T.key_of(s.value.args[0]) in ("self._file", "self._index_file") \
                and env.get("segment", (None, None))[1] == SEG:
            k = T.key_of(s.value.args[0])
            if env[k][1] != TF:
                T.fail(s, "write to a file that may be None")
            env2 = dict(env)
            env2[k] = (T.cname(k), TF)
            return "do %s <- io_write %s %s;\n" % (T.cname(k), env[k][0], env["segment"][0]) + T.block(rest, env2, K, sc, cx_)
        # S.update(T) on a set
        if isinstance(s, ast.Expr) and isinstance(s.value, ast.Call) and isinstance(s.value.func, ast.Attribute) \
                and s.value.func.attr == "update" and T.key_of(s.value.func.value) in env \
                and env[T.key_of(s.value.func.value)][1] == BSET and len(s.value.args) == 1 and not s.value.keywords:
            k = T.key_of(s.value.func.value)
            h = T.Hoist()
            a, aty = T.ex(s.value.args[0], env, h, cx_)
            if aty not in (BSET, LIST(BYTES)):
                T.fail(s, "update with %r" % (aty,))
            env2 = dict(env)
            env2[k] = (T.cname(k), BSET)
            return T.wrap(h.pre, "let %s := (bset_union %s %s) in\n" % (T.cname(k), env[k][0], a)) + T.block(rest, env2, K, sc, cx_)
        return None

    sem.extra_calls.append(calls)
    sem.extra_statements.append(statements)

    # ---- TdmsSegment.__init__(objects, is_index_file=False, version=4712)
    f = find(tree_w, "__init__", "TdmsSegment")
    if [a.arg for a in f.args.args] != ["self", "objects", "is_index_file", "version"] \
            or [unp(d) for d in f.args.defaults] not in (["False", "4712"],):
        die("signature of TdmsSegment.__init__")
    params = [("objects", LIST(OBJ)), ("is_index_file", B), ("version", Z)]
    fun("tdms_segment_init_gen", f.body, params, {n: (n, t) for n, t in params},
        ["self.objects", "self._tdms_version", "self.is_index_file"], comment_of("writer.py", "TdmsSegment", f, f.body))
    st["<init>"] = {"is_index_file": "false", "version": unp(f.args.defaults[1])}

    cx.defs.append(SECTION_OPEN)

    # ---- TdmsWriter.write_segment(objects)
    f = find(tree_w, "write_segment", "TdmsWriter")
    if [a.arg for a in f.args.args] != ["self", "objects"] or f.args.defaults:
        die("signature of TdmsWriter.write_segment")
    body = body_of(f)
    io = [i for i, s in enumerate(body) if any(isinstance(n, ast.Call) and unp(n.func).endswith(".write") for n in ast.walk(s))]
    last = body[io[-1]] if io else None
    ok = (len(io) == 2 and unp(body[io[0]]) == "segment.write(self._file)" and isinstance(last, ast.If) and not last.orelse
          and unp(last.test) == "self._index_file is not None" and len(last.body) == 2
          and unp(last.body[0]) == "segment = TdmsSegment(objects, is_index_file=True, version=self._tdms_version)"
          and unp(last.body[1]) == "segment.write(self._index_file)")
    if not ok:
        die("write_segment: expected `segment.write(self._file)` and then `if self._index_file is not None:` "
            "[segment = TdmsSegment(objects, is_index_file=True, version=self._tdms_version); segment.write(self._index_file)]")
    params = [("self__root_written", B), ("self__groups_written", BSET), ("self__file", TF), ("self__index_file", OPT(TF)),
              ("self__tdms_version", Z), ("objects", LIST(OBJ))]
    env0 = {"self._root_written": ("self__root_written", B), "self._groups_written": ("self__groups_written", BSET),
            "self._file": ("self__file", TF), "self._index_file": ("self__index_file", OPT(TF)),
            "self._tdms_version": ("self__tdms_version", Z), "objects": ("objects", LIST(OBJ))}
    outs = ["self._root_written", "self._groups_written", "self._file", "self._index_file"]
    fun("write_segment_gen", body, params, env0, outs, comment_of("writer.py", "TdmsWriter", f, body))
    fun("write_segment_before_last_write_gen", body[:io[-1]], params, env0, ["objects"] + outs,
        comment_of("writer.py", "TdmsWriter", f, body[:io[-1]],
                   ": the statements BEFORE the index file is written --\n     the objects of the segment and the writer's state "
                   "at the moment the last write is attempted"))
    cx.defs.append("End WCtlGen.")

    # ---- TdmsWriter.defragment(cls, source, destination, version=4712, index_file=False)
    f = find(tree_w, "defragment", "TdmsWriter", decorators=("classmethod",))
    if [a.arg for a in f.args.args] != ["cls", "source", "destination", "version", "index_file"] \
            or [unp(d) for d in f.args.defaults] != ["4712", "False"]:
        die("signature of TdmsWriter.defragment")
    body = body_of(f)
    ok = (len(body) == 2 and unp(body[0]) == "file = TdmsFile(source, raw_timestamps=True)" and isinstance(body[1], ast.With)
          and len(body[1].items) == 1 and unp(body[1].items[0].optional_vars) == "new_file"
          and isinstance(body[1].items[0].context_expr, ast.Call) and unp(body[1].items[0].context_expr.func) == "cls")
    if not ok:
        die("defragment: shape (file = TdmsFile(source, raw_timestamps=True); with cls(..) as new_file: ..)")
    ctor = body[1].items[0].context_expr
    kw = {k.arg: k.value for k in ctor.keywords}
    if [unp(a) for a in ctor.args] != ["destination"] or set(kw) != {"version", "index_file"} or unp(kw["index_file"]) != "index_file":
        die("defragment: arguments of the new writer")

    class Calls(ast.NodeTransformer):          # new_file.write_segment(x)  ->  yield x
        def visit_Expr(self, n):
            if isinstance(n.value, ast.Call) and unp(n.value.func) == "new_file.write_segment" and len(n.value.args) == 1 \
                    and not n.value.keywords:
                return ast.copy_location(ast.Expr(value=ast.Yield(value=n.value.args[0])), n)
            return self.generic_visit(n)
    inner = [Calls().visit(s) for s in body[1].body]
    for s in inner:
        for n in ast.walk(s):
            if isinstance(n, ast.Name) and n.id == "new_file":
                die("defragment: the new writer is used for something else than write_segment")
    stmts = [ast.Assign(targets=[ast.Name(id="writer_version", ctx=ast.Store())], value=kw["version"], lineno=f.lineno)] + inner
    ast.fix_missing_locations(ast.Module(body=stmts, type_ignores=[]))
    params = [("file", DCONTENT), ("version", Z)]
    env0 = {"file": ("file", DCONTENT), "version": ("version", Z), "<yield>": ("[]", LIST(None))}
    old_coqty = T.coqty

    def coqty2(t):
        if t == DDATA:
            return "ddata"
        return old_coqty(t)
    T.coqty = coqty2
    try:
        fun("defragment_gen", stmts, params, env0, ["writer_version", "<yield>"],
            comment_of("writer.py", "TdmsWriter", f, stmts,
                       ": the version given to the new writer and the write_segment calls (as `yield`)"))
    finally:
        T.coqty = old_coqty
    cx.defs.append("(* the default of defragment's parameter version *)\nDefinition defragment_default_version : Z := %s."
                   % unp(f.args.defaults[0]))
    return cx, sigs


def header():
    return ("(* GENERATED by harness/gen/gen_pyfuncs_wctl.py from nptdms/{writer,common}.py -- do not edit.\n"
            "   Shallow monadic translation of the writer's control logic; see the script for the conventions. *)\n"
            "From Coq Require Import String.\n"
            "From Coq Require Import ZArith List Bool.\n"
            "From Coq Require Import Init.Byte.\n"
            "Import ListNotations.\n"
            "From NpTdms Require Import Base.Bytes Base.Res Base.PySlice Model.Path Model.Tokens Model.ByteStr Model.Writer Model.Defrag "
            "Gen.PyFuncsWriter.\n"
            "Local Open Scope Z_scope.\n\n")


def write_if_changed(path, text):
    old = None
    try:
        old = open(path).read()
    except OSError:
        pass
    if old != text:
        os.makedirs(os.path.dirname(path), exist_ok=True)
        tmp = path + ".tmp.%d" % os.getpid()
        with open(tmp, "w") as fh:
            fh.write(text)
        os.replace(tmp, path)
        print("%s: wrote %s" % (ME, os.path.relpath(path, VERIF)))
    else:
        print("%s: %s up to date" % (ME, os.path.relpath(path, VERIF)))


def main():
    try:
        cx, sigs = translate()
    except T.Unsupported as e:
        die(str(e))
    import wctl_selftest as S
    st_text, counts = S.selftest(REPO, die)
    text = header() + PRELUDE + "\n" + "\n\n".join(cx.defs) + "\n\n" + st_text
    write_if_changed(OUT, text)
    print("%s: %d functions translated; self-test cases: %s"
          % (ME, len(sigs), ", ".join("%s %d" % kv for kv in counts.items())))


if __name__ == "__main__":
    main()
