"""C14 - channel.dtype and len(channel) describe what reads return.

Proof: Props/C14.v (declared dtype = dtype of what the scalings return, for all dtypes and
all graphs, over NumPy promotion tables regenerated from the installed NumPy; empty
results carry the same dtype; timestamp / string facts; the unchanged code refuted).
Tie: Model/ScaleDtype.v is evaluated inside Coq on the same property dictionaries and
compared with the observed channel.dtype and the dtype of a full read.
File tie: Proofs/DtypeFile.v declared_dtype_file (Props/C14_file.v) is evaluated on the BYTES of a sample of the
generated files and compared with channel.dtype; the dtype of the array its scaled read returns with read_data().
Direct oracle on the implementation: every array returned by every read operation (eager
and lazy) has channel.dtype (modulo byte order), empty == non-empty dtype, full reads have
len(channel) elements.
"""
import io
import itertools
import json
import os
import random
import sys
import warnings

sys.path.insert(0, os.path.dirname(os.path.abspath(__file__)))
import common as H

H.ensure_env()

import numpy as np  # noqa: E402
from nptdms import TdmsFile  # noqa: E402
import c13_lib as L  # noqa: E402

warnings.simplefilter("ignore")
np.seterr(all="ignore")

IMPORTS = ("From Coq Require Import PrimFloat.\n"
           "From NpTdms Require Import Gen.NumpyPromote Model.ScaleGraph Model.ScaleDtype.\n")
CASE_T = "props * props * props * rawkind * bool * list (nat * dtype) * option string * option string"
# file tie (Proofs/DtypeFile.v file_dtype_code): channel.dtype computed by the Coq model from the very
# BYTES npTDMS read (metadata pass, hierarchy, properties -> dictionaries, group-path lookup, TDMS type ->
# raw kind, DAQmx scaler types -> dtypes), and the dtype of the array the file-level scaled read returns
FILE_IMPORTS = ("From Coq Require Import ZArith String.\n"
                "From NpTdms Require Import Base.Bytes Model.ScaleDtype Proofs.DtypeFile.\n")
FILE_CASE_T = "bytes * bytes * bool * option string * option string"
CHANNEL_PATH = b"/'g'/'c'"
RAW = L.RAW
KINDS = L.NUMERIC + ["string", "timestamp", "timestamp-raw", "untyped"]
NONNUMERIC = ("string", "timestamp", "timestamp-raw")
TS_STRUCT = sorted([("second_fractions", "u8"), ("seconds", "i8")])


# ---------------------------------------------------------------------------------------
# dtypes

def canon_struct(d):
    return sorted((n, d.fields[n][0].newbyteorder("=").str.lstrip("<>=|")) for n in d.names)


def dtype_equiv(a, b):
    """equality of dtypes modulo byte order (and, for the timestamp struct, field order)"""
    if a is None or b is None or not isinstance(a, np.dtype) or not isinstance(b, np.dtype):
        return False
    if a.names or b.names:
        return bool(a.names and b.names) and canon_struct(a) == canon_struct(b)
    try:
        return bool(np.can_cast(a, b, "equiv"))
    except TypeError:
        return False


def dt_name(d):
    if d is None:
        return "None"
    if not isinstance(d, np.dtype):
        return "not-a-dtype:%r" % (d,)
    if d.names:
        return "timestamp-struct" if canon_struct(d) == TS_STRUCT else "struct:%s" % d
    if d.kind == "O":
        return "object"
    if d.kind == "M":
        return "datetime64[%s]" % np.datetime_data(d)[0]
    if d.kind == "m":
        return "timedelta64[%s]" % np.datetime_data(d)[0]
    if d.kind == "V":
        return "void%d" % (8 * d.itemsize)
    return d.newbyteorder("=").name


# ---------------------------------------------------------------------------------------
# graphs

LIN = {"t": "Linear", "slope": 2.0, "intercept": 1.0}
POLY = {"t": "Polynomial", "coeffs": [1.0, 0.5, 0.25]}
POLY0 = {"t": "Polynomial", "coeffs": []}
TABLE = {"t": "Table", "xs": [0.0, 2.0, 10.0], "ys": [0.0, 1.0, 5.0]}
NOOP = {"t": "AdvancedAPI"}
UNARY = [LIN, POLY, POLY0, TABLE, NOOP]
SENSORS = [{"t": "RTD"}, {"t": "Strain"}, {"t": "Thermistor"}, {"t": "Thermocouple", "direction": 0},
           {"t": "Thermocouple", "direction": 1}]
BINARY = [{"t": "Add"}, {"t": "Subtract"}]


def scales_at(i, unary, binary):
    """every scale that can sit at index i: each type x each choice of input sources"""
    srcs = [RAW] + list(range(i))
    out = []
    for u in unary:
        for s in srcs:
            d = dict(u)
            d["src"] = s
            out.append(d)
    for b in binary:
        for l, r in itertools.product(srcs, srcs):
            d = dict(b)
            d["l"], d["r"] = l, r
            out.append(d)
    return out


def graphs_exhaustive(depth, unary, binary):
    if depth == 0:
        return [[]]
    out = []
    for g in graphs_exhaustive(depth - 1, unary, binary):
        for sc in scales_at(depth - 1, unary, binary):
            out.append(g + [sc])
    return out


def graph_key(graph):
    return L.graph_label(graph)


# ---------------------------------------------------------------------------------------
# files

def kind_values(kind, n):
    if kind == "string":
        return ["a", "bc", "", "d", "efg", "h", "i"][:n]
    if kind.startswith("timestamp"):
        return np.array(["2020-01-0%dT00:00:0%d" % (i + 1, i) for i in range(n)], dtype="datetime64[us]")
    if kind == "bool":
        return np.array([1, 0, 1, 1, 0, 1, 0][:n], dtype=bool)
    return np.array([1, 2, 3, 2, 1, 3, 2][:n], dtype=kind)


def build(case):
    chan, group, root = case["chan"], case["group"], case["root"]
    kind = case["kind"]
    if kind == "untyped":
        return L.untyped_file(root, group, chan)
    if kind == "daqmx":
        n = case["n"]
        scalers = [(int(i), kind_values(dt, n)) for i, dt in sorted(case["scalers"].items(), key=lambda kv: int(kv[0]))]
        return L.daqmx_file(root, group, chan, scalers, nsegments=2 if n >= 2 else 1)
    n = case["n"]
    if n == 0:
        return L.empty_typed_file(root, group, chan, "timestamp" if kind.startswith("timestamp") else kind)
    vals = kind_values(kind, n)
    segs = [vals[:3], vals[3:]] if n > 3 else [vals]
    return L.writer_file(root, group, chan, segs)


def make_case(kind, graph, placement, with_count, n=5, scalers=None):
    props = L.graph_props(graph, with_count, explicit_raw_source=with_count) if graph else {}
    levels = {"chan": {}, "group": {}, "root": {}}
    levels[placement] = props
    case = {"op": "dtype", "kind": kind, "n": n, "placement": placement, "scalers": scalers,
            "chan": levels["chan"], "group": levels["group"], "root": levels["root"]}
    return case


# ---------------------------------------------------------------------------------------
# read operations

class Raised:
    def __init__(self, e):
        self.name = type(e).__name__

    def __repr__(self):
        return "raised " + self.name


def attempt(f):
    try:
        return f()
    except Exception as e:
        return Raised(e)


def array_ops(ch, n):
    """(name, thunk, kind): kind 'full' (all values), 'empty' (must be empty), 'part'"""
    ops = [("[:]", lambda: ch[:], "full"), ("[...]", lambda: ch[...], "full"),
           ("read_data()", lambda: ch.read_data(), "full"),
           ("read_data(1,2)", lambda: ch.read_data(1, 2), "part"),
           ("read_data(2,0)", lambda: ch.read_data(2, 0), "empty"),
           ("read_data(%d,3)" % (n + 2), lambda: ch.read_data(n + 2, 3), "empty"),
           ("[1:3]", lambda: ch[1:3], "part"), ("[::2]", lambda: ch[::2], "part"),
           ("[::-1]", lambda: ch[::-1], "full"), ("[-2:]", lambda: ch[-2:], "part"),
           ("[3:3]", lambda: ch[3:3], "empty"), ("[4:1]", lambda: ch[4:1], "empty"),
           ("[%d:%d]" % (n + 5, n + 9), lambda: ch[n + 5:n + 9], "empty"), ("[0:0]", lambda: ch[0:0], "empty"),
           ("[1:4:-1]", lambda: ch[1:4:-1], "empty")]
    return ops


def observe(content, raw_ts):
    """all read operations in both modes -> (declared dtype or Raised, length, list of results)"""
    res = []
    decl, length = None, None
    for mode in ("eager", "lazy"):
        f = TdmsFile.read(io.BytesIO(content), raw_timestamps=raw_ts) if mode == "eager" \
            else TdmsFile.open(io.BytesIO(content), raw_timestamps=raw_ts)
        try:
            ch = f["g"]["c"]
            d = attempt(lambda: ch.dtype)
            n = len(ch)
            if mode == "eager":
                decl, length = d, n
            else:
                res.append((mode, "dtype-same-in-both-modes", "meta",
                            (isinstance(d, Raised) and isinstance(decl, Raised)) or
                            (not isinstance(d, Raised) and not isinstance(decl, Raised) and
                             (d is decl or d == decl)) and n == length))
            for name, thunk, kind in array_ops(ch, n):
                res.append((mode, name, kind, attempt(thunk)))
            if mode == "eager":
                res.append((mode, "data", "full", attempt(lambda: ch.data)))
            res.append((mode, "iter", "iter", attempt(lambda: list(ch))))
            if n:
                res.append((mode, "[0]", "scalar", attempt(lambda: ch[0])))
            if mode == "lazy":
                chunks = attempt(lambda: [c for c in ch.data_chunks()])
                if isinstance(chunks, Raised):
                    res.append((mode, "data_chunks()", "chunks", chunks))
                else:
                    parts = [attempt(lambda c=c: c[:]) for c in chunks]
                    res.append((mode, "data_chunks()", "chunks", parts))
                    for c in chunks[:1]:
                        res.append((mode, "chunk[0:0]", "empty", attempt(lambda c=c: c[0:0])))
                fparts = attempt(lambda: [c["g"]["c"][:] for c in f.data_chunks()])
                res.append((mode, "file.data_chunks()", "chunks", fparts if isinstance(fparts, Raised)
                            else list(fparts)))
        finally:
            f.close()
    return decl, length, res


def judge(decl, length, res):
    """the property, on the observations of one channel; returns (failures, successful dtypes)"""
    fails = []
    seen = []

    def check_arr(where, a, kind):
        if not isinstance(a, np.ndarray):
            fails.append("%s returned %s, not an array" % (where, type(a).__name__))
            return
        seen.append((where, a.dtype, len(a)))
        if isinstance(decl, Raised):
            fails.append("%s returned %s data but channel.dtype raised %s" % (where, a.dtype, decl.name))
        elif not dtype_equiv(a.dtype, decl):
            fails.append("%s returned dtype %s%s, channel.dtype is %r" % (where, a.dtype,
                                                                          " (empty)" if len(a) == 0 else "", decl))
        if kind == "full" and len(a) != length:
            fails.append("%s returned %d values, len(channel) is %d" % (where, len(a), length))
        if kind == "empty" and len(a) != 0:
            fails.append("%s returned %d values, expected none" % (where, len(a)))

    for mode, name, kind, r in res:
        where = "%s %s" % (mode, name)
        if kind == "meta":
            if not r:
                fails.append("dtype / len differ between eager and lazy mode")
            continue
        if isinstance(r, Raised):
            continue                      # not a successful read
        if kind == "chunks":
            total = 0
            for p in r:
                if isinstance(p, Raised):
                    total = None
                    continue
                check_arr(where, p, "part")
                if total is not None:
                    total += len(p)
            if total is not None and total != length:
                fails.append("%s yields %d values in total, len(channel) is %d" % (where, total, length))
        elif kind == "iter":
            if len(r) != length:
                fails.append("%s yields %d values, len(channel) is %d" % (where, len(r), length))
            for v in r[:1]:
                if isinstance(v, np.generic) and not isinstance(decl, Raised) and not dtype_equiv(v.dtype, decl):
                    fails.append("%s yields %s scalars, channel.dtype is %r" % (where, v.dtype, decl))
        elif kind == "scalar":
            if isinstance(r, np.generic) and not isinstance(decl, Raised) and not dtype_equiv(r.dtype, decl):
                fails.append("%s is a %s scalar, channel.dtype is %r" % (where, r.dtype, decl))
        else:
            check_arr(where, r, kind)
    # empty results carry the same dtype as non-empty ones
    ne = [d for _, d, n in seen if n > 0]
    em = [(w, d) for w, d, n in seen if n == 0]
    if ne:
        for w, d in em:
            if not dtype_equiv(d, ne[0]):
                fails.append("empty result of %s has dtype %s, non-empty reads have %s" % (w, d, ne[0]))
                break
    return fails, seen


def coq_kind(kind):
    if kind in L.COQ_DTYPE:
        return "(RNum %s)" % L.COQ_DTYPE[kind]
    return {"string": "RString", "timestamp": "RTimestamp", "timestamp-raw": "RTimestamp", "untyped": "RUntyped",
            "daqmx": "RDaqmx"}[kind]


def run_case(run, case, stats):
    kind = case["kind"]
    raw_ts = kind == "timestamp-raw"
    content = build(case)
    decl, length, res = observe(content, raw_ts)
    fails, seen = judge(decl, length, res)
    run.cov["evaluations"] += 1
    stats["reads"] += sum(1 for r in res if r[2] != "meta")
    stats["successful_arrays"] += len(seen)
    try:
        graph = L.oracle_get_scaling(case["chan"], case["group"], case["root"])
    except L.ScaleError:
        graph = None
    gk = graph_key(graph)
    run.count("kind_" + kind)
    run.count("placement_" + case["placement"])
    if fails:
        arith = graph is not None and any(sc["t"] in ("Add", "Subtract") for sc in graph)
        key = "dtype-nonnumeric-arith-scale" if (kind in NONNUMERIC and arith) else "dtype-%s-%s" % (kind, gk)
        run.violation(key, "%s channel, scaling %s: %s" % (kind, gk, "; ".join(fails[:3])), case,
                      expected="every returned array has channel.dtype (%r) and full reads have len(channel)=%r"
                      % (decl, length), actual=fails[:8])
    elif seen:
        stats["shapes"].add((kind, gk, tuple(str(sc.get("src", (sc.get("l"), sc.get("r")))) for sc in graph or [])))
    # observation for the model: declared dtype and the dtype of a full read
    full = [r for m, name, k, r in res if name == "read_data()" and m == "eager"][0]
    odecl = None if isinstance(decl, Raised) else dt_name(decl)
    oact = None if isinstance(full, Raised) else dt_name(full.dtype)
    scalers = L.clist("(%d, %s)" % (int(i), L.COQ_DTYPE[dt]) for i, dt in sorted((case["scalers"] or {}).items(),
                                                                                   key=lambda kv: int(kv[0])))
    term = "(%s, %s, %s, %s, %s, %s, %s, %s)" % (
        L.cprops(case["chan"]), L.cprops(case["group"]), L.cprops(case["root"]), coq_kind(kind),
        "true" if raw_ts else "false", scalers, L.copt(odecl, L.cstring), L.copt(oact, L.cstring))
    fterm = "(%s, %s, %s, %s, %s)" % (
        H.chex(content), H.chex(CHANNEL_PATH), "true" if raw_ts else "false",
        L.copt(odecl, lambda x: L.cstring(x) + "%string"), L.copt(oact, lambda x: L.cstring(x) + "%string"))
    return term, case, (odecl, oact), bool(fails), "%s-%s" % (kind, gk), fterm


def correspondence(run, items, stats):
    terms = [t[0] for t in items]
    bad, errors = H.run_sharded(run.pid, IMPORTS, CASE_T, "props_dtypes_ok", terms, shard=150, tag="dt")
    run.corr_errors(errors)
    unc, errors2 = H.run_sharded(run.pid, IMPORTS, CASE_T, "props_dtypes_covered", terms, shard=150, tag="cov")
    run.corr_errors(errors2)
    stats["model_covered"] = len(terms) - len(unc)
    stats["outside_model"] = len(set(unc) - set(bad))
    outside = {}
    for i in set(unc) - set(bad):
        k = items[i][4].split("-")[0]
        outside[k] = outside.get(k, 0) + 1
    stats["outside_model_by_raw_type"] = outside
    run.cov["traces_validated_against_impl"] += len(terms) - len(unc)
    for i in bad[:3]:
        term, case, obs, failed, key = items[i][:5]
        if failed:
            continue            # already reported with the input as an ordinary violation
        rc, out = H.coq_print_terms(run.pid, IMPORTS, [
            "let '(ch, gr, fi, k, ts, sc, _, _) := (%s) : %s in match get_scaling ch gr fi with Ok g => "
            "(chan_dtype true {| ckind := k; craw_ts := ts; cscaling := g; cscalers := sc |}, "
            "read_dtype true {| ckind := k; craw_ts := ts; cscaling := g; cscalers := sc |} OpReadData) "
            "| Err e => (Err e, Err e) end" % (term, CASE_T)], tag="show%d" % i)
        run.violation("corr-" + key, "Model/ScaleDtype.v and npTDMS disagree (%s): implementation dtype=%s, "
                      "full read=%s" % (key, obs[0], obs[1]), case, kind="correspondence-broken",
                      theorem="Model.ScaleDtype.chan_dtype/read_dtype vs TdmsChannel.dtype", actual=list(obs),
                      model=out[-2000:], no_input=True)


def file_dtype_tie(run, items, stats):
    """Proofs/DtypeFile.v on the file BYTES: declared_dtype_file (what Props/C14_file.v's theorems are
    about) against channel.dtype, and the dtype of scaled_read_eager's array against read_data().dtype, on a
    sample of the generated files: every raw kind, every placement level, DAQmx and zero-length channels."""
    n = run.pick(260, 2600)
    step = max(1, len(items) // n)
    picked = [t for t in items[::step] if not t[3]]      # failing inputs are reported as violations already
    # the non-numeric / untyped / DAQmx / zero-length cases are few: a fixed number of each on top
    seen = {id(t) for t in picked}
    cap = run.pick(24, 100000)
    taken = {}
    for t in items:
        cat = "zero-length" if t[1]["n"] == 0 else t[1]["kind"]
        if id(t) in seen or t[3] or not (cat == "zero-length" or cat in ("untyped", "daqmx") + NONNUMERIC):
            continue
        if taken.get(cat, 0) < cap:
            taken[cat] = taken.get(cat, 0) + 1
            picked.append(t)
    cases = [t[5] for t in picked]
    bad, errors = H.run_sharded(run.pid, FILE_IMPORTS, FILE_CASE_T, "file_dtype_ok", cases, shard=24, tag="fdt")
    run.corr_errors(errors)
    unc, errors2 = H.run_sharded(run.pid, FILE_IMPORTS, FILE_CASE_T, "file_dtype_covered", cases, shard=24,
                                 tag="fcov")
    run.corr_errors(errors2)
    stats["file_tie_cases"] = len(cases)
    stats["file_tie_covered"] = len(cases) - len(unc)
    kinds = {}
    for i, t in enumerate(picked):
        if i not in set(unc):
            kinds[t[1]["kind"]] = kinds.get(t[1]["kind"], 0) + 1
    stats["file_tie_covered_by_raw_type"] = kinds
    run.cov["traces_validated_against_impl"] += len(cases) - len(unc)
    for i in bad[:3]:
        term, case, obs, failed, key, fterm = picked[i]
        rc, out = H.coq_print_terms(run.pid, FILE_IMPORTS, [
            "let '(data, path, ts, _, _) := (%s) : %s in (declared_dtype_file data path ts, "
            "raw_dtype_file data path ts, len_file data path)" % (fterm, FILE_CASE_T)], tag="fdshow%d" % i)
        run.violation("corr-file-" + key, "Proofs/DtypeFile.v on the file bytes and npTDMS disagree (%s): "
                      "implementation dtype=%s, full read=%s" % (key, obs[0], obs[1]), case,
                      kind="correspondence-broken",
                      theorem="Proofs.DtypeFile.declared_dtype_file vs TdmsChannel.dtype", actual=list(obs),
                      model=out[-2000:], no_input=True)


# ---------------------------------------------------------------------------------------

def all_cases(run, rng):
    cases = []
    k = 0

    def add(kind, graph, n=5, scalers=None):
        nonlocal k
        placement = ["chan", "group", "root"][k % 3]
        cases.append(make_case(kind, graph, placement, with_count=(k % 2 == 0), n=n, scalers=scalers))
        k += 1

    def src_raw(sc):
        d = dict(sc)
        if d["t"] in ("Add", "Subtract"):
            d["l"] = d["r"] = RAW
        else:
            d["src"] = RAW
        return d
    depth1 = [[src_raw(sc)] for sc in UNARY + SENSORS + BINARY]
    depth2 = graphs_exhaustive(2, UNARY, BINARY)
    sens2 = []
    for s in SENSORS:
        s0 = src_raw(s)
        s1 = dict(s)
        s1["src"] = 0
        sens2 += [[src_raw(LIN), s1], [s0, dict(LIN, src=0)], [s0, dict(NOOP, src=0)]]
    for kind in KINDS:
        add(kind, None)
        for g in depth1:
            add(kind, g)
        if kind == "untyped":
            continue
        gs = depth2 if kind in L.NUMERIC else [g for g in depth2 if all(sc["t"] in ("AdvancedAPI", "Add", "Subtract", "Linear")
                                                                        for sc in g)]
        for g in gs:
            add(kind, g)
        if kind in L.NUMERIC:
            for g in sens2:
                add(kind, g)
        # zero-length channels
        for g in [None, [src_raw(LIN)], [src_raw(NOOP)], [src_raw(BINARY[0])], [src_raw(LIN), dict(NOOP, src=0)]]:
            add(kind, g, n=0)
        add(kind, [src_raw(LIN)], n=1)
    # DAQmx: one scaler of each type under every unary scale; every pair of types added / subtracted
    dq = list(L.DAQMX_TYPE_ID)
    sc0 = {"t": "Daqmx", "id": 0}
    sc1 = {"t": "Daqmx", "id": 1}
    for dt in dq:
        add("daqmx", [sc0], scalers={"0": dt})
        for u in UNARY + SENSORS:
            add("daqmx", [sc0, dict(u, src=0)], scalers={"0": dt})
        add("daqmx", [sc0, dict(LIN, src=0), dict(NOOP, src=1)], scalers={"0": dt})
        add("daqmx", [sc0, dict(NOOP, src=RAW)], scalers={"0": dt})      # invalid input source for DAQmx
    for a, b in itertools.product(dq, dq):
        for op in BINARY:
            add("daqmx", [sc0, sc1, dict(op, l=0, r=1)], scalers={"0": a, "1": b})
    add("daqmx", None, scalers={"0": "int16"})                          # DAQmx data without scaling information
    if run.thorough:
        d3 = graphs_exhaustive(3, UNARY, BINARY)
        for g in d3:
            for kind in rng.sample(L.NUMERIC, 3):
                add(kind, g)
    return cases


def order_violations(run):
    """report one minimal witness per family first (raw type class x what the last scale is), so the
    five lines the verdict prints are five different findings rather than five bool channels"""
    def family(v):
        c = v.case if isinstance(v.case, dict) else {}
        kind = c.get("kind", "?")
        cls = kind if kind in NONNUMERIC + ("untyped", "daqmx", "float32") else \
            "complex" if kind.startswith("complex") else "numeric"
        parts = v.key.split("-")[-1].split("+")
        return (v.kind, cls, parts[-1].split("[")[0], len(parts) > 1)
    best = {}
    for v in run.violations:
        f = family(v)
        if f not in best or len(v.key) < len(best[f].key):
            best[f] = v
    canonical = ["dtype-float32-linear", "dtype-int32-linear+advancedapi[0]", "dtype-timestamp-raw-unscaled",
                 "dtype-string-advancedapi", "dtype-string-unscaled"]
    lead = []
    for k in canonical:
        lead += [v for v in run.violations if v.key == k][:1]
    firsts = lead + sorted(best.values(), key=lambda v: (v.kind != "property-violation", len(v.key), v.key))
    ids = {id(v) for v in firsts}
    run.violations = firsts + [v for v in run.violations if id(v) not in ids]


def main():
    run = H.Run("C14")
    run.prove()
    stats = {"reads": 0, "successful_arrays": 0, "shapes": set()}
    if run.replay:
        case = json.load(open(run.replay))["case"]
        if case.get("op") == "dtype":
            item = run_case(run, case, stats)
            stats.pop("shapes")
            correspondence(run, [item], stats)
            if not item[3]:
                file_dtype_tie(run, [item], stats)
        else:
            print("replay: nothing to re-run for", case.get("op"))
        run.finish()
    rng = random.Random(run.seed)
    cases = all_cases(run, rng)
    items = [run_case(run, c, stats) for c in cases]
    correspondence(run, items, stats)
    file_dtype_tie(run, items, stats)
    order_violations(run)
    run.cov["distinct_nontrivial"] = len(stats.pop("shapes"))
    run.cov["exhaustive"] = True
    run.cov["rule"] = ("exhaustive: every raw type (13 numeric dtypes, string, timestamp with and without raw_timestamps, "
                       "untyped) x {no scaling, every scale type alone, every graph of depth 2 over Linear / Polynomial "
                       "(with and without coefficients) / Table / AdvancedAPI / Add / Subtract with every input-source "
                       "wiring, sensor scales before/after Linear and AdvancedAPI, zero-length and one-value channels}; "
                       "DAQmx: every scaler type under every scale type, every ordered pair of scaler types under Add "
                       "and Subtract; thorough adds every depth-3 structural graph on 3 random numeric types each. "
                       "Each file is read eagerly and lazily with every read operation. distinct = (raw type, scale "
                       "types, wiring) with at least one successful read and no failure")
    run.cov["stats"] = stats
    for c in (cases[1], cases[40], cases[-3]):
        run.sample(c)
    run.assumptions = [
        "dtype equality is modulo byte order (np.can_cast(a, b, 'equiv')); the raw-timestamp struct also modulo field order",
        "the promotion tables are those of the installed NumPy (regenerated by harness/gen/gen_promote.py on every run)",
        "reads that raise are not successful reads; only successful ones are judged",
        "arithmetic scaling of non-numeric data is the recorded finding dtype-nonnumeric-arith-scale",
        "len(full read) == len(channel): proved on file bytes for the scaled reads (Props/C14_file.v "
        "full_read_length_file, from C14_read.full_read_length and C13's elementwise) and checked on the "
        "implementation for every read operation here",
        "channel.dtype as a function of the file BYTES (Props/C14_file.v declared_dtype_file: metadata pass, "
        "hierarchy, properties -> dictionaries, group-path lookup, TDMS type -> raw kind, DAQmx scaler types) "
        "is compared with npTDMS on %d of the generated files (%d inside the model), together with the dtype "
        "of the array the file-level scaled read returns" % (stats.get("file_tie_cases", 0),
                                                             stats.get("file_tie_covered", 0))]
    run.finish()


if __name__ == "__main__":
    main()
