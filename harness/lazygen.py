"""Generator of small TDMS files whose per-channel chunk structure is known (C04 / C19).

An independent encoder (nothing from nptdms is used to write the bytes).  A file is
described by a JSON-able `spec`; `build(spec)` is deterministic and returns the bytes
together with, for every channel, the abstract description the Coq model
(Model/LazyRead.v) takes as input -- per segment: chunk size, number of chunks, final
chunk length (truncated files), layout kind, the values of every chunk -- and the byte
layout needed by the C19 oracle.

Values are identified by integer codes: the k-th value (k = 0, 1, ...) a channel holds
in the file has code k + 1 (so a zero-filled slot of a receiver is never a valid value).
"""
import io
import struct

TOC_META, TOC_NEWOBJ, TOC_RAW, TOC_INTERLEAVED, TOC_BE = 1 << 1, 1 << 2, 1 << 3, 1 << 5, 1 << 6

# key -> (tdms type code, width in bytes or None, struct char)
TYPES = {"i8": (1, 1, "b"), "i16": (2, 2, "h"), "i32": (3, 4, "l"), "f64": (10, 8, "d"),
         "ts": (0x44, 16, None), "str": (0x20, None, None)}


def path(name):
    return "/'g'/'%s'" % name


def enc_str(x, e):
    b = x.encode("utf-8")
    return struct.pack(e + "L", len(b)) + b


def enc_value(dt, code, e):
    code_, width, ch = TYPES[dt]
    if dt == "ts":
        return struct.pack("<Qq", 0, code) if e == "<" else struct.pack(">qQ", code, 0)
    if dt == "f64":
        return struct.pack(e + "d", float(code))
    return struct.pack(e + ch, code)


def enc_chunk(dt, codes, e, strw):
    """bytes of one contiguous chunk of one channel"""
    if dt == "str":
        out, end = b"", 0
        for _ in codes:
            end += strw
            out += struct.pack(e + "L", end)
        return out + b"".join(("%0*d" % (strw, c)).encode() for c in codes)
    return b"".join(enc_value(dt, c, e) for c in codes)


def chunk_nbytes(dt, n, strw):
    return n * (4 + strw) if dt == "str" else n * TYPES[dt][1]


def enc_obj(name, dt, idx, e, strw):
    """idx: 'off' (no data), 'on' (matches previous), or int n (new raw data index)"""
    out = enc_str(path(name), e)
    if idx == "off":
        out += struct.pack(e + "L", 0xFFFFFFFF)
    elif idx == "on":
        out += struct.pack(e + "L", 0)
    elif dt == "str":
        out += struct.pack(e + "LLLQQ", 28, 0x20, 1, idx, chunk_nbytes(dt, idx, strw))
    else:
        out += struct.pack(e + "LLLQ", 20, TYPES[dt][0], 1, idx)
    return out + struct.pack(e + "L", 0)


def build(spec):
    """-> (file bytes, desc).  desc = {"channels": {name: {"dtype", "segs": [...]}},
    "segments": [layout dicts]}"""
    chans = spec["channels"]
    counters = {c: 0 for c in chans}
    active = []                       # ordered objects of the current segment
    prev_n = {}
    out = b""
    seglay = []
    chansegs = {c: [] for c in chans}
    nseg = len(spec["segments"])
    for si, sg in enumerate(spec["segments"]):
        e = ">" if sg.get("be") else "<"
        strw = spec.get("strw", 3)
        kind = sg["kind"]
        toc = 0
        meta = b""
        if kind == "new":
            active = [dict(name=nm, n=n, has_data=True) for nm, n in sg["objs"]]
            meta = struct.pack(e + "L", len(active)) + b"".join(
                enc_obj(o["name"], chans[o["name"]], o["n"], e, strw) for o in active)
            toc |= TOC_META | TOC_NEWOBJ
        elif kind == "same":
            assert si > 0
            active = [dict(o) for o in active]
        elif kind == "toggle":
            assert si > 0
            nm, mode = sg["toggle"]
            active = [dict(o) for o in active]
            cur = [o for o in active if o["name"] == nm]
            if cur:
                o = cur[0]
            else:
                assert nm in prev_n and mode in ("on", "off")
                o = dict(name=nm, n=prev_n[nm], has_data=False)
                active.append(o)
            if mode == "off":
                o["has_data"] = False
            elif mode == "on":
                o["has_data"] = True
            else:
                o["n"], o["has_data"] = mode, True
            meta = struct.pack(e + "L", 1) + enc_obj(nm, chans[nm], mode, e, strw)
            toc |= TOC_META
        else:
            raise ValueError(kind)
        for o in active:
            prev_n[o["name"]] = o["n"]
        data_objs = [o for o in active if o["has_data"]]
        nchunks = sg["nchunks"] if data_objs else 0
        inter = bool(sg.get("interleaved")) and nchunks > 0
        if inter:
            assert all(chans[o["name"]] != "str" for o in data_objs)
            assert len(set(o["n"] for o in data_objs)) == 1
            toc |= TOC_INTERLEAVED
        if nchunks > 0 or sg.get("rawflag"):
            toc |= TOC_RAW
        if e == ">":
            toc |= TOC_BE
        layout = {}
        off = 0
        for o in data_objs:
            nb = chunk_nbytes(chans[o["name"]], o["n"], strw)
            layout[o["name"]] = (off, nb)
            off += nb
        chunk_bytes = off
        data = b""
        vals = {o["name"]: [] for o in data_objs}
        for _ in range(nchunks):
            codes = {}
            for o in data_objs:
                nm = o["name"]
                codes[nm] = list(range(counters[nm] + 1, counters[nm] + o["n"] + 1))
                counters[nm] += o["n"]
                vals[nm].append(codes[nm])
            if inter:
                for r in range(data_objs[0]["n"]):
                    for o in data_objs:
                        data += enc_value(chans[o["name"]], codes[o["name"]][r], e)
            else:
                for o in data_objs:
                    data += enc_chunk(chans[o["name"]], codes[o["name"]], e, strw)
        pos = len(out)
        lead = b"TDSm" + struct.pack("<l", toc) + struct.pack(e + "lQQ", 4713, len(meta) + len(data), len(meta))
        out += lead + meta + data
        seglay.append(dict(pos=pos, data_pos=pos + 28 + len(meta), chunk_bytes=chunk_bytes, nchunks=nchunks,
                           interleaved=inter, layout=layout, e=e, lead_e=e,
                           width={o["name"]: (None if chans[o["name"]] == "str" else TYPES[chans[o["name"]]][1])
                                  for o in data_objs},
                           rowwidth=sum(TYPES[chans[o["name"]]][1] or 0 for o in data_objs) if inter else None,
                           n={o["name"]: o["n"] for o in data_objs}, order=[o["name"] for o in data_objs],
                           final=None, vals=vals))
    # truncation of the last segment
    cut = spec.get("cut")
    last = seglay[-1]
    if spec.get("unknown_len"):
        p = last["pos"]
        out = out[:p + 12] + struct.pack(last["lead_e"] + "Q", 0xFFFFFFFFFFFFFFFF) + out[p + 20:]
    if cut:
        assert last["nchunks"] >= 1 and 1 <= cut <= last["chunk_bytes"]
        out = out[:len(out) - cut]
        if cut == last["chunk_bytes"]:
            last["nchunks"] -= 1
            for nm in last["vals"]:
                last["vals"][nm].pop()
        else:
            rem = last["chunk_bytes"] - cut
            final = {}
            if any(chans[nm] == "str" for nm in last["order"]):
                final = {nm: 0 for nm in last["order"]}
            elif last["interleaved"]:
                rows = rem // last["rowwidth"]
                final = {nm: rows for nm in last["order"]}
            else:
                r = rem
                done = False
                for nm in last["order"]:
                    size = last["n"][nm] * last["width"][nm]
                    if done:
                        final[nm] = 0
                    elif r > size:
                        final[nm] = last["n"][nm]
                        r -= size
                    else:
                        final[nm] = r // last["width"][nm]
                        done = True
            last["final"] = final
            for nm in last["order"]:
                last["vals"][nm][-1] = last["vals"][nm][-1][:final[nm]]
    # per-channel abstract description
    for c in chans:
        for lay in seglay:
            if c in lay["n"]:
                chansegs[c].append(dict(chunk=lay["n"][c], nchunks=lay["nchunks"],
                                        final=None if lay["final"] is None else lay["final"][c],
                                        interleaved=lay["interleaved"], vals=lay["vals"][c]))
            else:
                chansegs[c].append(dict(chunk=0, nchunks=lay["nchunks"], final=None,
                                        interleaved=lay["interleaved"],
                                        vals=[[] for _ in range(lay["nchunks"])]))
    desc = {"channels": {c: {"dtype": chans[c], "segs": chansegs[c]} for c in chans}, "segments": seglay,
            "size": len(out)}
    return out, desc


# ---------------------------------------------------------------------------
# abstract arithmetic on a channel description (independent of the Coq model)

def seg_nvalues(sv):
    return sum(len(c) for c in sv["vals"])


def chan_full(segs):
    return [v for sv in segs for c in sv["vals"] for v in c]


def chunk_ranges(segs):
    """[(segment index, chunk index, first value index, end value index)] for chunks of
    segments in which the channel has data objects (chunk size != 0)"""
    res, s = [], 0
    for i, sv in enumerate(segs):
        for c, ch in enumerate(sv["vals"]):
            if sv["chunk"] != 0:
                res.append((i, c, s, s + len(ch)))
            s += len(ch)
    return res


def seg_ranges(segs):
    res, s = [], 0
    for sv in segs:
        n = seg_nvalues(sv)
        res.append((s, s + n))
        s += n
    return res


# ---------------------------------------------------------------------------
# random specs

def gen_spec(rng, big=False, small=False):
    names = ["a", "b", "c"][:rng.randint(1, 3)]
    kinds = ["i8", "i16", "i32", "f64", "str", "ts"]
    chans = {nm: rng.choice(kinds) for nm in names}
    if big:
        chans["z"] = "f64"
    nseg = rng.randint(1, 3 if small else 5)
    segs = []
    active = []       # (name, n, has_data)
    seen = {}
    total = {nm: 0 for nm in chans}
    for si in range(nseg):
        r = rng.random()
        kind = "new" if si == 0 or r < 0.55 else ("same" if r < 0.8 else "toggle")
        sg = dict(kind=kind, be=rng.random() < 0.3)
        if kind == "toggle":
            cand = [nm for nm in names if nm in seen]
            nm = rng.choice(cand)
            cur = [o for o in active if o[0] == nm]
            if not cur:
                mode = rng.choice(["on", "off"])
                active = active + [(nm, seen[nm], mode == "on")]
            else:
                mode = rng.choice(["on", "off", "off", rng.randint(3, 5)])
                n = mode if isinstance(mode, int) else cur[0][1]
                hd = (mode != "off")
                active = [(a, n, hd) if a == nm else (a, m, h) for (a, m, h) in active]
            sg["toggle"] = [nm, mode]
        elif kind == "new":
            while True:
                present = [nm for nm in names if rng.random() < 0.65]
                if present or (si > 0 and rng.random() < 0.1):
                    break
            inter_ok = all(chans[nm] != "str" for nm in present) and present
            inter = bool(inter_ok) and rng.random() < 0.4
            n0 = rng.randint(3, 4 if small else 6)
            objs = [[nm, n0 if inter else rng.randint(3, 4 if small else 6)] for nm in present]
            if big and not inter and rng.random() < 0.6:
                objs.insert(rng.randint(0, len(objs)), ["z", rng.randint(200, 600)])
            sg["objs"] = objs
            sg["interleaved"] = inter
            active = [(nm, n, True) for nm, n in objs]
        else:
            pass
        if kind != "new":
            # the layout kind is a property of the segment's own ToC flag
            data = [(a, m) for (a, m, h) in active if h]
            inter_ok = data and all(chans[a] != "str" for a, m in data) and len(set(m for a, m in data)) == 1
            sg["interleaved"] = bool(inter_ok) and rng.random() < 0.4
        for (a, m, h) in active:
            seen[a] = m
        r = rng.random()
        sg["nchunks"] = 0 if r < 0.08 else rng.randint(1, 2 if small else 4)
        if sg["nchunks"] == 0:
            sg["rawflag"] = rng.random() < 0.5
        # keep channels short enough for int8 codes
        for (a, m, h) in active:
            if h:
                total[a] += m * sg["nchunks"]
        if any(total[nm] > 110 for nm in names):
            return gen_spec(rng, big, small)
        segs.append(sg)
    spec = dict(channels=chans, segments=segs, strw=rng.randint(3, 4))
    # truncation
    data, desc = build(spec)
    last = desc["segments"][-1]
    if last["nchunks"] >= 1 and rng.random() < 0.35:
        spec["cut"] = rng.randint(1, last["chunk_bytes"])
        spec["unknown_len"] = rng.random() < 0.5
    elif rng.random() < 0.1:
        spec["unknown_len"] = True
    return spec


def gen_many_spec(rng):
    """More than 100 segments; two (or three) channels whose per-segment value counts agree over the first 100+
    segments and diverge only later (the reader de-duplicates per-channel segment-offset arrays by comparing them
    in blocks of 100 entries)."""
    dt = rng.choice(["i32", "f64"])
    names = ["a", "b"] + (["c"] if rng.random() < 0.3 else [])
    chans = {nm: dt for nm in names}
    n0 = rng.randint(1, 2)
    nseg = rng.randint(104, 135)
    first_change = rng.randint(101, nseg - 2)
    segs = [dict(kind="new", be=False, objs=[[nm, n0] for nm in names], interleaved=False, nchunks=1)]
    for si in range(1, nseg):
        if si == first_change or (si > first_change and rng.random() < 0.08):
            nm = rng.choice(names[1:])
            segs.append(dict(kind="toggle", be=False, toggle=[nm, rng.choice([n0 + 1, n0 + 2, "off"])],
                             interleaved=False, nchunks=1))
        else:
            segs.append(dict(kind="same", be=False, interleaved=False, nchunks=1))
    return dict(channels=chans, segments=segs, strw=3)


# ---------------------------------------------------------------------------
# observation helpers

def decode(dt, arr):
    """returned numpy array / list -> list of integer codes"""
    import numpy as np
    if dt == "ts":
        ep = np.datetime64("1904-01-01T00:00:00", "us")
        return [int((x - ep) / np.timedelta64(1, "s")) for x in arr]
    if dt == "str":
        return [int(x) for x in arr]
    return [int(x) for x in arr]


def decode_scalar(dt, x):
    return decode(dt, [x])[0]


class RecStream(io.BytesIO):
    """BytesIO that records every read/readinto as (position, bytes returned) and every seek"""

    def __init__(self, data):
        super().__init__(data)
        self.log = []
        self.seeks = 0

    def read(self, n=-1):
        p = self.tell()
        b = super().read(n)
        self.log.append((p, len(b)))
        return b

    def readinto(self, buf):
        p = self.tell()
        k = super().readinto(buf)
        self.log.append((p, k))
        return k

    def seek(self, *a):
        self.seeks += 1
        return super().seek(*a)

    def reset_log(self):
        self.log = []
        self.seeks = 0
