"""C11 — DAQmx raw data is decoded at the declared buffer, stride, offset and type.

Oracle: TdmsFile.read / open of generated DAQmx segments equals DIRECT ADDRESSING of the bytes
(daqmxgen.direct_values); lazy windows and chunk streams equal slices of the eager result; a
truncated final chunk yields only complete rows.  Correspondence: Model/Reader.v (Layout.v's
DAQmx decoder, SegState.v's buffer dimensions / final chunk lengths) on the same bytes.
"""
import io
import os
import random
import sys
import warnings

sys.path.insert(0, os.path.dirname(os.path.abspath(__file__)))
import common as H

H.ensure_env()
import tdmsgen as G          # noqa: E402
import daqmxgen as D         # noqa: E402
import readerlib as R        # noqa: E402

G.silence_logs()


def build(rng, truncatable=False):
    widths, rows, chans = D.gen_daqmx_layout(rng, one_buffer_per_channel=truncatable)
    e = rng.choice("<>")
    nseg = rng.randint(1, 3)
    segs, datas = [], []
    active = list(chans)          # channels that have data in the current segment
    for si in range(nseg):
        nchunks = rng.randint(1, 3)
        toc = G.TOC_META | G.TOC_RAW | G.TOC_DAQMX | G.TOC_NEWLIST
        r = rng.random()
        if si == 0 or r < 0.35:
            entries = D.daqmx_entries(widths, chans, rng if si == 0 else None)
            active = list(chans)
        elif r < 0.6:
            entries = None
            toc = G.TOC_RAW | G.TOC_DAQMX
        elif r < 0.8 or truncatable or len(active) < 2:
            entries = [G.Entry(c.path, "prev") for c in chans]
            toc = G.TOC_META | G.TOC_RAW | G.TOC_DAQMX
            active = list(chans)
        else:
            # one channel stops being written ("no data" index, the object list carries over): its buffers
            # keep only the rows the remaining channels need
            off = rng.choice(active)
            entries = [G.Entry(off.path, None)]
            toc = G.TOC_META | G.TOC_RAW | G.TOC_DAQMX
            active = [c for c in active if c is not off]
        seg_rows = [r_ if any(s[1] == b for c in active for s in c.scalers) else 0 for b, r_ in enumerate(rows)]
        cs = D.chunk_size(widths, seg_rows)
        data = bytes(rng.randrange(256) for _ in range(cs * nchunks))
        sg = G.Seg(e=e if rng.random() < 0.8 else rng.choice("<>"), toc=toc, entries=entries, data=data)
        sg.dq_rows, sg.dq_chans = seg_rows, list(active)
        segs.append(sg)
        datas.append((nchunks, data))
    return widths, rows, chans, segs


def expected(widths, rows, chans, segs, avail_last=None):
    vals = {c.path: {s[4]: [] for s in c.scalers} for c in chans}
    props = {}
    for si, s in enumerate(segs):
        if s.entries:
            for x in s.entries:
                for p in x.props:
                    props.setdefault(x.path, {})[p.name] = p
        srows, schans = getattr(s, "dq_rows", rows), getattr(s, "dq_chans", chans)
        cs = D.chunk_size(widths, srows)
        if avail_last is not None and si == len(segs) - 1:
            avail = avail_last
        else:
            avail = D.full_avail(srows, len(s.data) // cs if cs else 0)
        dv = D.direct_values(s.e, widths, srows, schans, s.data, avail)
        for p in dv:
            for sid in dv[p]:
                vals[p][sid] += dv[p][sid]
    return vals, props


def lazy_checks(run, rng, data, chans, vals, case):
    """windows and chunk streams of DAQmx channels equal slices of the eager result"""
    from nptdms import TdmsFile
    with warnings.catch_warnings():
        warnings.simplefilter("ignore")
        with TdmsFile.open(io.BytesIO(data)) as f:
            for c in chans:
                ch = f["dq"][G.parse_path(c.path)[1]]
                ids = sorted(vals[c.path])
                n = len(vals[c.path][ids[0]])
                for _ in range(4):
                    o = rng.randint(0, n + 1)
                    ln = rng.choice([None, 0, 1, rng.randint(0, n + 1)])
                    d = ch.read_data(o, ln, scaled=False)
                    end = None if ln is None else o + ln
                    for sid in ids:
                        exp = vals[c.path][sid][o:end]
                        if c.dt == G.T_DAQMX:
                            got = G.canon_array_values(d[sid]) if isinstance(d, dict) and sid in d else (
                                [] if not exp else None)
                        else:
                            got = G.canon_array_values(d)
                        if got != exp and not (got is None and not exp):
                            run.violation("daqmx-window", "read_data(%d, %r, scaled=False) of %r scaler %d is not the "
                                          "slice of the eager result" % (o, ln, c.path, sid), case,
                                          expected=[x.hex() for x in exp[:6]],
                                          actual=[x.hex() for x in (got or [])[:6]])
                            return
                # chunk stream
                acc = {sid: [] for sid in ids}
                offs_ok = True
                count = 0
                for chunk in ch.data_chunks():
                    if chunk.offset != count:
                        offs_ok = False
                    raw = chunk._raw_data if False else None
                    count += len(chunk)
                if count != n or not offs_ok:
                    run.violation("daqmx-chunks", "data_chunks() of %r delivers %d values (expected %d) / offsets wrong"
                                  % (c.path, count, n), case, expected=n, actual=count)
                    return


def check_one(run, rng, truncate, cases, meta):
    widths, rows, chans, segs = build(rng, truncatable=truncate)
    full = G.ser_file(segs)
    data = full
    avail_last = None
    status = None
    cs = D.chunk_size(widths, rows)
    label = "complete"
    if truncate and cs > 0:
        cut = rng.randint(1, min(len(segs[-1].data), cs * 2 - 1) if len(segs[-1].data) > 1 else 1)
        remaining = len(segs[-1].data) - cut
        data = full[:len(full) - cut]
        avail_last = D.truncated_avail(widths, rows, remaining)
        # expected status of the last segment
        if remaining % cs:
            last = avail_last[-1]
            st = [G.TZ(1), G.TZ(1), G.TZ(len(chans))]
            for c in chans:
                st += [G.TB(c.path), G.TZ(c.n), G.TZ(last[c.scalers[0][1]])]
        else:
            st = [G.TZ(1), G.TZ(1), G.TZ(len(chans))]
            for c in chans:
                st += [G.TB(c.path), G.TZ(c.n), G.TZ(c.n)]
        status = st
        label = "truncated"
    vals, props = expected(widths, rows, chans, segs, avail_last)
    exp = D.expected_tokens_daqmx(segs[0].version, chans, vals, props, status)
    impl, ex = G.read_eager(data)
    run.cov["evaluations"] += 1
    run.count(label)
    run.count("kind_digital" if chans[0].kind == D.DIGITAL_LINE else "kind_format_changing")
    run.count("buffers_%d" % len(widths))
    if any(len(getattr(s, "dq_chans", chans)) < len(chans) for s in segs):
        run.count("files_with_a_channel_switched_off")
    desc = {"widths": widths, "rows": rows, "segments": R.describe_segs(segs),
            "channels": [{"path": c.path.decode(), "dt": c.dt, "scalers": c.scalers} for c in chans]}
    case = {"op": "read", "hex": data.hex(), "desc": desc}
    failed = False
    if impl != exp:
        failed = True
        run.violation("daqmx-addressing-" + label,
                      "%s DAQmx file: TdmsFile.read differs from direct addressing: %s"
                      % (label, repr(ex)[:200] if ex else R.first_diff(impl, exp)), case,
                      expected="bytes at chunk_base + buffer_base + i*width + offset",
                      actual=repr(ex)[:300] if ex else R.first_diff(impl, exp))
    else:
        lz, ex2 = G.read_lazy(data)
        if lz != impl:
            failed = True
            run.violation("daqmx-lazy", "%s DAQmx file: lazy read differs from eager: %s"
                          % (label, repr(ex2)[:200] if ex2 else R.first_diff(lz, impl)), case,
                          actual=repr(ex2)[:300] if ex2 else R.first_diff(lz, impl))
        else:
            try:
                lazy_checks(run, rng, data, chans, vals, case)
            except Exception as ex3:    # noqa: BLE001
                failed = True
                run.violation("daqmx-lazy-raises", "%s DAQmx file: window/chunk read raises %r" % (label, ex3), case,
                              actual=repr(ex3)[:300])
    cases.append(R.case_all(data, impl))
    meta.append({"data": data, "impl": R.exc_kind(ex) or "tokens", "desc": desc, "oracle_failed": failed})
    return len(chans) >= 2 or len(widths) >= 2


def main():
    run = H.Run("C11")
    run.prove()
    rng = random.Random(run.seed)
    if run.replay:
        import json
        case = json.load(open(run.replay))["case"]
        data = bytes.fromhex(case["hex"])
        impl, ex = G.read_eager(data)
        R.run_agree_all(run, [R.case_all(data, impl)], [{"data": data, "impl": R.exc_kind(ex)}], "replay", "replay")
        lz, _ = G.read_lazy(data)
        if lz != impl:
            run.violation("daqmx-lazy", "lazy still differs from eager", case)
        run.finish()
    cases, meta = [], []
    for i in range(run.pick(260, 12000)):
        nt = check_one(run, rng, truncate=(i % 3 == 2), cases=cases, meta=meta)
        if nt:
            run.cov["distinct_nontrivial"] += 1
        if i < 2:
            run.sample(meta[-1]["desc"])
    R.run_agree_all(run, cases, meta, "daqmx", "DAQmx file")
    run.cov["rule"] = ("random DAQmx layouts: 1-3 raw buffers (widths 2-16, rows 1-4, padding allowed), 1-4 channels with 1-3 "
                       "format-changing or digital-line scalers (all ten scaler types), typed single-scaler channels and "
                       "DaqMxRawData channels, 1-3 segments (restated / metadata-less / matches-previous), 1-3 chunks, "
                       "both byte orders, random bytes; every third file cut inside its last chunk(s). "
                       "Non-trivial = at least two channels or two buffers.")
    run.assumptions = ["objects whose scalers live in buffers of different truncated lengths are outside the truncation "
                      "clause (the code itself notes it may not be valid)"]
    run.finish()


if __name__ == "__main__":
    main()
