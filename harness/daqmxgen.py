"""Generator of well-formed DAQmx segments and their reference meaning by DIRECT ADDRESSING
(the statement of C11): each scaler value is the bytes at
chunk_base + buffer_base + i * width(buffer) + byte_offset, of the scaler's type and the
segment's byte order; a digital-line scaler yields bit (bit_offset mod 8) of the value at byte
bit_offset // 8."""
import struct

import tdmsgen as G

# DAQmx scaler type code -> (TDMS enum, size)
DQ = {0: (5, 1), 1: (1, 1), 2: (6, 2), 3: (2, 2), 4: (7, 4), 5: (3, 4), 6: (8, 8), 7: (4, 8), 8: (9, 4), 9: (10, 8)}
FORMAT_CHANGING, DIGITAL_LINE = 0x1269, 0x126A


class DqChan:
    def __init__(self, path, kind, dt, buf_n, scalers):
        self.path, self.kind, self.dt, self.scalers = path, kind, dt, scalers   # scalers: (code, buf, off, fmt, id)
        self.n = buf_n


def gen_daqmx_layout(rng, one_buffer_per_channel=False):
    nbuf = rng.randint(1, 3)
    widths = [rng.choice([2, 4, 6, 8, 12, 16]) for _ in range(nbuf)]
    rows = [rng.randint(1, 4) for _ in range(nbuf)]
    if rng.random() < 0.5:
        rows = [rows[0]] * nbuf
    kind = DIGITAL_LINE if rng.random() < 0.3 else FORMAT_CHANGING
    chans = []
    used_bufs = set()
    nchan = rng.randint(1, 4)
    for ci in range(nchan):
        path = G.quote_path("dq", "c%d" % ci)
        b0 = rng.randrange(nbuf) if ci >= nbuf else ci      # make sure every buffer is used when possible
        nsc = rng.randint(1, 3)
        if kind == DIGITAL_LINE:
            nsc = rng.randint(1, 2)
        typed = nsc == 1 and rng.random() < 0.35
        scalers = []
        for k in range(nsc):
            b = b0
            if not one_buffer_per_channel and rng.random() < 0.25:
                same = [j for j in range(nbuf) if rows[j] == rows[b0]]
                b = rng.choice(same)
            if kind == DIGITAL_LINE:
                code = rng.choice([0, 2, 4, 1, 3, 5])      # unsigned and signed raw types
            else:
                code = rng.choice(list(DQ))
            sz = DQ[code][1]
            if sz > widths[b]:
                code = 0 if kind == DIGITAL_LINE else rng.choice([0, 1])
                sz = 1
            byte_off = rng.randint(0, widths[b] - sz)
            if kind == DIGITAL_LINE:
                off = byte_off * 8 + rng.choice([7, rng.randint(0, 7)])
            else:
                off = byte_off
            scalers.append((code, b, off, rng.randint(0, 255 if kind == DIGITAL_LINE else 2 ** 16), k + rng.choice([0, 0, 10])))
            used_bufs.add(b)
        # scale ids must be distinct within a channel
        ids = set()
        fixed = []
        for (code, b, off, fmt, sid) in scalers:
            while sid in ids:
                sid += 1
            ids.add(sid)
            fixed.append((code, b, off, fmt, sid))
        dt = DQ[fixed[0][0]][0] if typed else G.T_DAQMX
        chans.append(DqChan(path, kind, dt, rows[fixed[0][1]], fixed))
    # buffers nobody uses keep 0 rows in the implementation: drop them from the layout
    for b in range(nbuf):
        if b not in used_bufs:
            rows[b] = 0
    return widths, rows, chans


def daqmx_entries(widths, chans, props_rng=None):
    out = []
    for c in chans:
        props = [G.rand_prop(props_rng)] if props_rng is not None and props_rng.random() < 0.3 else []
        out.append(G.Entry(c.path, ("daqmx", c.kind, c.dt, 1, c.n, c.scalers, widths), props))
    return out


def chunk_size(widths, rows):
    return sum(w * r for w, r in zip(widths, rows))


def direct_values(e, widths, rows, chans, data, avail_rows_per_chunk):
    """Direct addressing. avail_rows_per_chunk: list (per chunk) of list (per buffer) of rows present.
    -> {path: {scale_id: [canonical value bytes]}}"""
    out = {c.path: {s[4]: [] for s in c.scalers} for c in chans}
    cs = chunk_size(widths, rows)
    for ci, avail in enumerate(avail_rows_per_chunk):
        base = ci * cs
        bbase = base
        for b, (w, r) in enumerate(zip(widths, rows)):
            for c in chans:
                for (code, sb, off, fmt, sid) in c.scalers:
                    if sb != b:
                        continue
                    ty, sz = DQ[code]
                    for i in range(avail[b]):
                        byte_off = off // 8 if c.kind == DIGITAL_LINE else off
                        pos = bbase + i * w + byte_off
                        v = G.canon_to_stored(e, ty, data[pos:pos + sz])
                        if c.kind == DIGITAL_LINE:
                            bit = off % 8
                            x = (int.from_bytes(v, "little") >> bit) & 1
                            v = x.to_bytes(sz, "little")
                        out[c.path][sid].append(v)
            bbase += w * r
    return out


def full_avail(rows, nchunks):
    return [list(rows) for _ in range(nchunks)]


def truncated_avail(widths, rows, total_bytes):
    """complete chunks, then per buffer (in order) only complete rows of what remains"""
    cs = chunk_size(widths, rows)
    if cs == 0:
        return []
    nfull, rem = divmod(total_bytes, cs)
    out = full_avail(rows, nfull)
    if rem:
        avail = []
        for w, r in zip(widths, rows):
            if rem > w * r:
                avail.append(r)
                rem -= w * r
            else:
                avail.append(rem // w if w else 0)
                rem = 0
        out.append(avail)
    return out


def expected_tokens_daqmx(version, chans, vals, props_of, status=None):
    """token list (layout of tdmsgen.expected_tokens) for a file holding group 'dq' with DAQmx channels"""
    TZ, TB = G.TZ, G.TB
    toks = [TZ(version), TZ(0), TZ(1), TB(b"dq"), TZ(0), TZ(len(chans))]
    for c in chans:
        name = G.parse_path(c.path)[1].encode()
        anyid = next(iter(vals[c.path]))
        n = len(vals[c.path][anyid])
        toks += [TB(name), TB(b"dq"), TB(c.path), TZ(c.dt), TZ(n)]
        ps = props_of.get(c.path, {})
        toks.append(TZ(len(ps)))
        for nm, p in ps.items():
            toks += [TB(nm)] + G.obs_prop_expected(p)
        if c.dt == G.T_DAQMX:
            toks += [TZ(1), TZ(len(vals[c.path]))]
            for sid in sorted(vals[c.path]):
                v = vals[c.path][sid]
                toks += [TZ(sid), TZ(len(v))] + [TB(x) for x in v]
        else:
            v = vals[c.path][anyid]
            toks += [TZ(0), TZ(len(v))] + [TB(x) for x in v]
    toks += status if status is not None else [TZ(0), TZ(0)]
    return toks
