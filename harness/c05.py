"""C05 — Reads from an open file are independent of earlier reads.

Proof: Props/C05.v (state machine of one open file, Model/IoPlan.v: every step of
the repaired reader preserves an invariant under which each output equals the
output on a freshly opened file; the code as it is in /repo today is refuted by
the D4 witness).

Tie (this file): random files x random histories executed on ONE
TdmsFile.open(io.BytesIO(...)).
  * direct oracle: every output equals the same operation on a FRESHLY opened
    file (next(): the k-th chunk of a fresh generator; values per channel and
    .offset), and every generator is driven to exhaustion at the end and must
    stop exactly where the fresh one stops;
  * correspondence: the model's `run` on the same abstract file and history is
    evaluated inside Coq and compared output by output, and the position of the
    BytesIO the harness supplied (tell() after every operation) with the model's
    file position (positions left by the lead-in tag check are not compared, so
    harmless seeks do not matter).
  * the abstract file itself is not trusted: for every generated file (a sample
    in the thorough tier) Model/IoBytes.v `iofile_with` recomputes it INSIDE Coq
    from the file bytes (metadata pass with segment indexes, chunk decoders) and
    `check_iofile` demands that it is well-formed, regular and isomorphic to the
    generator's description (same positions, flags, objects, chunk shapes; value
    labels in one-to-one correspondence per channel).  Props/C05_bytes.v proves
    that on such files every history yields the eager data of read_correct.
Failing histories are shrunk (ops deleted while the failure persists).
"""
import io
import json
import multiprocessing
import os
import random
import struct
import sys

sys.path.insert(0, os.path.dirname(os.path.abspath(__file__)))
import common as H

H.ensure_env()

import logging  # noqa: E402
import numpy as np  # noqa: E402

logging.disable(logging.CRITICAL)   # misreads on a defective tree make nptdms log decoding warnings
from nptdms import TdmsFile  # noqa: E402

IMPORTS = ("From NpTdms Require Import Model.IoPlan.\nOpen Scope Z_scope.\n")
CASE_TYPE = "file * list op * list (option out) * list (option Z)"
IOB_IMPORTS = ("From NpTdms Require Import Base.Bytes Base.Res Model.IoBytes Model.IoPlan.\nOpen Scope Z_scope.\n")
IOB_CASE_TYPE = "bytes * list bytes * file"

# ---------------------------------------------------------------------------
# A small independent TDMS encoder (TDMS 2.0 / version 4713; byte order of the segment being
# encoded in _E, little-endian unless gen_file chooses otherwise)

TOC_META, TOC_NEWOBJ, TOC_RAW, TOC_IL, TOC_BE = 1 << 1, 1 << 2, 1 << 3, 1 << 5, 1 << 6
_E = "<"
T_I32, T_F64, T_STR, T_TS = 3, 10, 0x20, 0x44
TYPE_NAMES = {T_I32: "int32", T_F64: "float64", T_STR: "string", T_TS: "timestamp"}
SIZES = {T_I32: 4, T_F64: 8, T_TS: 16}


def _s(x):
    b = x.encode("utf-8")
    return struct.pack(_E + "L", len(b)) + b


def enc_obj(path, idx):
    """idx: None -> no data (0xFFFFFFFF); 'prev' -> matches previous (0);
    (dtype, n) or (T_STR, n, total_bytes) -> full raw data index."""
    out = _s(path)
    if idx is None:
        out += struct.pack(_E + "L", 0xFFFFFFFF)
    elif idx == "prev":
        out += struct.pack(_E + "L", 0)
    elif idx[0] == T_STR:
        out += struct.pack(_E + "LLLQQ", 28, T_STR, 1, idx[1], idx[2])
    else:
        out += struct.pack(_E + "LLLQ", 20, idx[0], 1, idx[1])
    out += struct.pack(_E + "L", 0)  # no properties
    return out


def enc_segment(toc, objs, data):
    """objs: list of encoded objects or None (segment without metadata)."""
    meta = b"" if objs is None else struct.pack(_E + "L", len(objs)) + b"".join(objs)
    if _E == ">":
        toc |= TOC_BE
    return (b"TDSm" + struct.pack("<l", toc) + struct.pack(_E + "lQQ", 4713, len(meta) + len(data), len(meta))
            + meta + data), 28 + len(meta)


def chan_path(c):
    return "/'%s'/'%s'" % ("g%d" % (c % 2), "c%d" % c)


def chan_names(c):
    return "g%d" % (c % 2), "c%d" % c


def str_value(j, nbytes):
    """distinct per label j, exactly nbytes (>= 2) UTF-8 bytes"""
    s = "%02d" % j
    fill = "abéz"
    k = j
    while len(s.encode("utf-8")) < nbytes:
        ch = fill[k % 4]
        k += 1
        if len((s + ch).encode("utf-8")) <= nbytes:
            s += ch
        else:
            s += "q"
    return s


def enc_values(ty, c, labels, lens=None):
    """bytes of the values with the given labels for channel c of type ty"""
    if ty == T_I32:
        return b"".join(struct.pack(_E + "i", (-1) ** j * (1000 * (c + 1) + j)) for j in labels)
    if ty == T_F64:
        return b"".join(struct.pack(_E + "d", 100.0 * c + j + 0.25) for j in labels)
    if ty == T_TS:
        if _E == ">":
            return b"".join(struct.pack(">qQ", 3000000000 + 11 * j + c, (j % 4) << 62) for j in labels)
        return b"".join(struct.pack("<Qq", (j % 4) << 62, 3000000000 + 11 * j + c) for j in labels)
    if ty == T_STR:
        vals = [str_value(j, n).encode("utf-8") for j, n in zip(labels, lens)]
        offs, tot = [], 0
        for v in vals:
            tot += len(v)
            offs.append(tot)
        return b"".join(struct.pack(_E + "L", o) for o in offs) + b"".join(vals)
    raise AssertionError(ty)


# ---------------------------------------------------------------------------
# File generator: returns bytes + the abstract file the model runs on

def gen_file(rng):
    nchan = rng.randint(2, 3)
    types = [rng.choice([T_I32, T_I32, T_F64, T_STR, T_TS]) for _ in range(nchan)]
    nseg = rng.randint(1, 4)
    # one file in four also has a channel that never gets data (listed with a "no data" index only):
    # zero length, no data type
    zero = nchan if rng.random() < 0.25 else None
    counts = [0] * (nchan + 1)        # labels handed out so far per channel
    last_layout = {}                  # chan -> (n, lens) of its most recent full index
    prev_order = None                 # ordered_objects of the previous segment: list of [chan, has_data]
    prev_il = False
    blob = b""
    segs = []                         # abstract segments
    shape = []
    mixed = rng.random() < 0.3        # files mixing byte orders between segments (also metadata-less ones)
    global _E
    for si in range(nseg):
        _E = ">" if mixed and rng.random() < 0.5 else "<"
        kinds = ["new"] * 5
        if prev_order is not None:
            kinds += ["inc"] * 3 + ["nodata"]
            if any(h for _, h in prev_order) and not any(h and types[c] == T_STR for c, h in prev_order):
                kinds += ["same"] * 2
        kind = rng.choice(kinds)
        if si == nseg - 1 and not any(s["raw"] for s in segs) and kind == "nodata":
            kind = "new"
        objs_enc = []
        if kind == "same":
            order = [list(x) for x in prev_order]
            il = prev_il
            toc = TOC_RAW | (TOC_IL if il else 0)
            objs_enc = None
        elif kind == "nodata":
            listed = [c for c in range(nchan) if c in last_layout and rng.random() < 0.6]
            if zero is not None and rng.random() < 0.3:
                listed.append(zero)
            order = [[c, False] for c in listed]
            objs_enc = [enc_obj(chan_path(c), None) for c in listed]
            toc = TOC_META | TOC_NEWOBJ
            il = False
        else:
            want_il = rng.random() < 0.35
            if kind == "new":
                listed = [c for c in range(nchan) if rng.random() < 0.7]
                if not listed:
                    listed = [rng.randrange(nchan)]
                rng.shuffle(listed)
                base_order, drop = [], []
            else:
                base_order = [list(x) for x in prev_order]
                have = {c: h for c, h in base_order}
                listed, drop = [], []
                for c in range(nchan):
                    r = rng.random()
                    if c in have:
                        if have[c] and r < 0.25:
                            drop.append(c)
                        elif r < 0.6:
                            listed.append(c)      # (re)declared with data
                    elif r < 0.5:
                        listed.append(c)          # appended to the object list
            data_set = set(c for c, h in base_order if h and c not in drop) | set(listed)
            if not data_set:
                cands = [x[0] for x in base_order if x[0] != zero]
                c = cands[0] if cands else rng.randrange(nchan)
                if c in drop:
                    drop.remove(c)
                listed.append(c)
                data_set = {c}
            il = want_il and not any(types[c] == T_STR for c in data_set)
            n_common = rng.randint(1, 3)
            unlisted_ns = set(last_layout[c][0] for c in data_set if c not in listed)
            if il and len(unlisted_ns) > 1:
                il = False
            if il and unlisted_ns:
                n_common = unlisted_ns.pop()
            toc = TOC_META | TOC_RAW | (TOC_NEWOBJ if kind == "new" else 0) | (TOC_IL if il else 0)
            enc_list = []
            for c in listed:
                if il:
                    n = n_common
                elif c in last_layout and rng.random() < 0.4:
                    n = last_layout[c][0]
                else:
                    n = rng.randint(1, 3)
                if types[c] == T_STR:
                    if c in last_layout and last_layout[c][0] == n and rng.random() < 0.5:
                        lens = last_layout[c][1]
                    else:
                        lens = [rng.randint(2, 5) for _ in range(n)]
                else:
                    lens = None
                lay = (n, lens)
                if c in last_layout and last_layout[c] == lay and rng.random() < 0.6:
                    enc_list.append((c, "prev"))
                elif types[c] == T_STR:
                    enc_list.append((c, (T_STR, n, 4 * n + sum(lens))))
                else:
                    enc_list.append((c, (types[c], n)))
                last_layout[c] = lay
            for c in drop:
                enc_list.append((c, None))
            if zero is not None and (si == 0 or rng.random() < 0.3):
                enc_list.append((zero, None))
            if kind == "inc":
                rng.shuffle(enc_list)
            # ordered_objects: previous list updated in place, unseen paths appended in metadata order
            order = base_order
            for c, i in enc_list:
                for x in order:
                    if x[0] == c:
                        x[1] = i is not None
                        break
                else:
                    order.append([c, i is not None])
            objs_enc = [enc_obj(chan_path(c), i) for c, i in enc_list]
        # data
        data_chans = [c for c, h in order if h]
        raw = bool(toc & TOC_RAW)
        nchunks = rng.randint(1, 4) if raw else 0
        chunks_abs = []
        data = b""
        objs_abs = []
        for c in data_chans:
            n, lens = last_layout[c]
            size = n * SIZES[types[c]] if types[c] != T_STR else 4 * n + sum(lens)
            objs_abs.append((c, n, size))
        for k in range(nchunks):
            row = []
            for c in data_chans:
                n, lens = last_layout[c]
                labels = list(range(counts[c], counts[c] + n))
                counts[c] += n
                row.append(labels)
            chunks_abs.append(row)
            if il:
                n = last_layout[data_chans[0]][0]
                for v in range(n):
                    for c, labels in zip(data_chans, row):
                        data += enc_values(types[c], c, [labels[v]])
            else:
                for c, labels in zip(data_chans, row):
                    data += enc_values(types[c], c, labels, last_layout[c][1])
        seg_bytes, meta_end = enc_segment(toc, objs_enc, data)
        segs.append({"pos": len(blob), "data_pos": len(blob) + meta_end, "raw": raw, "il": bool(il and raw),
                     "objs": objs_abs, "chunks": chunks_abs})
        shape.append("%s%s%d" % (kind, "-il" if il and raw else "", nchunks))
        blob += seg_bytes
        prev_order, prev_il = order, il
    _E = "<"
    chans = [c for c in range(nchan) if counts[c] > 0] + ([zero] if zero is not None else [])
    return {"bytes": blob, "types": types, "chans": chans, "segs": segs, "lengths": counts,
            "raw_ts": rng.random() < 0.3, "shape": shape}


def gen_file_many(rng):
    """More than 100 segments: two int32 channels whose per-segment value counts are identical for the
    first 101+ segments and differ afterwards (the shared, de-duplicated offset index compares arrays in
    blocks of 100 entries)."""
    types = [T_I32, T_I32]
    nseg = rng.randint(104, 124)
    change_at = rng.randint(101, nseg - 2)
    counts = [0, 0]
    layout = {0: (2, None), 1: (2, None)}
    blob, segs, shape = b"", [], []
    for si in range(nseg):
        if si == 0:
            toc = TOC_META | TOC_RAW | TOC_NEWOBJ
            objs_enc = [enc_obj(chan_path(0), (T_I32, 2)), enc_obj(chan_path(1), (T_I32, 2))]
            kind = "new"
        elif si == change_at:
            layout[1] = (3, None)
            toc = TOC_META | TOC_RAW
            objs_enc = [enc_obj(chan_path(1), (T_I32, 3))]
            kind = "inc"
        else:
            toc, objs_enc, kind = TOC_RAW, None, "same"
        nchunks = 1
        row, data, objs_abs = [], b"", []
        for c in (0, 1):
            n = layout[c][0]
            labels = list(range(counts[c], counts[c] + n))
            counts[c] += n
            row.append(labels)
            data += enc_values(T_I32, c, labels, None)
            objs_abs.append((c, n, n * SIZES[T_I32]))
        seg_bytes, meta_end = enc_segment(toc, objs_enc, data)
        segs.append({"pos": len(blob), "data_pos": len(blob) + meta_end, "raw": True, "il": False,
                     "objs": objs_abs, "chunks": [row]})
        shape.append("%s%d" % (kind, nchunks))
        blob += seg_bytes
    return {"bytes": blob, "types": types, "chans": [0, 1], "segs": segs, "lengths": counts,
            "raw_ts": False, "shape": shape}


def coq_file(F):
    segs = []
    for s in F["segs"]:
        objs = H.clist(["mkObj %d %d %d" % o for o in s["objs"]])
        chunks = H.clist([H.clist([H.clist(["%d" % v for v in vs]) for vs in row]) for row in s["chunks"]])
        segs.append("mkSeg %d %d %s %s %s %s" % (s["pos"], s["data_pos"], H.cbool(s["raw"]), H.cbool(s["il"]),
                                                 objs, chunks))
    return "(mkFile %s %s)" % (H.clist(["%d" % c for c in F["chans"]]), H.clist(segs))


def coq_iofile_case(F):
    """(file bytes, channel paths in the generator's numbering, the generator's abstract file)"""
    npaths = max([len(F["types"])] + [c + 1 for c in F["chans"]])
    paths = H.clist([H.chex(chan_path(c).encode("utf-8")) for c in range(npaths)])
    return "(%s, %s, %s)" % (H.chex(F["bytes"]), paths, coq_file(F))


# ---------------------------------------------------------------------------
# Observing the implementation (public API only)

def cv(x):
    """canonical, hashable form of one value (never raises)"""
    try:
        return _cv(x)
    except Exception as e:   # garbage read by a defective tree
        return ("?", type(e).__name__)


def _cv(x):
    if isinstance(x, np.datetime64):
        return ("dt", str(x.dtype), int(x.astype("int64")))
    if hasattr(x, "second_fractions") and hasattr(x, "seconds"):
        return ("ts", int(x.seconds), int(x.second_fractions))
    if isinstance(x, np.void):   # element of a raw TimestampArray reached by iteration
        return ("ts", int(x["seconds"]), int(x["second_fractions"]))
    if isinstance(x, (float, np.floating)):
        return ("f", float(x).hex())
    if isinstance(x, (bool, np.bool_)):
        return ("b", bool(x))
    if isinstance(x, (int, np.integer)):
        return ("i", int(x))
    if isinstance(x, (str, np.str_)):
        return ("s", str(x))
    return ("?", repr(x))


def cvs(arr):
    return [cv(arr[i]) for i in range(len(arr))]


def open_file(F, stream=None):
    return TdmsFile.open(stream if stream is not None else io.BytesIO(F["bytes"]), raw_timestamps=F["raw_ts"])


def exec_op(tf, F, gens, op):
    """Execute one operation; returns a canonical observation (nested lists/tuples)."""
    kind = op[0]
    try:
        if kind in ("idx", "read", "readu", "slice", "cgen"):
            g, n = chan_names(op[1])
            ch = tf[g][n]
        if kind == "idx":
            return ["val", cv(ch[op[2]])]
        if kind == "read":
            return ["vals", cvs(ch.read_data(op[2], op[3]))]
        if kind == "readu":
            return ["vals", cvs(ch.read_data(op[2], op[3], scaled=False))]
        if kind == "slice":
            return ["vals", cvs(ch[slice(op[2], op[3], op[4])])]
        if kind == "cgen":
            gens[op[2]] = ("c", ch.data_chunks())
            return ["unit"]
        if kind == "fgen":
            gens[op[1]] = ("f", tf.data_chunks())
            return ["unit"]
        if kind == "next":
            if op[1] not in gens:
                return ["nogen"]
            k, it = gens[op[1]]
            try:
                c = next(it)
            except StopIteration:
                return ["stop"]
            if k == "c":
                return ["chunk", int(c.offset), cvs(c[:])]
            res = []
            for cid in F["chans"]:
                g, n = chan_names(cid)
                cc = c[g][n]
                res.append([cid, int(cc.offset), cvs(cc[:])])
            return ["fchunk", res]
    except (IndexError, ValueError) as e:
        return ["err", type(e).__name__]
    except Exception as e:  # anything else is compared verbatim (class only)
        return ["exc", type(e).__name__]
    raise AssertionError(op)


class Fresh:
    """What each operation yields on a freshly opened file (memoised per file)."""

    def __init__(self, F):
        self.F = F
        self.memo = {}
        self.seqs = {}
        self.opens = 0

    def seq(self, gkind):
        """all chunks of a fresh generator of this kind on a fresh file, then ['stop']"""
        key = tuple(gkind)
        if key not in self.seqs:
            gens = {}
            self.opens += 1
            with open_file(self.F) as tf:
                exec_op(tf, self.F, gens, ("fgen", 0) if gkind[0] == "f" else ("cgen", gkind[1], 0))
                out = []
                while True:
                    o = exec_op(tf, self.F, gens, ("next", 0))
                    out.append(o)
                    if o[0] != "chunk" and o[0] != "fchunk":
                        if o[0] != "stop":
                            out.append(["stop"])   # a generator that raised is finished
                        break
                    if len(out) > 200:
                        break
            self.seqs[key] = out
        return self.seqs[key]

    def of(self, aop):
        """aop: op tuple, or ('next', gkind, k)"""
        key = repr(aop)
        if key in self.memo:
            return self.memo[key]
        if aop[0] == "next":
            if aop[1] is None:
                r = ["nogen"]
            else:
                s = self.seq(aop[1])
                r = s[aop[2]] if aop[2] < len(s) else s[-1]
        elif aop[0] in ("cgen", "fgen"):
            r = ["unit"]
        else:
            self.opens += 1
            with open_file(self.F) as tf:
                r = exec_op(tf, self.F, {}, aop)
        self.memo[key] = r
        return r


def annotate(ops):
    env = {}
    res = []
    for op in ops:
        if op[0] == "cgen":
            env[op[2]] = [("c", op[1]), 0]
            res.append(op)
        elif op[0] == "fgen":
            env[op[1]] = [("f",), 0]
            res.append(op)
        elif op[0] == "next":
            if op[1] in env:
                e = env[op[1]]
                res.append(("next", e[0], e[1]))
                e[1] += 1
            else:
                res.append(("next", None, 0))
        else:
            res.append(op)
    return res


def run_history(F, ops, positions=None):
    """positions: a list that receives the position of the stream the harness supplied after every
    operation (None while it still is where TdmsFile.open left it)"""
    gens = {}
    bio = io.BytesIO(F["bytes"])
    with open_file(F, bio) as tf:
        p0 = bio.tell()
        outs = []
        for op in ops:
            outs.append(exec_op(tf, F, gens, op))
            if positions is not None:
                p = bio.tell()
                positions.append(None if p == p0 else p)
        return outs


def first_diff(F, fresh, ops, positions=None):
    """index of the first op whose output on the shared file differs from the fresh one, or None"""
    outs = run_history(F, ops, positions)
    for i, (o, a) in enumerate(zip(outs, annotate(ops))):
        if o != fresh.of(a):
            return i, outs
    return None, outs


def shrink(F, fresh, ops):
    """delete ops while some output still differs from its fresh counterpart"""
    ops = list(ops)
    i, _ = first_diff(F, fresh, ops)
    if i is None:
        return ops
    ops = ops[:i + 1]
    changed = True
    while changed:
        changed = False
        j = len(ops) - 1
        while j >= 0:
            cand = ops[:j] + ops[j + 1:]
            if cand and first_diff(F, fresh, cand)[0] is not None:
                k, _ = first_diff(F, fresh, cand)
                ops = cand[:k + 1]
                changed = True
                j = min(j, len(ops)) - 1
            else:
                j -= 1
    return ops


# ---------------------------------------------------------------------------
# History generator

def gen_history(rng, F, fresh):
    chans = F["chans"]
    n_ops = rng.randint(20, 60)
    ops = []
    live = {}       # id -> [gkind, consumed]
    next_id = 0
    last_index = {}
    while len(ops) < n_ops:
        r = rng.random()
        c = rng.choice(chans)
        n = F["lengths"][c]
        if r < 0.30:
            q = rng.random()
            if c in last_index and q < 0.45:
                i = last_index[c] + rng.choice([-3, -2, -1, 0, 1, 1, 2, 3])   # around the cached chunk
            elif n == 0:
                i = rng.choice([0, -1, 1])
            elif q < 0.9:
                i = rng.randrange(-n, n)
            else:
                i = rng.choice([n, -n - 1, n + 3])
            if -n <= i < n:
                last_index[c] = i % n
            ops.append(("idx", c, i))
        elif r < 0.40:
            offs = rng.randint(0, n + 1)
            ln = rng.choice([None, 0, 1, rng.randint(0, n + 2), rng.randint(0, n + 2)])
            if rng.random() < 0.03:
                offs = -1
            ops.append(("read", c, offs, ln))
        elif r < 0.50:
            pick = lambda: rng.choice([None, None, rng.randint(-n - 2, n + 2), rng.randint(-n - 2, n + 2)])  # noqa: E731
            stp = rng.choice([None, None, 1, 2, 3, -1, -2, 0 if rng.random() < 0.1 else 1])
            ops.append(("slice", c, pick(), pick(), stp))
        elif r < 0.57 or not live:
            if rng.random() < 0.5:
                ops.append(("cgen", c, next_id))
                live[next_id] = [("c", c), 0]
            else:
                ops.append(("fgen", next_id))
                live[next_id] = [("f",), 0]
            next_id += 1
        else:
            gid = rng.choice(sorted(live))
            ops.append(("next", gid))
            live[gid][1] += 1
    # drive every generator to exhaustion (one call past its last chunk), interleaved
    todo = []
    for gid, (gk, used) in sorted(live.items()):
        total = len(fresh.seq(gk))        # chunks + the final stop
        todo += [gid] * max(1, total - used)
    rng.shuffle(todo)
    ops += [("next", gid) for gid in todo]
    return ops


def scaled_variant(F, rng):
    """The same file with a Linear NI_Scale attached to its int32 / float64 channels by a final metadata-only
    segment (object re-listed with a 'no data' index and four properties).  Only the direct oracle (same history
    on a fresh file) is applied to it: the model moves labels, not scaled values."""
    def prop(name, ty, val):
        return _s(name) + struct.pack("<L", ty) + val
    objs = []
    for c, ty in zip(range(len(F["types"])), F["types"]):
        if ty in (T_I32, T_F64) and c in F["chans"] and F["lengths"][c] > 0:
            props = [prop("NI_Scale[0]_Scale_Type", 0x20, _s("Linear")),
                     prop("NI_Scale[0]_Linear_Slope", 10, struct.pack("<d", rng.choice([2.0, -0.5, 1e-3]))),
                     prop("NI_Scale[0]_Linear_Y_Intercept", 10, struct.pack("<d", rng.choice([0.0, 1.5]))),
                     prop("NI_Number_Of_Scales", 7, struct.pack("<L", 1))]
            objs.append(_s(chan_path(c)) + struct.pack("<L", 0xFFFFFFFF) + struct.pack("<L", len(props)) + b"".join(props))
    if not objs:
        return None
    meta = struct.pack("<L", len(objs)) + b"".join(objs)
    seg = b"TDSm" + struct.pack("<l", TOC_META) + struct.pack("<lQQ", 4713, len(meta), len(meta)) + meta
    Fs = dict(F)
    Fs["bytes"] = F["bytes"] + seg
    Fs["shape"] = list(F["shape"]) + ["scale-props0"]
    return Fs


def scaled_history(rng, Fs, fresh):
    """a history on the scaled variant: windows are read scaled and unscaled, and every integer index is followed,
    half of the time, by an UNSCALED one-value window at the same position (inside the chunk the index cached)"""
    ops = []
    for op in gen_history(rng, Fs, fresh):
        if op[0] == "read" and rng.random() < 0.5:
            op = ("readu",) + tuple(op[1:])
        ops.append(op)
        if op[0] == "idx" and rng.random() < 0.5:
            n = Fs["lengths"][op[1]]
            if -n <= op[2] < n:
                ops.append(("readu", op[1], op[2] % n, rng.choice([1, 1, 2])))
    return ops


# ---------------------------------------------------------------------------
# Model side: Coq terms

def coq_opt(x):
    return "None" if x is None else "(Some %d)" % x if x >= 0 else "(Some (%d))" % x


def cnum(x):
    return "%d" % x if x >= 0 else "(%d)" % x


def coq_op(op):
    k = op[0]
    if k == "idx":
        return "Index %d %s" % (op[1], cnum(op[2]))
    if k == "read":
        return "Read %d %s %s" % (op[1], cnum(op[2]), coq_opt(op[3]))
    if k == "slice":
        return "Slice %d %s %s %s" % (op[1], coq_opt(op[2]), coq_opt(op[3]), coq_opt(op[4]))
    if k == "cgen":
        return "NewChanGen %d %d" % (op[1], op[2])
    if k == "fgen":
        return "NewFileGen %d" % op[1]
    if k == "next":
        return "Next %d" % op[1]
    raise AssertionError(op)


def labels_of(F):
    """canonical value -> label (index in the channel), from a fresh full read"""
    res = {}
    with open_file(F) as tf:
        for c in F["chans"]:
            g, n = chan_names(c)
            try:
                vals = cvs(tf[g][n][:])
            except Exception:    # a tree on which even a plain full read fails: nothing can be labelled
                vals = []
            d = {}
            for j, v in enumerate(vals):
                d[v] = j
            res[c] = (d, len(vals), len(d))
    return res


def coq_vals(labels, c, vals):
    d = labels[c][0]
    return H.clist([cnum(d.get(tuple(v) if isinstance(v, list) else v, -7)) for v in vals])


def coq_out(labels, op, o):
    """observation -> Coq term of type out"""
    k = o[0]
    if k == "val":
        return "OVal %s" % cnum(labels[op[1]][0].get(o[1], -7))
    if k == "vals":
        return "OVals %s" % coq_vals(labels, op[1], o[1])
    if k == "err":
        return "OErr"
    if k == "unit":
        return "OUnit"
    if k == "stop":
        return "OStop"
    if k == "nogen":
        return "ONoGen"
    if k == "chunk":
        return "OChunk %s (Vals %s)" % (cnum(o[1]), coq_vals(labels, op, o[2]))
    if k == "fchunk":
        return "OFChunk %s" % H.clist(["(%d, (%s, Vals %s))" % (cid, cnum(off), coq_vals(labels, cid, vals))
                                       for cid, off, vals in o[1]])
    return "OGarbage"   # an exception class the model does not have: will disagree


def window_spec(n, op):
    full = list(range(n))
    if op[0] == "read":
        if op[2] < 0 or (op[3] is not None and op[3] < 0):
            return None
        return full[op[2]:] if op[3] is None else full[op[2]:op[2] + op[3]]
    if op[4] == 0:
        return None
    return full[slice(op[2], op[3], op[4])]


def has_gap(F, c):
    present = [any(o[0] == c for o in s["objs"]) for s in F["segs"]]
    idx = [i for i, p in enumerate(present) if p]
    return bool(idx) and not all(present[idx[0]:idx[-1] + 1])


D3_PRESENT = None


def d3_present():
    """Is defect D3 (C04: window spanning a segment without the channel) in the tree under test?
    Probe: channel 0 in segments 0 and 2 only, read_data(0, 3)."""
    global D3_PRESENT
    if D3_PRESENT is None:
        blob = b""
        for chans, nch in (([0], 1), ([1], 1), ([0], 3)):
            objs = [enc_obj(chan_path(c), (T_I32, 2)) for c in chans]
            data = b"".join(struct.pack("<i", v) for v in range(2 * nch * len(chans)))
            blob += enc_segment(TOC_META | TOC_NEWOBJ | TOC_RAW, objs, data)[0]
        try:
            bio = io.BytesIO(blob)
            with TdmsFile.open(bio) as tf:
                got = [int(v) for v in tf["g0"]["c0"].read_data(0, 3)]
                # the window needs the first chunk of segment 2 only; with D3 all three chunks are read
                D3_PRESENT = got != [0, 1, 0] or bio.tell() == len(blob)
        except Exception:
            D3_PRESENT = True
    return D3_PRESENT


def coq_case(F, labels, ops, outs, positions=None):
    """(term, number of outputs left uncompared because of defect D3)"""
    obs = []
    skipped = 0
    gen_of = {}
    if positions is None:
        positions = [None] * len(ops)
    pos_terms = []
    tainted = None
    for op, p in zip(ops, positions):
        if p is not None and op[0] in ("read", "slice") and has_gap(F, op[1]) and d3_present():
            # D3 changes which chunks such a window reads, hence where it leaves the stream; the
            # position stays uncompared until some later operation moves the stream again
            tainted = p
            pos_terms.append("None")
        elif p is None or p == tainted:
            pos_terms.append("None")     # stream untouched since open / since the tainted window
        else:
            tainted = None
            pos_terms.append("(Some %d)" % p)
    for op, o in zip(ops, outs):
        if op[0] == "cgen":
            gen_of[op[2]] = op[1]
        key = op
        if op[0] == "next":
            key = gen_of.get(op[1])
        if op[0] in ("read", "slice") and o[0] == "vals" and has_gap(F, op[1]):
            spec = window_spec(F["lengths"][op[1]], op)
            got = [labels[op[1]][0].get(v, -7) for v in o[1]]
            if spec is not None and got != spec:
                # defect D3 (window spanning a segment without the channel): C04's finding, same on
                # a fresh file, so not a C05 failure; the model uses the specification of the window
                obs.append("None")
                skipped += 1
                continue
        if op[0] in ("read", "slice") and o[0] in ("err", "exc") and has_gap(F, op[1]) \
                and window_spec(F["lengths"][op[1]], op) is not None:
            obs.append("None")
            skipped += 1
            continue
        obs.append("(Some (%s))" % coq_out(labels, key, o))
    coq_case.positions_compared = sum(1 for t in pos_terms if t != "None")
    return "(%s, %s, %s, %s)" % (coq_file(F), H.clist([coq_op(op) for op in ops]), H.clist(obs),
                                 H.clist(pos_terms)), skipped


# ---------------------------------------------------------------------------
# One file's worth of work (runs in a worker process)

def classify(ops, i):
    op = ops[i]
    if op[0] == "next":
        kinds = {}
        for o in ops[:i]:
            if o[0] == "cgen":
                kinds[o[2]] = "c"
            elif o[0] == "fgen":
                kinds[o[1]] = "f"
        if kinds.get(op[1]) == "f":
            return "d4-file-chunks-position"
        return "channel-chunks-position"
    if op[0] == "idx":
        return "index-after-history"
    return "window-after-history"


def nontrivial(ops):
    """some generator receives next() calls with other operations in between, and indexing occurs"""
    if not any(op[0] == "idx" for op in ops):
        return False
    pos = {}
    for k, op in enumerate(ops):
        if op[0] == "next":
            pos.setdefault(op[1], []).append(k)
    return any(p[-1] - p[0] >= len(p) for p in pos.values())


def work(args):
    try:
        return work1(args)
    except Exception as e:     # never lose a worker: the parent reports it
        import traceback
        return {"crash": "%s: %s" % (type(e).__name__, e), "trace": traceback.format_exc()[-1500:], "fidx": args[1]}


def work1(args):
    seed, fidx, nhist = args
    rng = random.Random("%d/%d" % (seed, fidx))
    F = gen_file_many(rng) if fidx % 50 == 7 else gen_file(rng)
    fresh = Fresh(F)
    labels = labels_of(F)
    res = {"fidx": fidx, "shape": F["shape"], "types": [TYPE_NAMES[t] for t in F["types"]],
           "cases": [], "fails": [], "nontrivial": 0, "positions": 0, "ops": 0, "dist": {}, "d3_skipped": 0,
           "label_clash": any(n != d for _, n, d in labels.values()),
           "unlabelled": [c for c in F["chans"] if labels[c][1] != F["lengths"][c]],
           "zero_length_channel": any(F["lengths"][c] == 0 for c in F["chans"])}
    for h in range(nhist):
        ops = gen_history(rng, F, fresh)
        positions = []
        i, outs = first_diff(F, fresh, ops, positions)
        res["ops"] += len(ops)
        for op in ops:
            res["dist"][op[0]] = res["dist"].get(op[0], 0) + 1
        if nontrivial(ops):
            res["nontrivial"] += 1
        live, most = set(), 0
        for op in ops:
            if op[0] in ("cgen", "fgen"):
                live.add(op[-1])
                most = max(most, len(live))
        key = "histories_with_%s_generators" % ("5plus" if most >= 5 else str(most))
        res["dist"][key] = res["dist"].get(key, 0) + 1
        if i is not None:
            res["fails"].append({"hist": h, "ops": ops, "at": i, "key": classify(ops, i)})
        else:
            term, sk = coq_case(F, labels, ops, outs, positions)
            res["d3_skipped"] += sk
            res["positions"] += coq_case.positions_compared
            res["cases"].append((h, term, ops))
    res["scaled_fails"], res["scaled_histories"] = [], 0
    if fidx % 3 == 1 and len(F["shape"]) < 100:
        Fs = scaled_variant(F, rng)
        if Fs is not None:
            fresh_s = Fresh(Fs)
            for h in range(2):
                ops = scaled_history(rng, Fs, fresh_s)
                res["scaled_histories"] += 1
                i, outs = first_diff(Fs, fresh_s, ops)
                if i is not None:
                    res["scaled_fails"].append({"ops": ops, "at": i, "bytes": Fs["bytes"], "shape": Fs["shape"],
                                                "got": outs[i], "want": fresh_s.of(annotate(ops)[i])})
    res["F"] = {k: F[k] for k in ("bytes", "types", "chans", "segs", "lengths", "raw_ts", "shape")}
    res["fresh_opens"] = fresh.opens
    return res


def case_payload(F, ops):
    return {"file_hex": F["bytes"].hex(), "raw_timestamps": F["raw_ts"], "ops": [list(o) for o in ops],
            "abstract": {k: F[k] for k in ("types", "chans", "segs", "lengths", "shape")}}


def report_failure(run, F, ops, shrunk=True, witness=False):
    fresh = Fresh(F)
    extra = {}
    if witness:
        # Props/C05.v history_refuted uses exactly this file and history: does step_asis
        # predict what the implementation under test does on it?
        pos_full = []
        outs_full = run_history(F, ops, pos_full)
        term_full, _ = coq_case(F, labels_of(F), ops, outs_full, pos_full)
        bad_w, e_w = H.run_sharded(run.pid, IMPORTS, CASE_TYPE, "check_case_asis", [term_full], tag="witness_asis")
        extra["history_refuted_witness_reproduced_by_step_asis"] = not bad_w and not e_w
        extra["implementation_outputs_on_witness"] = outs_full
    if shrunk:
        ops = shrink(F, fresh, ops)
    positions = []
    i, outs = first_diff(F, fresh, ops, positions)
    if i is None:
        return False
    key = classify(ops, i)
    exp = fresh.of(annotate(ops)[i])
    what = ("history of %d ops on one open file: op #%d %r yields %r, on a freshly opened file %r (file shape %s)"
            % (len(ops), i, ops[i], outs[i], exp, "|".join(F["shape"])))
    labels = labels_of(F)
    term, _ = coq_case(F, labels, ops, outs, positions)
    bad_fixed, e1 = H.run_sharded(run.pid, IMPORTS, CASE_TYPE, "check_case", [term], tag="viol_fixed")
    bad_asis, e2 = H.run_sharded(run.pid, IMPORTS, CASE_TYPE, "check_case_asis", [term], tag="viol_asis")
    model = {"agrees_with_repaired_model(step)": not bad_fixed and not e1,
             "agrees_with_as_is_model(step_asis)": not bad_asis and not e2}
    model.update(extra)
    run.violation(key, what, case_payload(F, ops), expected=exp, actual=outs[i], model=model)
    return True


def restore_F(d):
    F = dict(d)
    F["segs"] = [dict(s, objs=[tuple(o) for o in s["objs"]]) for s in F["segs"]]
    return F


def replay(run, case):
    F = dict(case["abstract"])
    F["bytes"] = bytes.fromhex(case["file_hex"])
    F["raw_ts"] = case["raw_timestamps"]
    F = restore_F(F)
    ops = [tuple(o) for o in case["ops"]]
    run.cov["evaluations"] += 1
    if case.get("scaled"):
        # scaled variant: direct oracle only (same history on a fresh file)
        fresh = Fresh(F)
        i, outs = first_diff(F, fresh, ops)
        if i is not None:
            run.violation("history-scaled-" + ops[i][0], "scaled channel: op #%d %r yields %r, on a freshly opened file %r"
                          % (i, ops[i], outs[i], fresh.of(annotate(ops)[i])), case, expected=fresh.of(annotate(ops)[i]),
                          actual=outs[i])
        return
    if not report_failure(run, F, ops, shrunk=False):
        fresh = Fresh(F)
        labels = labels_of(F)
        positions = []
        _, outs = first_diff(F, fresh, ops, positions)
        term, _ = coq_case(F, labels, ops, outs, positions)
        bad, errors = H.run_sharded(run.pid, IMPORTS, CASE_TYPE, "check_case", [term], tag="replay")
        run.corr_errors(errors)
        if bad:
            run.violation("corr-history", "model and implementation disagree on the replayed history",
                          case_payload(F, ops), kind="correspondence-broken",
                          theorem="Model.IoPlan.run vs TdmsFile", actual=outs, no_input=True)
        else:
            run.cov["traces_validated_against_impl"] += 1


# D4 witness of DESIGN.md section 9 (kept as a fixed first case)
def d4_witness():
    data = b"".join(struct.pack("<i", v) for v in (1, 2, 10, 20, 3, 4, 30, 40, 5, 6, 50, 60))
    objs = [enc_obj(chan_path(0), (T_I32, 2)), enc_obj(chan_path(1), (T_I32, 2))]
    blob, meta_end = enc_segment(TOC_META | TOC_NEWOBJ | TOC_RAW, objs, data)
    F = {"bytes": blob, "types": [T_I32, T_I32], "chans": [0, 1], "lengths": [6, 6], "raw_ts": False,
         "shape": ["d4-witness"],
         "segs": [{"pos": 0, "data_pos": meta_end, "raw": True, "il": False, "objs": [(0, 2, 8), (1, 2, 8)],
                   "chunks": [[[0, 1], [0, 1]], [[2, 3], [2, 3]], [[4, 5], [4, 5]]]}]}
    ops = [("fgen", 0), ("next", 0), ("idx", 0, 0), ("idx", 1, 5), ("next", 0), ("idx", 0, 0), ("idx", 1, 5),
           ("next", 0), ("next", 0)]
    return F, ops


def main():
    run = H.Run("C05")
    run.prove()
    if run.replay:
        replay(run, json.load(open(run.replay))["case"])
        run.finish()
    nfiles, nhist = run.pick((250, 4), (2500, 8))
    run.assumptions = [
        "single-threaded histories only (as the property says)",
        "the OS file position is one integer; reads return the block laid out at that position",
        "values are labels: the model moves them, decoding is C01's subject (labels are recovered from a fresh "
        "full read of each channel)",
        "the stream position is compared with the model's after every operation whenever the model's position "
        "lies in the raw data of a segment (not after a D3-exposed window while D3 is unfixed)",
        "window reads use the specification 'values of the window' in the model; windows spanning a segment in "
        "which the channel is absent are compared against the fresh file only while defect D3 is unfixed",
        "files: 1-4 segments, 2-3 channels of int32/float64/string/timestamp, 1-4 chunks, contiguous and "
        "interleaved, incremental metadata, segments without metadata or without raw data; one file in 4 has an extra "
        "channel that never gets data (zero length, no data type); 3 files in 10 mix big- and little-endian segments; one file in "
        "50 has 104-124 segments with two channels whose per-segment counts agree for the first 101+ segments",
        "the abstract file handed to the model is recomputed inside Coq from the file bytes (Model/IoBytes.v) and must "
        "be well-formed, regular and isomorphic to the generator's description (labels: one-to-one per channel)"]
    # fixed first case: the D4 witness
    Fw, ops_w = d4_witness()
    fresh_w = Fresh(Fw)
    run.cov["evaluations"] += 1
    run.count("d4_witness")
    witness_cases = []
    pos_w = []
    i, outs = first_diff(Fw, fresh_w, ops_w, pos_w)
    if i is not None:
        report_failure(run, Fw, ops_w, witness=True)
    else:
        witness_cases.append(coq_case(Fw, labels_of(Fw), ops_w, outs, pos_w)[0])
    # random files x histories
    jobs = [(run.seed, k, nhist) for k in range(nfiles)]
    with multiprocessing.get_context("fork").Pool(H.NCPU) as pool:
        results = pool.map(work, jobs, chunksize=max(1, nfiles // (H.NCPU * 8)))
    cases, meta = list(witness_cases), [(Fw, ops_w)] * len(witness_cases)
    nfail = 0
    reported = {}
    for r in results:
        if "crash" in r:
            run.violation("harness-crash", "the harness could not process generated file #%d: %s"
                          % (r["fidx"], r["crash"]), {"file_index": r["fidx"], "trace": r["trace"]},
                          kind="correspondence-broken", theorem="harness", no_input=True)
            continue
        F = restore_F(r["F"])
        run.cov["evaluations"] += len(r["cases"]) + len(r["fails"])
        run.cov["distinct_nontrivial"] += r["nontrivial"]
        run.count("files")
        run.count("histories", len(r["cases"]) + len(r["fails"]))
        run.count("ops_total", r["ops"])
        run.count("fresh_opens", r["fresh_opens"])
        run.count("window_outputs_not_compared_with_model_D3", r["d3_skipped"])
        run.count("stream_positions_compared_with_model", r["positions"])
        for k, v in r["dist"].items():
            run.count(k if k.startswith("histories_") else "op_" + k, v)
        if len(r["shape"]) > 100:
            run.count("files_with_more_than_100_segments")
        if r["zero_length_channel"]:
            run.count("files_with_a_zero_length_untyped_channel")
        for sh in r["shape"]:
            run.count("segment_" + sh.rstrip("01234"))
        for t in r["types"]:
            run.count("channel_" + t)
        if r["unlabelled"]:
            run.count("channels_whose_fresh_full_read_failed", len(r["unlabelled"]))
        if r["label_clash"]:
            run.violation("harness-labels", "generated values of a channel are not distinct after reading",
                          {"file_hex": F["bytes"].hex()}, kind="correspondence-broken",
                          theorem="harness value labelling", no_input=True)
        run.count("histories_on_scaled_variants", r.get("scaled_histories", 0))
        run.cov["evaluations"] += r.get("scaled_histories", 0)
        for fl in r.get("scaled_fails", [])[:1]:
            nfail += 1
            if reported.get("scaled", 0) < 2:
                reported["scaled"] = reported.get("scaled", 0) + 1
                Fs = dict(F, bytes=fl["bytes"], shape=fl["shape"])
                ops = shrink(Fs, Fresh(Fs), fl["ops"])
                i, outs = first_diff(Fs, Fresh(Fs), ops)
                if i is not None:
                    run.violation("history-scaled-" + ops[i][0],
                                  "scaled channel, history of %d ops on one open file: op #%d %r yields %r, on a freshly "
                                  "opened file %r" % (len(ops), i, ops[i], outs[i], Fresh(Fs).of(annotate(ops)[i])),
                                  dict(case_payload(Fs, ops), scaled=True), expected=Fresh(Fs).of(annotate(ops)[i]),
                                  actual=outs[i])
        for fl in r["fails"]:
            nfail += 1
            if reported.get(fl["key"], 0) < 2:
                reported[fl["key"]] = reported.get(fl["key"], 0) + 1
                report_failure(run, F, fl["ops"])
        for h, term, ops in r["cases"]:
            cases.append(term)
            meta.append((F, ops))
        if len(run.cov["samples"]) < 3 and r["cases"]:
            run.sample({"file_shape": r["shape"], "types": r["types"], "raw_timestamps": F["raw_ts"],
                        "history": [list(o) for o in r["cases"][0][2]][:25]})
    run.count("histories_failing_direct_oracle", nfail)
    # the generator's abstract files against the ones Coq computes from the bytes
    iof_files = [Fw] + [restore_F(r["F"]) for r in results if "crash" not in r]
    iof_files = iof_files[:run.pick(len(iof_files), 800)]
    bad_f, errors_f = H.run_sharded(run.pid, IOB_IMPORTS, IOB_CASE_TYPE, "check_iofile",
                                    [coq_iofile_case(F) for F in iof_files], shard=run.pick(20, 40), tag="iofile")
    run.corr_errors(errors_f)
    run.count("abstract_files_recomputed_from_bytes_in_coq", len(iof_files))
    run.count("abstract_files_agreeing_with_generator", len(iof_files) - len(bad_f))
    for i in bad_f[:3]:
        F = iof_files[i]
        rc, out = H.coq_print_terms(run.pid, IOB_IMPORTS,
                                    ["iofile_of_bytes %s" % H.chex(F["bytes"]), "wf_file %s" % coq_file(F)],
                                    tag="showiof%d" % i)
        run.violation("corr-iofile", "the abstract file computed in Coq from the bytes (Model.IoBytes.iofile_with) is "
                      "not well-formed / regular / isomorphic to the generator's description (file shape %s)"
                      % "|".join(F["shape"]), {"file_hex": F["bytes"].hex(),
                                               "abstract": {k: F[k] for k in ("types", "chans", "segs", "shape")}},
                      kind="correspondence-broken", theorem="Model.IoBytes.check_iofile", model=out[-3000:],
                      no_input=True)
    # correspondence with the model, inside Coq
    bad, errors = H.run_sharded(run.pid, IMPORTS, CASE_TYPE, "check_case", cases,
                                shard=run.pick(40, 160), tag="hist")
    run.corr_errors(errors)
    run.cov["traces_validated_against_impl"] += len(cases) - len(bad)
    for i in bad[:3]:
        F, ops = meta[i]
        pos_i = []
        outs = run_history(F, ops, pos_i)
        rc, out = H.coq_print_terms(run.pid, IMPORTS,
                                    ["wf_file %s" % coq_file(F),
                                     "snd (run %s init %s)" % (coq_file(F), H.clist([coq_op(o) for o in ops])),
                                     "pos_trace true %s init %s" % (coq_file(F), H.clist([coq_op(o) for o in ops]))],
                                    tag="show%d" % i)
        run.violation("corr-history", "model (Model.IoPlan.run) and implementation disagree on a history that "
                      "satisfies the fresh-file oracle (file shape %s)" % "|".join(F["shape"]),
                      case_payload(F, ops), kind="correspondence-broken",
                      theorem="Model.IoPlan.run vs TdmsFile", actual={"outputs": outs, "positions": pos_i},
                      model=out[-3000:], no_input=True)
    run.notes.append("defect D3 present in the tree under test: %s" % d3_present())
    run.cov["rule"] = ("one evaluation = one history (20-60 random ops + draining every live generator) run on "
                       "one open file, every output compared with a fresh file and with the model; "
                       "non-trivial = a history in which next() calls on a generator are interleaved with other "
                       "operations (other generators, index, window reads) and integer indexing occurs")
    run.finish()


if __name__ == "__main__":
    main()
