"""parse_tie - the strict stream parser Model/FileParse.v (parse_file) against the code.

Props/C01_bytes.v proves  parse_file b = Some segs <-> b = ser_file segs /\\ wf_file segs  and restates the
whole-file theorems for arbitrary byte streams b with the hypothesis  parse_file b = Some segs.  This script
ties parse_file to the Python side, so that "well-formed TDMS byte stream" is exercised rather than trusted:

 (a) generated well-formed files (tdmsgen.gen_file with the parameter mixture of harness/c01.py, plus the
     DAQmx files of harness/c11.py): the bytes are written by the INDEPENDENT Python encoder
     tdmsgen.ser_file; parse_file is evaluated inside Coq on those bytes and its result is compared with
     the generator's own syntax (printed with spec_tie.c_segs).  A negative control perturbs the syntax
     of the first files (version + 1 / a data byte / a count) and requires the comparison to FAIL there,
     so a vacuous equality test would be noticed.
 (b) single-fault mutants of such files (the random byte-level faults of c01.mutate plus structured
     faults aimed at the boundary of the parser's domain: slack before the raw data, trailing bytes, the
     length-unknown marker, a raw data offset without metadata flag, a flipped data / property byte, an
     unknown ToC bit, another version): WHENEVER parse_file b = Some segs, (1) ser_file segs = b
     (parse_file_sound, re-checked by evaluation) and (2) the reader model rd_all and TdmsFile.read agree
     on b (Reader.agree_all - the comparison of ./check C01).  Statistics: how many mutants of each
     kind still parse, and what the reader does with the ones that do not.  Mutants are drawn from the
     non-DAQmx files (option --daqmx-mutants adds the DAQmx ones; see tie()).
     Not compared (counted): observations containing U+FFFD (invalid UTF-8 decoded with replacement) and
     NumPy allocation failures, as in harness/c01.py; OverflowError "out of bounds for int32" (DAQmx buffer
     arithmetic in NumPy fixed-width integers on a corrupted 64-bit count; the model computes in Z).  The
     EMPTY stream (a cut at offset 0) is read by PATH: TdmsFile.read(stream) sniffs the first four bytes to
     tell data from index streams and raises on an empty one, TdmsFile.read(path) returns an empty file, as
     the reader model does and as parse_file [] = Some [] says.

Use from a check (documented call, harness/c01.py is not edited here):

    import parse_tie
    parse_tie.parse_tie(run, spec_files)      # after spec_tie(run, spec_files) in c01.main

which records disagreements as run.violation(..., kind="correspondence-broken") and the statistics with
run.count("parse_tie_*").

Stand-alone:  python3 harness/parse_tie.py [--n N] [--mutants M] [--daqmx D] [--seed S]   exit 0 iff no disagreement
"""
import argparse
import copy
import os
import random
import struct
import sys
import time

sys.path.insert(0, os.path.dirname(os.path.abspath(__file__)))
import common as H

H.ensure_env()
import tdmsgen as G          # noqa: E402
import readerlib as R        # noqa: E402
import spec_tie as T         # noqa: E402   (c_segs, type_focus_params)

G.silence_logs()

PID = "PARSETIE"
IMPORTS = ("From NpTdms Require Import Base.Bytes Base.Res Model.ByteStr Model.Tokens Model.SegState "
           "Model.Layout Model.Reader Model.FileSyn Model.FileParse.\nOpen Scope Z_scope.\n")

EXTRA_DEFS = """
Fixpoint list_eqb {A} (f : A -> A -> bool) (a b : list A) : bool :=
  match a, b with
  | [], [] => true
  | x :: a', y :: b' => f x y && list_eqb f a' b'
  | _, _ => false
  end.
Definition opt_eqb {A} (f : A -> A -> bool) (a b : option A) : bool :=
  match a, b with None, None => true | Some x, Some y => f x y | _, _ => false end.
Definition prop_eqb (p q : prop) : bool :=
  bytes_eqb (p_name p) (p_name q) && (p_type p =? p_type q) && bytes_eqb (p_val p) (p_val q).
Definition scaler_eqb (a b : scaler) : bool :=
  (sc_type a =? sc_type b) && (sc_buf a =? sc_buf b) && (sc_off a =? sc_off b) &&
  (sc_fmt a =? sc_fmt b) && (sc_id a =? sc_id b).
Definition idx_eqb (a b : idx) : bool :=
  match a, b with
  | INoData, INoData => true
  | IMatchPrev, IMatchPrev => true
  | IFull l1 d1 m1 n1 t1, IFull l2 d2 m2 n2 t2 =>
    (l1 =? l2) && (d1 =? d2) && (m1 =? m2) && (n1 =? n2) && opt_eqb Z.eqb t1 t2
  | IDaqmx k1 d1 m1 n1 s1 w1, IDaqmx k2 d2 m2 n2 s2 w2 =>
    (k1 =? k2) && (d1 =? d2) && (m1 =? m2) && (n1 =? n2) && list_eqb scaler_eqb s1 s2 && list_eqb Z.eqb w1 w2
  | _, _ => false
  end.
Definition entry_eqb (a b : entry) : bool :=
  bytes_eqb (e_path a) (e_path b) && idx_eqb (e_idx a) (e_idx b) && list_eqb prop_eqb (e_props a) (e_props b).
Definition fseg_eqb (a b : fseg) : bool :=
  (fs_toc a =? fs_toc b) && (fs_version a =? fs_version b) &&
  opt_eqb (list_eqb entry_eqb) (fs_meta a) (fs_meta b) && bytes_eqb (fs_data a) (fs_data b).

(* (a)  0: parse_file rejects; 1: accepts with another syntax; 2: accepts with exactly the given syntax *)
Definition wf_code (c : list fseg * bytes) : Z :=
  match parse_file (snd c) with
  | None => 0
  | Some segs => if list_eqb fseg_eqb segs (fst c) then 2 else 1
  end.

(* (b)  0: parse_file rejects (then +4 if rd_all raises);
        16 + 1 (ser_file segs <> b) + 2 (agree_all false) + 4 (rd_all raises) + 8 (rd_all Ok, flag false) *)
Definition mut_code (c : bytes * option (list tok)) : Z :=
  let b := fst c in
  let r := rd_all b in
  let e := match r with Err _ => 4 | Ok (_, true) => 0 | Ok (_, false) => 8 end in
  match parse_file b with
  | None => match r with Err _ => 4 | Ok _ => 0 end
  | Some segs =>
    16 + (if bytes_eqb (ser_file segs) b then 0 else 1) + (if agree_all b (snd c) then 0 else 2) + e
  end.
"""


# ---------------------------------------------------------------------------
# evaluation of an integer code per case inside Coq

def coq_codes(pid, case_type, fn, cases, tag, shard=None, timeout=1200):
    """-> (list of codes parallel to cases (None where Coq failed), errors)"""
    if not cases:
        return [], []
    shard = shard or max(1, -(-len(cases) // H.NCPU))
    files, offs = [], []
    for k in range(0, len(cases), shard):
        text = "\n".join([H.CASE_HEADER, IMPORTS, EXTRA_DEFS,
                          "Definition cases : list (%s) := [" % case_type,
                          ";\n".join(cases[k:k + shard]), "].",
                          "Eval vm_compute in map %s cases." % fn]) + "\n"
        files.append(("%s_%04d" % (tag, k // shard), text))
        offs.append(k)
    results = H.coq_eval_files(pid, files, timeout)
    codes = [None] * len(cases)
    errors = []
    for (name, rc, out), off in zip(results, offs):
        n = min(shard, len(cases) - off)
        lists = H.parse_eval_list(out) if rc == 0 else []
        if rc != 0 or len(lists) != 1 or len(lists[0]) != n:
            errors.append((name, out[-2500:]))
            continue
        codes[off:off + n] = lists[0]
    return codes, errors


# ---------------------------------------------------------------------------
# files

def daqmx_files(rng, n):
    if n <= 0:
        return []
    import c11
    return [c11.build(rng)[3] for _ in range(n)]


def perturb(rng, segs):
    """a syntax that differs from segs in exactly one place (negative control)"""
    segs = copy.deepcopy(segs)
    s = rng.choice(segs)
    k = rng.random()
    if k < 0.3:
        s.version = s.version + 1 if s.version < 2 ** 31 - 1 else 0
        return segs, "version"
    if k < 0.6 and s.data:
        i = rng.randrange(len(s.data))
        s.data = s.data[:i] + bytes([s.data[i] ^ 1]) + s.data[i + 1:]
        return segs, "data byte"
    ents = [x for t in segs for x in (t.entries or [])]
    full = [x for x in ents if isinstance(x.idx, tuple)]
    if full:
        x = rng.choice(full)
        x.idx = x.idx[:4] + (x.idx[4] + 1,) + x.idx[5:]
        return segs, "count"
    if ents:
        x = rng.choice(ents)
        x.path = x.path + b"x"
        return segs, "path"
    s.toc ^= 1 << 20
    return segs, "toc"


# ---------------------------------------------------------------------------
# mutants

def mutate_bytes(rng, data):
    """the byte-level single faults of harness/c01.py (mutate)"""
    b = bytearray(data)
    k = rng.random()
    if k < 0.35 and len(b) > 8:
        i = rng.randrange(4, len(b))
        b[i] = rng.randrange(256)
        return bytes(b), "byte"
    if k < 0.55 and len(b) > 30:
        i = rng.randrange(4, len(b))
        del b[i:i + rng.choice([1, 2, 4, 8])]
        return bytes(b), "delete"
    if k < 0.7:
        i = rng.randrange(4, len(b) + 1)
        b[i:i] = bytes(rng.randrange(256) for _ in range(rng.choice([1, 4, 8])))
        return bytes(b), "insert"
    if k < 0.85 and len(b) > 40:
        i = rng.randrange(4, len(b) - 4)
        b[i:i + 4] = rng.choice([b"\x00\x00\x00\x00", b"\xff\xff\xff\xff", b"\x01\x00\x00\x00", b"\x00\x00\x00\x80"])
        return bytes(b), "field"
    return bytes(b[:rng.randrange(4, len(b) + 1)]), "truncate"


STRUCTURED = ["slack", "trailing", "unknown_next", "raw_without_meta", "data_byte", "meta_byte", "toc_bit",
              "version", "boundary_cut"]


def mutate_structured(rng, segs, kind):
    """one fault placed with knowledge of the segment layout -> bytes or None (no place for it)"""
    parts = [G.ser_seg(s) for s in segs]
    si = rng.randrange(len(segs))
    s = segs[si]
    e = s.e
    p = parts[si]
    meta_len = struct.unpack(e + "Q", p[20:28])[0]

    def lead(nxt, raw, toc=None, version=None):
        t = struct.unpack("<L", p[4:8])[0] if toc is None else toc
        v = struct.unpack(e + "l", p[8:12])[0] if version is None else version
        return p[:4] + struct.pack("<L", t) + struct.pack(e + "lQQ", v, nxt, raw)

    def join(newp):
        return b"".join(parts[:si]) + newp + b"".join(parts[si + 1:])

    nxt = len(p) - 28
    if kind == "slack":
        if s.entries is None:
            return None
        k = rng.choice([1, 1, 4, 8])
        return join(lead(nxt + k, meta_len + k) + p[28:28 + meta_len] + bytes(rng.randrange(256) for _ in range(k))
                    + p[28 + meta_len:])
    if kind == "trailing":
        return b"".join(parts) + bytes(rng.randrange(256) for _ in range(rng.randint(1, 27)))
    if kind == "unknown_next":
        q = parts[-1]
        e2 = segs[-1].e
        return b"".join(parts[:-1]) + q[:12] + struct.pack(e2 + "Q", G.UNKNOWN) + q[20:]
    if kind == "raw_without_meta":
        if s.entries is not None or len(s.data) < 1:
            return None
        k = rng.randint(1, len(s.data))
        return join(lead(nxt, k) + p[28:])
    if kind == "data_byte":
        if not s.data:
            return None
        i = 28 + meta_len + rng.randrange(len(s.data))
        return join(p[:i] + bytes([p[i] ^ (1 << rng.randrange(8))]) + p[i + 1:])
    if kind == "meta_byte":
        if meta_len == 0:
            return None
        i = 28 + rng.randrange(meta_len)
        return join(p[:i] + bytes([p[i] ^ (1 << rng.randrange(8))]) + p[i + 1:])
    if kind == "toc_bit":
        t = struct.unpack("<L", p[4:8])[0] ^ (1 << rng.choice([0, 4, 8, 9, 10, 16, 31]))
        return join(lead(nxt, meta_len, toc=t) + p[28:])
    if kind == "version":
        return join(lead(nxt, meta_len, version=rng.choice([0, 1, -1, 4712, 4713, 2 ** 31 - 1, -2 ** 31])) + p[28:])
    if kind == "boundary_cut":
        return b"".join(parts[:rng.randrange(len(parts) + 1)])
    raise ValueError(kind)


def make_mutants(rng, files, m):
    """-> list of dicts {data, kind}; half byte-level, half structured"""
    out = []
    tries = 0
    while len(out) < m and tries < 20 * m + 100:
        tries += 1
        segs = rng.choice(files)
        if rng.random() < 0.5:
            data, kind = mutate_bytes(rng, G.ser_file(segs))
        else:
            kind = rng.choice(STRUCTURED)
            data = mutate_structured(rng, segs, kind)
            if data is None:
                continue
        out.append({"data": data, "kind": kind})
    return out


def read_by_path(data):
    """TdmsFile.read(path): no tag sniffing (TdmsReader.__init__ sniffs the first 4 bytes of a STREAM to tell a
    data stream from an index stream and raises ValueError on anything else, the empty stream included; given a
    path it does not).  The reader model follows the path behaviour, so streams shorter than a tag are read by
    path here."""
    import tempfile
    import warnings
    from nptdms import TdmsFile
    d = tempfile.mkdtemp(prefix="parse_tie_")
    p = os.path.join(d, "f.tdms")
    try:
        with open(p, "wb") as f:
            f.write(data)
        with warnings.catch_warnings():
            warnings.simplefilter("ignore")
            return G.observe_file(TdmsFile.read(p, raw_timestamps=True)), None
    except Exception as ex:      # noqa: BLE001
        return None, ex
    finally:
        if os.path.exists(p):
            os.remove(p)
        os.rmdir(d)


def observe(mut):
    """implementation's observation; -> a reason (str) when the case is not comparable (as in harness/c01.py)"""
    impl, ex = G.read_eager(mut["data"]) if len(mut["data"]) >= 4 else read_by_path(mut["data"])
    if impl is not None and any(k == "B" and b"\xef\xbf\xbd" in v for k, v in impl):
        return "utf8"
    if isinstance(ex, MemoryError) or (ex is not None and any(
            s in str(ex) for s in ("Maximum allowed dimension", "array is too big", "negative dimensions",
                                   "too large", "cannot fit"))):
        return "memoryerror"
    if isinstance(ex, OverflowError) and "out of bounds for" in str(ex):
        # DAQmx buffer arithmetic is done in NumPy fixed-width integers (count * width with an int32 width):
        # a corrupted 64-bit count overflows there; the model computes in Z.  Resource-like, not compared.
        return "numpy_int_overflow"
    mut["impl"], mut["ex"] = impl, R.exc_kind(ex)
    return None


# ---------------------------------------------------------------------------
# the tie

def has_daqmx(segs):
    return any(isinstance(x.idx, tuple) and x.idx[0] == "daqmx" for s in segs for x in (s.entries or []))


def tie(pid, rng, files, n_mutants, n_control=24, mutate_daqmx=False):
    """-> result dict (see keys below); pure: reports nothing itself.
    Mutants are drawn from the non-DAQmx files unless mutate_daqmx: the reader model is not claimed for MALFORMED
    DAQmx segments (./check C11 has no malformed stream), and two NumPy behaviours show there that the model does
    not follow - a raw buffer width of 0 (reshape(-1, 0) raises ValueError, the model reads empty columns) and
    count * width overflowing int32."""
    res = {"errors": [], "wf_bad": [], "control_bad": [], "mut_bad": [], "stats": {}, "kinds": {}}
    # (a) well-formed files
    datas = [G.ser_file(segs) for segs in files]
    cases = ["(%s, %s)" % (T.c_segs(segs), H.chex(d)) for segs, d in zip(files, datas)]
    codes, errs = coq_codes(pid, "list fseg * bytes", "wf_code", cases, "parse_wf")
    res["errors"] += errs
    for i, c in enumerate(codes):
        if c is not None and c != 2:
            res["wf_bad"].append({"index": i, "code": c, "data": datas[i], "segs": files[i]})
    res["stats"]["wf_files"] = len(files)
    res["stats"]["wf_parsed_to_generator_syntax"] = sum(1 for c in codes if c == 2)
    res["stats"]["wf_bytes"] = sum(len(d) for d in datas)
    res["stats"]["wf_daqmx_files"] = sum(1 for segs in files if has_daqmx(segs))
    res["stats"]["wf_big_endian_segments"] = sum(1 for segs in files for s in segs if s.e == ">")
    res["stats"]["wf_segments"] = sum(len(segs) for segs in files)
    # negative control: a syntax differing in one place must NOT compare equal
    ctl = []
    for segs, d in list(zip(files, datas))[:n_control]:
        other, what = perturb(rng, segs)
        ctl.append(("(%s, %s)" % (T.c_segs(other), H.chex(d)), what))
    ccodes, errs = coq_codes(pid, "list fseg * bytes", "wf_code", [c for c, _ in ctl], "parse_ctl")
    res["errors"] += errs
    for i, c in enumerate(ccodes):
        if c is not None and c != 1:
            res["control_bad"].append({"index": i, "code": c, "what": ctl[i][1]})
    res["stats"]["control_cases"] = len(ctl)
    # (b) mutants
    muts = []
    sources = files if mutate_daqmx else [segs for segs in files if not has_daqmx(segs)]
    for m in (make_mutants(rng, sources, n_mutants) if sources else []):
        why = observe(m)
        if why is None:
            muts.append(m)
        else:
            res["stats"]["mutants_skipped_" + why] = res["stats"].get("mutants_skipped_" + why, 0) + 1
    mcases = [R.case_all(m["data"], m["impl"]) for m in muts]
    mcodes, errs = coq_codes(pid, "bytes * option (list tok)", "mut_code", mcases, "parse_mut")
    res["errors"] += errs
    for m, c in zip(muts, mcodes):
        k = res["kinds"].setdefault(m["kind"], {"n": 0, "parse": 0, "parse_read_ok": 0, "parse_read_raises": 0,
                                                "parse_flag_false": 0, "reject_reader_accepts": 0,
                                                "reject_reader_raises": 0, "unchanged": 0})
        if c is None:
            continue
        k["n"] += 1
        m["code"] = c
        if c >= 16:
            k["parse"] += 1
            f = c - 16
            if f & 3:
                res["mut_bad"].append(m)
            if f & 4:
                k["parse_read_raises"] += 1
            elif f & 8:
                k["parse_flag_false"] += 1
            else:
                k["parse_read_ok"] += 1
        elif c & 4:
            k["reject_reader_raises"] += 1
        else:
            k["reject_reader_accepts"] += 1
    res["stats"]["mutants"] = sum(k["n"] for k in res["kinds"].values())
    res["stats"]["mutants_parse"] = sum(k["parse"] for k in res["kinds"].values())
    res["stats"]["mutants_parse_compared_with_impl"] = sum(
        k["parse_read_ok"] + k["parse_read_raises"] for k in res["kinds"].values())
    return res


def parse_tie(run, files, daqmx=None):
    """Called from a check: files = the generated syntax of the run (list of list of tdmsgen.Seg)."""
    rng = random.Random(run.seed * 7919 + 17)
    files = list(files[:run.pick(200, 2500)]) + daqmx_files(rng, run.pick(40, 400) if daqmx is None else daqmx)
    res = tie(run.pid, rng, files, run.pick(400, 6000))
    for name, out in res["errors"]:
        run.violation("parse-tie-coq-error", "Coq failed on the parser tie (%s): %s" % (name, out[-400:]),
                      {"op": "parse_tie"}, kind="correspondence-broken", no_input=True)
    for b in res["wf_bad"][:5]:
        run.violation("parse-tie-syntax", "Model/FileParse.v parse_file on the bytes of the independent encoder %s"
                      % ("rejects a generated well-formed file" if b["code"] == 0 else
                         "returns a syntax other than the generator's"),
                      {"op": "read", "hex": b["data"].hex(), "desc": R.describe_segs(b["segs"])},
                      kind="correspondence-broken", theorem="Props/C01_bytes.v parse_file_complete", no_input=True)
    for b in res["control_bad"][:3]:
        run.violation("parse-tie-control", "negative control: a perturbed syntax (%s) compared equal (code %s)"
                      % (b["what"], b["code"]), {"op": "parse_tie"}, kind="correspondence-broken", no_input=True)
    for m in res["mut_bad"][:5]:
        f = m["code"] - 16
        run.violation("parse-tie-mutant", "mutant (%s) accepted by parse_file: %s" % (
            m["kind"], "ser_file (parsed syntax) differs from the bytes" if f & 1 else
            "reader model and implementation disagree"),
            {"op": "read", "hex": m["data"].hex()}, kind="correspondence-broken",
            theorem="Model.Reader.rd_all vs TdmsFile.read on parse_file's domain", actual=m.get("ex") or "tokens",
            no_input=True)
    for k, v in res["stats"].items():
        run.count("parse_tie_" + k, v)
    for kind, d in sorted(res["kinds"].items()):
        run.count("parse_tie_mutant_%s" % kind, d["n"])
        run.count("parse_tie_mutant_%s_parse" % kind, d["parse"])
    run.cov["traces_validated_against_impl"] += res["stats"]["mutants_parse_compared_with_impl"]
    return res


# ---------------------------------------------------------------------------

def build():
    H.project_sync()
    try:
        H.make(["theories/Model/FileParse.vo"], timeout=900)
    except H.BuildError as ex:
        print("BUILD FAILED: %s\n%s" % (ex.what, ex.log[-3000:]))
        sys.exit(2)


def main():
    ap = argparse.ArgumentParser()
    ap.add_argument("--n", type=int, default=240, help="generated well-formed files")
    ap.add_argument("--daqmx", type=int, default=40, help="generated DAQmx files")
    ap.add_argument("--mutants", type=int, default=600)
    ap.add_argument("--seed", type=int, default=None)
    ap.add_argument("--daqmx-mutants", action="store_true", help="also mutate the DAQmx files (see tie())")
    a = ap.parse_args()
    seed = a.seed if a.seed is not None else int(os.environ.get("VERIF_SEED", "1"))
    t0 = time.time()
    build()
    t_build = time.time() - t0
    rng = random.Random(seed)
    files = [G.gen_file(rng, T.type_focus_params(rng)) for _ in range(a.n)] + daqmx_files(rng, a.daqmx)
    res = tie(PID, rng, files, a.mutants, mutate_daqmx=a.daqmx_mutants)
    st = res["stats"]
    print("parse_tie: seed=%d" % seed)
    print("(a) well-formed files: %d (%d segments, %d big-endian, %d DAQmx files, %d bytes); "
          "parse_file (independent encoder's bytes) = generator's syntax on %d / %d"
          % (st["wf_files"], st["wf_segments"], st["wf_big_endian_segments"], st["wf_daqmx_files"], st["wf_bytes"],
             st["wf_parsed_to_generator_syntax"], st["wf_files"]))
    for b in res["wf_bad"][:3]:
        print("  ---- file %d: %s\n  segments: %s\n  syntax (Coq): %s\n  bytes: %s" % (
            b["index"], "REJECTED" if b["code"] == 0 else "OTHER SYNTAX", R.describe_segs(b["segs"]),
            T.c_segs(b["segs"]), b["data"].hex()))
    print("    negative control (syntax perturbed in one place must compare unequal): %d / %d"
          % (st["control_cases"] - len(res["control_bad"]), st["control_cases"]))
    print("(b) single-fault mutants compared: %d; still accepted by parse_file: %d (%.1f %%); "
          "of those compared with TdmsFile.read (model flag true or raises): %d; disagreements: %d"
          % (st["mutants"], st["mutants_parse"], 100.0 * st["mutants_parse"] / max(1, st["mutants"]),
             st["mutants_parse_compared_with_impl"], len(res["mut_bad"])))
    print("    not compared: %s" % {k[16:]: v for k, v in st.items() if k.startswith("mutants_skipped_")})
    print("    %-18s %5s %6s | parse: %7s %7s %10s | rejected: %14s %13s" % (
        "kind", "n", "parse", "read ok", "raises", "flag false", "reader accepts", "reader raises"))
    for kind, d in sorted(res["kinds"].items()):
        print("    %-18s %5d %6d | %14d %7d %10d | %24d %13d" % (
            kind, d["n"], d["parse"], d["parse_read_ok"], d["parse_read_raises"], d["parse_flag_false"],
            d["reject_reader_accepts"], d["reject_reader_raises"]))
    for m in res["mut_bad"][:3]:
        print("  ---- mutant (%s) code %d impl=%s\n  bytes: %s" % (m["kind"], m["code"], m.get("ex") or "tokens",
                                                                 m["data"].hex()))
    for name, out in res["errors"]:
        print("COQ ERROR in %s:\n%s" % (name, out[-2500:]))
    failures = len(res["wf_bad"]) + len(res["control_bad"]) + len(res["mut_bad"]) + len(res["errors"])
    print("timing: build %.1fs, total %.1fs" % (t_build, time.time() - t0))
    print("RESULT: %s" % ("AGREE" if failures == 0 else "DISAGREE (%d)" % failures))
    H.cleanup()
    sys.exit(0 if failures == 0 else 1)


if __name__ == "__main__":
    main()
