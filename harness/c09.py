"""C09 — A matching index file is transparent.

For each generated file written to disk: {no index, index produced by the independent encoder,
(for writer-made files) the index TdmsWriter produced} x {read, open (lazy), read_metadata,
index-only}: identical observations with and without the index; the index alone gives the same
objects, properties, types and lengths and refuses data reads.  Also data files truncated in raw
data with a complete index.  Correspondence: Model/Reader.v reading metadata from the index bytes.
"""
import io
import os
import random
import sys
import warnings
import numpy as np

sys.path.insert(0, os.path.dirname(os.path.abspath(__file__)))
import common as H

H.ensure_env()
import tdmsgen as G          # noqa: E402
import readerlib as R        # noqa: E402

G.silence_logs()


def observe(path, how):
    """how: read | open | meta -> tokens"""
    from nptdms import TdmsFile
    with warnings.catch_warnings():
        warnings.simplefilter("ignore")
        if how == "read":
            f = TdmsFile.read(path, raw_timestamps=True)
            return G.observe_file(f)
        if how == "meta":
            f = TdmsFile.read_metadata(path, raw_timestamps=True)
            return G.observe_file(f, with_data=False)
        with TdmsFile.open(path, raw_timestamps=True) as f:
            toks = G.observe_file(f, with_data=False)
            vals = []
            for g in f.groups():
                for ch in g.channels():
                    if ch.data_type is None:
                        continue
                    d = ch.read_data(scaled=False)
                    if isinstance(d, dict):
                        for sid in sorted(d):
                            vals.append((ch.path, sid, G.canon_array_values(d[sid])))
                    else:
                        vals.append((ch.path, None, G.canon_array_values(d)))
                    # partial reads: a window that starts inside a chunk, integer indices, the chunk stream
                    n = len(ch)
                    if n >= 2 and not isinstance(d, dict):
                        def part(fn):
                            try:
                                return ("ok", fn())
                            except Exception as ex:    # noqa: BLE001
                                return ("err", type(ex).__name__)
                        vals.append((ch.path, "window(1,%d)" % (n - 1),
                                     part(lambda: G.canon_array_values(ch.read_data(1, n - 1, scaled=False)))))
                        vals.append((ch.path, "index", part(lambda: G.canon_array_values(
                            np.array([ch[n - 1], ch[0], ch[n // 2]])))))
                        vals.append((ch.path, "chunks", part(lambda: [
                            (c.offset, G.canon_array_values(c[:])) for c in ch.data_chunks()])))
            return toks, vals


def try_obs(path, how):
    try:
        return observe(path, how), None
    except Exception as ex:    # noqa: BLE001
        return None, ex


def index_only_entry(how, path, index_bytes):
    """metadata observation of a lone index through TdmsFile.read / open / read_metadata"""
    from nptdms import TdmsFile
    src = path if path is not None else io.BytesIO(index_bytes)
    try:
        with warnings.catch_warnings():
            warnings.simplefilter("ignore")
            if how == "read":
                f = TdmsFile.read(src, raw_timestamps=True)
            elif how == "open":
                f = TdmsFile.open(src, raw_timestamps=True)
            else:
                f = TdmsFile.read_metadata(src, raw_timestamps=True)
            toks = G.observe_file(f, with_data=False)
            f.close()
            return toks, None
    except Exception as ex:    # noqa: BLE001
        return None, ex


def index_only_refuses(idx_path):
    """every data read on an index-only file must raise; returns list of reads that returned data"""
    from nptdms import TdmsFile
    leaks = []
    with warnings.catch_warnings():
        warnings.simplefilter("ignore")
        with TdmsFile.open(idx_path, raw_timestamps=True) as f:
            for g in f.groups():
                for ch in g.channels():
                    if len(ch) == 0:
                        continue
                    for name, fn in (("read_data", lambda c: c.read_data()), ("slice", lambda c: c[:]),
                                     ("index", lambda c: c[0]), ("iter", lambda c: list(c)),
                                     ("chunks", lambda c: [x[:] for x in c.data_chunks()])):
                        try:
                            r = fn(ch)
                            leaks.append((ch.path, name, repr(r)[:80]))
                        except Exception:    # noqa: BLE001
                            pass
                    break
    return leaks


def check_file(run, rng, work, k, data, index, label, cases_meta, cases_idx, truncated=False):
    base = os.path.join(work, "f%d" % k)
    os.makedirs(base, exist_ok=True)
    p_plain = os.path.join(base, "plain.tdms")
    p_with = os.path.join(base, "with.tdms")
    open(p_plain, "wb").write(data)
    open(p_with, "wb").write(data)
    open(p_with + "_index", "wb").write(index)
    case = {"op": "index", "hex": data.hex(), "index_hex": index.hex(), "label": label}
    failed = False
    for how in ("read", "open", "meta"):
        a, exa = try_obs(p_plain, how)
        b, exb = try_obs(p_with, how)
        run.cov["evaluations"] += 1
        run.count("%s_%s" % (label, how))
        if a != b:
            failed = True
            run.violation("index-changes-" + how,
                          "%s: TdmsFile.%s differs with a matching index beside the file: %s"
                          % (label, how, repr(exb)[:200] if exb else (repr(exa)[:200] if exa else "content differs")),
                          case, expected="identical observation", actual=repr(exb or exa)[:300])
            break
    # index-only
    if not truncated and not failed:
        meta_plain, ex1 = try_obs(p_plain, "meta")
        io_path = os.path.join(base, "only.tdms_index")
        open(io_path, "wb").write(index)
        only, ex2 = try_obs(io_path, "meta")
        run.cov["evaluations"] += 1
        run.count("%s_index_only" % label)
        # every entry point must accept a lone index: read_metadata, open, read; path and stream
        for how, src in (("read", io_path), ("read", "stream"), ("open", io_path), ("meta", "stream")):
            o3, ex3 = index_only_entry(how, io_path if src != "stream" else None, index)
            if o3 != meta_plain and only == meta_plain:
                failed = True
                run.violation("index-only-entry-" + how,
                              "%s: TdmsFile.%s(index %s) differs from the data file's metadata: %s"
                              % (label, how, "stream" if src == "stream" else "path",
                                 repr(ex3)[:200] if ex3 else R.first_diff(o3, meta_plain)), case,
                              expected="same metadata as the data file", actual=repr(ex3)[:300] if ex3 else
                              R.first_diff(o3, meta_plain))
                break
        if failed:
            pass
        elif only != meta_plain:
            failed = True
            run.violation("index-only-differs", "%s: index file alone gives different objects/properties/types/lengths: %s"
                          % (label, repr(ex2)[:200] if ex2 else R.first_diff(only, meta_plain)), case,
                          expected="same metadata as the data file", actual=repr(ex2)[:300] if ex2 else
                          R.first_diff(only, meta_plain))
        elif only is not None:
            try:
                leaks = index_only_refuses(io_path)
            except Exception as ex:    # noqa: BLE001
                leaks = [("open", "raised", repr(ex)[:100])]
            if leaks:
                failed = True
                run.violation("index-only-returns-data", "%s: data read on an index-only file did not raise: %r"
                              % (label, leaks[:2]), case, expected="an error", actual=leaks[:3])
        cases_idx.append(('(hex "%s", %s)' % (index.hex(), R.c_obs(only)),
                          {"index": index, "impl": R.exc_kind(ex2) or "tokens", "failed": failed}))
    # model: metadata through the index with the data file's size known; eager read through the index
    toks, ex = None, None
    try:
        toks = observe(p_with, "read")
    except Exception as e:    # noqa: BLE001
        ex = e
    cases_meta.append(('(hex "%s", hex "%s", %s)' % (data.hex(), index.hex(), R.c_obs(toks)),
                       {"data": data, "index": index, "impl": R.exc_kind(ex) or "tokens", "failed": failed}))
    return failed


def writer_file(rng, work=None):
    """a file and its index produced by TdmsWriter itself: one session on streams, or (with a work directory)
    1-3 sessions on a path - mode 'w' then 'a' - with index_file=True"""
    from nptdms import TdmsWriter
    if work is not None and rng.random() < 0.5:
        path = os.path.join(work, "writer_sessions.tdms")
        for f in (path, path + "_index"):
            if os.path.exists(f):
                os.remove(f)
        for si in range(rng.randint(1, 3)):
            with TdmsWriter(path, mode="w" if si == 0 else "a", index_file=True) as w:
                writer_calls(rng, w)
        return open(path, "rb").read(), open(path + "_index", "rb").read()
    dbuf, ibuf = io.BytesIO(), io.BytesIO()
    with TdmsWriter(dbuf, index_file=ibuf) as w:
        writer_calls(rng, w)
    return dbuf.getvalue(), ibuf.getvalue()


def writer_calls(rng, w):
    import numpy as np
    from nptdms import ChannelObject, GroupObject, RootObject
    if True:
        for _ in range(rng.randint(1, 4)):
            objs = []
            if rng.random() < 0.5:
                objs.append(RootObject({"r": rng.randint(0, 9)}))
            for g in rng.sample(["g", "h"], rng.randint(1, 2)):
                if rng.random() < 0.5:
                    objs.append(GroupObject(g, {"p": "x" * rng.randint(0, 3)}))
                for c in rng.sample(["a", "b", "c"], rng.randint(1, 3)):
                    kind = rng.choice(["i4", "f8", "str", "u1"])
                    n = rng.randint(0, 4)
                    if kind == "str":
                        arr = ["s%d" % rng.randint(0, 99) for _ in range(max(n, 1))]
                    else:
                        arr = np.array([rng.randint(0, 100) for _ in range(n)], dtype=kind)
                    objs.append(ChannelObject(g, c + kind, arr, {"u": 1.5}))
            w.write_segment(objs)


IMPORTS = R.READER_IMPORTS


def main():
    run = H.Run("C09")
    run.prove()
    rng = random.Random(run.seed)
    work = str(H.workdir("C09"))
    if run.replay:
        import json
        case = json.load(open(run.replay))["case"]
        cm, ci = [], []
        check_file(run, rng, work, 0, bytes.fromhex(case["hex"]), bytes.fromhex(case["index_hex"]), "replay", cm, ci)
        run.finish()
    cases_meta, cases_idx = [], []
    n = run.pick(110, 4000)
    for k in range(n):
        r = rng.random()
        if r < 0.2:
            data, index = writer_file(rng, work)
            label = "writer_index"
            truncated = False
        else:
            segs = G.gen_file(rng, G.GenParams(max_segs=5, max_chans=3, max_vals=3))
            data, index = G.ser_file(segs), G.ser_index(segs)
            label = "encoder_index"
            truncated = False
            if r < 0.45 and segs[-1].data:
                # data file truncated inside the last segment's raw data, index complete
                cut = rng.randint(1, len(segs[-1].data))
                data = data[:len(data) - cut]
                label = "encoder_index_truncated_data"
                truncated = True
        check_file(run, rng, work, k, data, index, label, cases_meta, cases_idx, truncated)
        run.cov["distinct_nontrivial"] += 1
        if k < 2:
            run.sample({"label": label, "data_bytes": len(data), "index_bytes": len(index)})
    # correspondence (a): eager read with metadata taken from the index
    bad, errors = H.run_sharded(run.pid, IMPORTS, "bytes * bytes * option (list tok)",
                                "(fun c => agree_all_idx (fst (fst c)) (snd (fst c)) (snd c))",
                                [c for c, _ in cases_meta], shard=run.pick(40, 120), tag="idxread", timeout=1200)
    run.corr_errors(errors, "idxread")
    run.cov["traces_validated_against_impl"] += len(cases_meta) - len(bad)
    for i in bad[:3]:
        m = cases_meta[i][1]
        rc, out = H.coq_print_terms(run.pid, IMPORTS, ['rd_all_idx (hex "%s") (hex "%s")' % (m["data"].hex(), m["index"].hex())],
                                    tag="show_idx_%d" % i)
        run.violation("corr-index-read", "reader model (metadata from index) and implementation disagree",
                      {"op": "index", "hex": m["data"].hex(), "index_hex": m["index"].hex()},
                      kind="correspondence-broken", theorem="Model.Reader.rd_all_idx vs TdmsFile.read(path with index)",
                      actual=m["impl"], model=out[-3000:], no_input=not m["failed"])
    # correspondence (b): index-only metadata (data file size unknown)
    bad, errors = H.run_sharded(run.pid, IMPORTS, "bytes * option (list tok)",
                                "(fun c => agree_meta (fst c) true None false (snd c))",
                                [c for c, _ in cases_idx], shard=run.pick(40, 120), tag="idxonly", timeout=1200)
    run.corr_errors(errors, "idxonly")
    run.cov["traces_validated_against_impl"] += len(cases_idx) - len(bad)
    for i in bad[:3]:
        m = cases_idx[i][1]
        rc, out = H.coq_print_terms(run.pid, IMPORTS, ['rd_meta_obs (hex "%s") true None false' % m["index"].hex()],
                                    tag="show_only_%d" % i)
        run.violation("corr-index-only", "reader model and implementation disagree on an index-only open",
                      {"op": "index", "hex": "", "index_hex": m["index"].hex()},
                      kind="correspondence-broken", theorem="Model.Reader.rd_meta_obs (index only) vs TdmsFile.read_metadata",
                      actual=m["impl"], model=out[-3000:], no_input=not m["failed"])
    run.cov["rule"] = ("random well-formed files (as C01) written to disk with / without a .tdms_index produced by the "
                       "independent encoder, files + index produced by TdmsWriter, and data files truncated inside the "
                       "last segment's raw data with a complete index; x {read, open, read_metadata, index-only}. "
                       "Index-only excludes the length-unknown marker (lengths unknowable without the data file).")
    run.assumptions = ["index-only opening of a file whose last lead-in carries the length-unknown marker is outside the "
                      "property's satisfiable domain (DESIGN.md C09 domain note)"]
    run.finish()


if __name__ == "__main__":
    main()
